"""Rules decided by the algebra-layer interpreter (pv.symalg / pv.algebra)."""
from __future__ import annotations

import ast
from typing import Any, Dict, List, Optional, Set, Tuple

from .algebra import (
    Scenario,
    exactness_obligations,
    interface_checks,
    leafs,
    path_label,
    result_contract,
    retention_check,
    run_binary,
    soundness_obligations,
)
from .cfg import ExcTable
from .loader import AnalysisError, Program, norm
from .report import Ctx
from .sets import ONES, c_and, c_not, c_or, neg, satisfiable
from .symalg import NONE, Cond, Interp, Obj, Opaque, Path, TL, TupleV, VarV, VS, explore

GENERIC = "IoContract"
POLY = "PolyhedralIoContract"

OPS = {
    "compose": ["compose_tactics", "compose"],
    "quotient": ["quotient_tactics", "quotient"],
    "merge": ["merge"],
}


THOROUGH = {"on": False}


def _scenarios(cls: str, op: str) -> List[Scenario]:
    out = []
    if THOROUGH["on"] and op != "merge":
        # every entry point x {explicit list, None} for the optional list argument x {explicit, None} tactic order
        for m in OPS[op]:
            for keep in ("set", "none"):
                for tn in (False, True):
                    if tn and not m.endswith("_tactics"):
                        continue
                    out.append(Scenario(cls, m, keep=keep, tactics_none=tn))
        return out
    for m in OPS[op]:
        if op == "merge":
            out.append(Scenario(cls, m))
        else:
            out.append(Scenario(cls, m, keep="set"))
            if m.endswith("_tactics"):
                # the None default of vars_to_keep / additional_inputs and of tactics_order
                out.append(Scenario(cls, m, keep="none", tactics_none=True))
    return out


# ---------------------------------------------------------------------------
def rule_soundness(ctx: Ctx, cls: str, ops: List[str], rule: str = "sound") -> None:
    """C01/C02/C05/C08: every returning path of compose/quotient/merge satisfies the soundness sequents for
    uninterpreted constraint predicates, every primitive outcome and every topology."""
    prog = ctx.prog
    exc = ExcTable(prog)
    for op in ops:
        npaths = 0
        nret = 0
        for sc in _scenarios(cls, op):
            paths = run_binary(prog, sc)
            npaths += len(paths)
            _m = prog.resolve_method(cls, sc.method)
            fkey = _m.key if _m is not None else "%s.%s" % (cls, sc.method)
            for p in paths:
                if p.unknowns:
                    # an expression the interpreter could not read flowed somewhere; only matters if it is a result field
                    pass
                if p.terminal == "return":
                    nret += 1
                    obs = soundness_obligations(op, p)
                    for o in obs:
                        construct = "%s: %s" % (op, o["name"].split(": ", 1)[-1])
                        if o["ok"]:
                            ctx.ok(rule, fkey, construct + " @ " + _short(p), o.get("derivation"))
                        else:
                            ctx.violation(
                                rule,
                                fkey,
                                construct,
                                "on path [%s] the goal %s = %s is not derivable from %s with the documented primitive specs"
                                % (path_label(p), o.get("goal"), o.get("goal_term"), o.get("hyps")),
                                {"events": _events(p), "path": path_label(p)},
                                where=prog.func(fkey).where if prog.has_func(fkey) else "",
                            )
                    if obs and len(ctx.samples) < 4:
                        ctx.sample({"entry": fkey, "path": path_label(p), "obligations": obs[:3], "events": _events(p)[:6]})
                elif p.terminal == "raise":
                    # a failing primitive must surface as ValueError (documented) - never be swallowed into a result
                    if p.exc.implicit:
                        construct = "%s: a failing primitive surfaces as ValueError" % op
                        if exc.is_sub(p.exc.cls, "ValueError"):
                            ctx.ok(rule + "-primitive-failure", fkey, construct + " @ " + _short(p), nontrivial=False)
                        else:
                            ctx.violation(rule + "-primitive-failure", fkey, construct, "escapes as %s" % p.exc.cls)
        ctx.extra.setdefault("paths", {})["%s.%s" % (cls, op)] = {"explored": npaths, "returning": nret}
        ctx.floor("%s.%s returning paths" % (cls, op), nret, {"compose": 18, "quotient": 48, "merge": 1}[op])


def _short(p: Path) -> str:
    return ",".join(str(c) for (_n, c, _t) in p.trace)


def _events(p: Path) -> List[str]:
    out = []
    P = p.prov
    for e in p.events:
        k = e["kind"]
        if k in ("refine", "relax"):
            out.append(
                "%s(%s; ctx=%s; elim={%s}; simplify=%s) -> %s" % (k, P.show(e["E"], 3), P.show(e["ctx"], 3), e["S"], e["simplify"], e["outcome"])
            )
        elif k == "simplify":
            out.append("simplify(%s; ctx=%s) -> %s" % (P.show(e["E"], 3), P.show(e["ctx"], 3), e["outcome"]))
        elif k == "refines":
            out.append("refines(%s <= %s) -> %s" % (P.show(e["lhs"], 3), P.show(e["rhs"], 3), e["answer"]))
    return out


# ---------------------------------------------------------------------------
def rule_interfaces(ctx: Ctx, cls: str, ops: List[str], rule: str = "iface") -> None:
    """C06(c,d): prescribed interface formulas by truth table; meaningless requests are rejected with
    IncompatibleArgsError on every path."""
    prog = ctx.prog
    exc = ExcTable(prog)
    for op in ops:
        seen_guard: Set[str] = set()
        for sc in _scenarios(cls, op):
            paths = run_binary(prog, sc)
            _m = prog.resolve_method(cls, sc.method)
            fkey = _m.key if _m is not None else "%s.%s" % (cls, sc.method)
            checks = interface_checks(op, paths, exc.is_sub)
            for c in checks:
                if c["kind"] == "iface":
                    construct = c["what"]
                    if c["ok"]:
                        ctx.ok(rule, fkey, construct + " @ " + c["path"][:80], "got=%s" % c.get("got"))
                    else:
                        ctx.violation(
                            rule,
                            fkey,
                            construct,
                            "result %s differ from the prescribed interface on variable classes {%s}: got {%s}, prescribed {%s} (path %s)"
                            % (construct, c.get("rows"), c.get("got"), c.get("spec"), c["path"]),
                            where=prog.func(fkey).where,
                        )
                elif c["kind"] == "guard-return":
                    if c["ok"]:
                        ctx.ok(rule + "-guard", fkey, c["what"] + " @ " + c["path"][:80])
                    else:
                        ctx.violation(
                            rule + "-guard",
                            fkey,
                            c["what"],
                            "a path returns a contract although the request has %s (path %s)" % (c["label"], c["path"]),
                            where=prog.func(fkey).where,
                        )
                elif c["kind"] == "guard-raise":
                    seen_guard.add(c["label"])
                    if c["ok"]:
                        ctx.ok(rule + "-guard", fkey, c["what"] + " @ " + c["path"][:80], c.get("site"))
                    else:
                        ctx.violation(
                            rule + "-guard",
                            fkey,
                            c["what"],
                            "a request with %s can end in %s (%s in %s) instead of IncompatibleArgsError (path %s)"
                            % (c["label"], c["raised"], c.get("site"), c.get("func"), c["path"]),
                            where=prog.func(fkey).where,
                        )
        ctx.extra.setdefault("guards_seen", {})["%s.%s" % (cls, op)] = sorted(seen_guard)


# ---------------------------------------------------------------------------
def rule_retention(ctx: Ctx, cls: str = POLY) -> None:
    """C15 tier N (verdict): a verbatim guarantee term that touches no eliminated variable is still present in
    the result (guarantees or assumptions); removal 'because the same term is in the context' counts as a removal."""
    prog = ctx.prog
    for op in ("compose", "merge"):
        for sc in _scenarios(cls, op):
            paths = run_binary(prog, sc)
            fkey = "%s.%s" % (cls, sc.method)
            anchor = "IoContract.%s" % ("compose_tactics" if op == "compose" else "merge")
            for p in paths:
                if p.terminal != "return":
                    continue
                for r in retention_check(p, op):
                    construct = "%s retains verbatim interface-level guarantee terms [%s]" % (op, r["class"])
                    if r.get("kind") == "simplify-before-elimination":
                        construct = "%s does not remove an interface-level guarantee as redundant before the elimination rewrites what made it redundant" % op
                        r = dict(r, lost="[%s] %s" % (r["class"], r["lost"]))
                    if r["ok"]:
                        ctx.ok("retain", anchor, construct + " @ " + fkey + ":" + _short(p))
                    else:
                        ctx.violation(
                            "retain",
                            anchor,
                            construct,
                            ("%s; " % r["lost"] if r["class"].startswith(("no variable", "no guarantee")) else "terms with membership {%s} are in neither the result's guarantees nor its assumptions; " % r["lost"])
                            + "G_res = %s (entry %s, path %s)" % (r["g_res"], fkey, path_label(p)),
                            {"events": _events(p)},
                            where=prog.func(anchor).where,
                        )


def rule_exactness(ctx: Ctx, cls: str = POLY) -> None:
    """C15 second sentence: with no connection between the contracts composition is exact (semantic, Horn judge)."""
    prog = ctx.prog
    n = 0
    for m in OPS["compose"]:
        for keep in ("set", "none"):
            sc = Scenario(cls, m, keep=keep, no_connection=True)
            paths = run_binary(prog, sc)
            fkey = "%s.%s" % (cls, m)
            anchor = "IoContract.compose_tactics"
            for p in paths:
                if p.terminal != "return":
                    continue
                n += 1
                for o in exactness_obligations(p):
                    construct = "compose without connection is exact: %s" % o["name"].split(": ", 1)[-1]
                    if o["ok"]:
                        ctx.ok("exact", anchor, construct + " @ " + fkey + ":" + _short(p), o["derivation"])
                    else:
                        ctx.violation(
                            "exact",
                            anchor,
                            construct,
                            "goal %s = %s not derivable (entry %s, path %s)" % (o["goal"], o["goal_term"], fkey, path_label(p)),
                            {"events": _events(p)},
                            where=prog.func(anchor).where,
                        )
    ctx.floor("no-connection compose returning paths", n, 4)


# ---------------------------------------------------------------------------
def rule_constructor(ctx: Ctx, cls: str = GENERIC, rule: str = "ctor") -> None:
    """C06(a)/C07(d): constructor validation dominates the stores; fields are copies; guarantees are simplified
    against the assumptions (never the converse)."""
    prog = ctx.prog
    exc = ExcTable(prog)
    init = prog.resolve_method(cls, "__init__")
    if init is None:
        raise AnalysisError("anchor vanished: %s.__init__" % cls)
    fkey = init.key

    def setup(it: Interp):
        ob = Obj(cls)
        a = it.leaf("A")
        g = it.leaf("G")
        i = it.atoms.atom("I")
        o = it.atoms.atom("O")
        it.atoms.atom("v(A)")
        it.atoms.atom("v(G)")
        args = {"assumptions": a, "guarantees": g, "input_vars": VS(i), "output_vars": VS(o), "simplify": Opaque("simplify")}
        it.entry_self = ob

        def thunk():
            it.call_function(init, [], args, self_val=ob)
            return ob

        return thunk

    paths = explore(prog, setup)
    nret = 0
    for p in paths:
        A = p.atoms.masks
        I, O, vA, vG = A["I"], A["O"], A["v(A)"], A["v(G)"]
        bads = [
            ("duplicate inputs", ("op", "has_duplicates(input_vars)")),
            ("duplicate outputs", ("op", "has_duplicates(output_vars)")),
            ("a variable that is both input and output", ("E", I & O)),
            ("assumptions mentioning a non-input", ("E", vA & neg(I))),
            ("guarantees mentioning a variable outside the interface", ("E", vG & neg(I | O))),
        ]
        if p.terminal == "return":
            nret += 1
            ob = p.value
            for label, b in bads:
                comp = satisfiable(list(p.conds) + [b], p.allowed)
                construct = "constructor rejects %s" % label
                if not comp:
                    ctx.ok(rule, fkey, construct + " @ " + _short(p))
                else:
                    ctx.violation(rule, fkey, construct, "an object is constructed although the arguments have %s (path %s)" % (label, path_label(p)), where=init.where)
            # fields
            P = p.prov
            L = leafs(p)
            fa, fg = ob.fields.get("a"), ob.fields.get("g")
            fi_, fo = ob.fields.get("inputvars"), ob.fields.get("outputvars")
            okf = isinstance(fa, TL) and isinstance(fg, TL) and isinstance(fi_, VS) and isinstance(fo, VS)
            if not okf:
                ctx.violation(rule, fkey, "constructor stores a, g, inputvars, outputvars", "a field is missing or not of the expected kind", where=init.where)
                continue
            for nm, got, spec in (("inputvars", fi_.tt, I), ("outputvars", fo.tt, O)):
                d = (got ^ spec) & p.allowed
                construct = "constructor stores %s unchanged" % nm
                (ctx.ok(rule, fkey, construct + " @ " + _short(p)) if d == 0 else ctx.violation(rule, fkey, construct, "stored list differs on {%s}" % p.atoms.describe(d, p.allowed), where=init.where))
            An, Gn = L["A"], L["G"]
            goals = [
                ("stored assumptions are equivalent to the argument (1)", [fa.n], An),
                ("stored assumptions are equivalent to the argument (2)", [An], fa.n),
                ("assumptions + stored guarantees imply the argument guarantees", [fa.n, fg.n], Gn),
                ("stored guarantees add nothing to the argument guarantees", [Gn], fg.n),
            ]
            for name, hyps, goal in goals:
                construct = "constructor: " + name
                if P.entails(hyps, goal):
                    ctx.ok(rule + "-meaning", fkey, construct + " @ " + _short(p))
                else:
                    ctx.violation(
                        rule + "-meaning",
                        fkey,
                        construct,
                        "not derivable: %s |- %s (a=%s, g=%s; path %s)" % ([P.show(h) for h in hyps], P.show(goal), P.show(fa.n), P.show(fg.n), path_label(p)),
                        where=init.where,
                    )
            # when the guarantees are simplified, the context is the whole assumption list: a part of it leaves
            # guarantees that the full assumptions make redundant (C07: nothing further can be dropped)
            node = P.nodes[fg.n]
            while node[0] == "copy":
                node = P.nodes[node[1]]
            if node[0] == "simp":
                construct = "constructor: the guarantees are simplified in the context of all the assumptions"
                cn = node[2]
                if cn is not None and _strip(P, cn) == _strip(P, fa.n):
                    ctx.ok(rule + "-meaning", fkey, construct + " @ " + _short(p))
                else:
                    ctx.violation(rule + "-meaning", fkey, construct, "the context is %s, not the stored assumptions %s: guarantees implied only through the left-out assumptions stay" % (P.show(cn, 4) if cn is not None else "empty", P.show(fa.n, 3)), where=init.where)
            # defensive copies: stored lists are not the argument objects themselves
            for nm, f, arg in (("a", fa, An), ("g", fg, Gn)):
                construct = "constructor stores a copy of %s" % nm
                if f.n != arg:
                    ctx.ok(rule + "-copy", fkey, construct + " @ " + _short(p))
                else:
                    ctx.violation(rule + "-copy", fkey, construct, "the argument object itself is stored (aliasing)", where=init.where)
        elif p.terminal == "raise":
            for label, b in bads:
                if satisfiable(list(p.conds) + [b], p.allowed):
                    construct = "constructor rejects %s with IncompatibleArgsError" % label
                    if p.exc.implicit:
                        # a primitive failed (simplify on unsatisfiable constraints): only possible after validation
                        continue
                    if exc.is_sub(p.exc.cls, "IncompatibleArgsError"):
                        ctx.ok(rule, fkey, construct + " @ " + _short(p))
                    else:
                        ctx.violation(rule, fkey, construct, "raises %s instead" % p.exc.cls, where=init.where)
    ctx.floor("constructor returning paths", nret, 2)


# ---------------------------------------------------------------------------
def _leafset(P, n: int) -> Optional[Set[str]]:
    node = P.nodes[n]
    if node[0] == "leaf":
        return {node[1]}
    if node[0] == "top":
        return set()
    if node[0] == "copy":
        return _leafset(P, node[1])
    if node[0] == "union":
        a, b = _leafset(P, node[1]), _leafset(P, node[2])
        if a is None or b is None:
            return None
        return a | b
    return None


def rule_refines_shape(ctx: Ctx, cls: str, method: str, expected: List[Tuple[Set[str], Set[str]]], binary: bool, rule: str = "containment-queries") -> None:
    """C03: the Boolean returned is exactly the conjunction of the expected containment queries (as sequents)."""
    prog = ctx.prog
    exc = ExcTable(prog)
    fi = prog.resolve_method(cls, method)
    if fi is None:
        raise AnalysisError("anchor vanished: %s.%s" % (cls, method))
    fkey = "%s.%s" % (cls, method)

    def setup(it: Interp):
        from .algebra import operand

        s = operand(it, cls, "self", "A1", "G1", "sI", "sO")
        if binary:
            o = operand(it, cls, "other", "A2", "G2", "oI", "oO")
            args = [o]
        else:
            args = [it.leaf("X")]

        def thunk():
            return it.call_function(fi, args, {}, self_val=s)

        return thunk

    paths = explore(prog, setup)
    exp = [(frozenset(l), frozenset(r)) for (l, r) in expected]
    nret = 0
    for p in paths:
        if p.terminal == "raise":
            continue
        nret += 1
        P = p.prov
        v = p.value
        if not isinstance(v, Cond) or v.c[0] != "const":
            ctx.cannot_decide(rule, fkey, "returned value", "the returned value is not a decided Boolean on path %s" % path_label(p))
            continue
        ret = v.c[1]
        asked = []
        bad_query = None
        for e in p.events:
            if e["kind"] != "refines":
                continue
            l, r = _leafset(P, e["lhs"]), _leafset(P, e["rhs"])
            if l is None or r is None:
                bad_query = "%s <= %s" % (P.show(e["lhs"]), P.show(e["rhs"]))
                break
            q = (frozenset(l), frozenset(r - l))
            asked.append((q, e["answer"]))
            if q not in exp:
                bad_query = "%s |- %s" % (sorted(q[0]), sorted(q[1]))
                break
        construct = "%s asks exactly the containment queries %s" % (method, [(sorted(l), sorted(r)) for l, r in exp])
        if bad_query is not None:
            ctx.violation(rule, fkey, construct, "asks the containment query %s, which is not one of the expected (path %s)" % (bad_query, path_label(p)), where=fi.where)
            continue
        answers = dict(asked)
        if ret:
            good = all(answers.get(q) is True for q in exp)
            msg = "returns True although not every expected containment was asked and answered True: asked %s" % [(sorted(q[0]), sorted(q[1]), a) for q, a in asked]
        else:
            good = any(a is False for a in answers.values())
            msg = "returns False although every containment asked was answered True: %s" % [(sorted(q[0]), sorted(q[1]), a) for q, a in asked]
        if good:
            ctx.ok(rule, fkey, construct + " @ " + _short(p))
        else:
            ctx.violation(rule, fkey, construct, msg + " (path %s)" % path_label(p), where=fi.where)
    ctx.floor("%s returning paths" % fkey, nret, 2)
    if binary:
        # interface guard
        for c in interface_checks("refines", paths, exc.is_sub):
            if c["kind"] == "guard-return":
                (ctx.ok("iface-guard", fkey, c["what"] + " @ " + c["path"][:60]) if c["ok"] else ctx.violation("iface-guard", fkey, c["what"], "an answer is returned although the contracts have different interfaces (path %s)" % c["path"], where=fi.where))
            elif c["kind"] == "guard-raise":
                (ctx.ok("iface-guard", fkey, c["what"] + " @ " + c["path"][:60]) if c["ok"] else ctx.violation("iface-guard", fkey, c["what"], "raises %s instead of IncompatibleArgsError" % c["raised"], where=fi.where))


# ---------------------------------------------------------------------------
def rule_rename(ctx: Ctx, cls: str = GENERIC, rule: str = "rename") -> None:
    """C16/C06(e): the four source/target cases of rename_variable, by truth table over singleton atoms."""
    prog = ctx.prog
    exc = ExcTable(prog)
    fi = prog.resolve_method(cls, "rename_variable")
    if fi is None:
        raise AnalysisError("anchor vanished: %s.rename_variable" % cls)
    fkey = fi.key
    roles = ("in", "out", "absent")
    ncases = 0
    for srole in roles:
        for trole in roles:
            for same in (False, True):
                if same and srole != trole:
                    continue

                def setup(it: Interp, srole=srole, trole=trole, same=same):
                    from .algebra import operand

                    s = operand(it, cls, "self", "A1", "G1", "sI", "sO")
                    A = it.atoms
                    S = A.atom("isS")
                    T = A.atom("isT")
                    sI, sO = A.masks["sI"], A.masks["sO"]
                    for (m, role) in ((S, srole), (T, trole)):
                        if role == "in":
                            it.allowed &= neg(m & neg(sI))
                        elif role == "out":
                            it.allowed &= neg(m & neg(sO))
                        else:
                            it.allowed &= neg(m & (sI | sO))
                    if same:
                        it.allowed &= neg(S ^ T)
                    else:
                        it.allowed &= neg(S & T)
                    it.assume(("E", S), True)
                    it.assume(("E", T), True)

                    def thunk():
                        return it.call_function(fi, [VarV(S, "S"), VarV(T, "T")], {}, self_val=s)

                    return thunk

                paths = explore(prog, setup)
                case = "source %s, target %s%s" % (srole, trole, " (same variable)" if same else "")
                ncases += 1
                clash = (not same) and ((srole == "in" and trole == "out") or (srole == "out" and trole == "in"))
                for p in paths:
                    A = p.atoms.masks
                    sI, sO, S, T = A["sI"], A["sO"], A["isS"], A["isT"]
                    if p.terminal == "raise":
                        if p.exc.implicit:
                            continue  # simplify failing in the constructor: unsatisfiable constraints
                        construct = "rename (%s): outcome" % case
                        if clash and exc.is_sub(p.exc.cls, "IncompatibleArgsError"):
                            ctx.ok(rule, fkey, construct + " @ " + _short(p))
                        elif clash:
                            ctx.violation(rule, fkey, construct, "raises %s instead of IncompatibleArgsError" % p.exc.cls, where=fi.where)
                        else:
                            ctx.violation(rule, fkey, construct, "raises %s (%s) although the renaming is meaningful" % (p.exc.cls, norm(p.exc.node)[:80]), where=fi.where)
                        continue
                    res = p.value
                    construct = "rename (%s): outcome" % case
                    if clash:
                        ctx.violation(rule, fkey, construct, "returns a contract although the variable would be both input and output", where=fi.where)
                        continue
                    if not isinstance(res, Obj):
                        ctx.violation(rule, fkey, construct, "does not return a contract", where=fi.where)
                        continue
                    active = (not same) and srole != "absent"
                    if active:
                        spec_in = (sI & neg(S)) | (T if srole == "in" else 0)
                        spec_out = (sO & neg(S)) | (T if srole == "out" else 0)
                    else:
                        spec_in, spec_out = sI, sO
                    okc = True
                    for nm, f, spec in (("inputs", res.fields.get("inputvars"), spec_in), ("outputs", res.fields.get("outputvars"), spec_out)):
                        if not isinstance(f, VS) or ((f.tt ^ spec) & p.allowed):
                            okc = False
                            d = ((f.tt ^ spec) & p.allowed) if isinstance(f, VS) else ONES
                            ctx.violation(rule, fkey, "rename (%s): %s" % (case, nm), "interface %s wrong on {%s}" % (nm, p.atoms.describe(d, p.allowed)), where=fi.where)
                    # constraint lists
                    P = p.prov
                    for nm, leafname in (("a", "A1"), ("g", "G1")):
                        f = res.fields.get(nm)
                        nf = _strip(P, f.n) if isinstance(f, TL) else None
                        want = [("rename", leafname)] if active else [("leaf", leafname)]
                        if active and srole == "out" and nm == "a":
                            # assumptions cannot mention an output: renaming them is a no-op either way
                            want.append(("leaf", leafname))
                        if nf not in want:
                            okc = False
                            ctx.violation(
                                rule,
                                fkey,
                                "rename (%s): constraint list %s" % (case, nm),
                                "expected %s of %s, got %s" % ("the renamed copy" if active else "an unchanged copy", leafname, P.show(f.n) if isinstance(f, TL) else f),
                                where=fi.where,
                            )
                    if okc:
                        ctx.ok(rule, fkey, construct + " @ " + _short(p))
    ctx.floor("rename cases", ncases, 12)


def _strip(P, n: int):
    node = P.nodes[n]
    if node[0] in ("copy", "simp"):
        return _strip(P, node[1])
    if node[0] == "leaf":
        return ("leaf", node[1])
    if node[0] == "rename":
        inner = _strip(P, node[1])
        if inner and inner[0] == "leaf" and node[2] == "S" and node[3] == "T":
            return ("rename", inner[1])
        return ("other", n)
    return ("other", n)


# ---------------------------------------------------------------------------
def rule_forwarding(ctx: Ctx, rule: str = "forwarding") -> None:
    """C01(a)/C02: the polyhedral wrappers and the generic convenience wrappers forward every parameter to the
    same-named parameter of the method they delegate to."""
    prog = ctx.prog
    pairs = [
        ("PolyhedralIoContract.compose", "super", "compose"),
        ("PolyhedralIoContract.compose_tactics", "super", "compose_tactics"),
        ("PolyhedralIoContract.quotient", "super", "quotient"),
        ("PolyhedralIoContract.quotient_tactics", "super", "quotient_tactics"),
        ("IoContract.compose", "self", "compose_tactics"),
        ("IoContract.quotient", "self", "quotient_tactics"),
    ]
    n = 0
    for wkey, via, meth in pairs:
        w = prog.func(wkey)
        wparams = set(w.params[1:])
        calls = []
        for node in ast.walk(w.node):
            if isinstance(node, ast.Call) and isinstance(node.func, ast.Attribute) and node.func.attr == meth:
                base = node.func.value
                if via == "super" and isinstance(base, ast.Call) and isinstance(base.func, ast.Name) and base.func.id == "super":
                    calls.append(node)
                elif via == "self" and isinstance(base, ast.Name) and base.id == w.params[0]:
                    calls.append(node)
        if not calls:
            ctx.cannot_decide(rule, wkey, "delegation call", "no delegation to %s.%s found" % (via, meth))
            continue
        callee = prog.resolve_super(w.cls.name, meth) if via == "super" else prog.resolve_method(w.cls.name, meth)
        if via == "self":
            callee = prog.resolve_method("IoContract", meth)
        if callee is None:
            ctx.cannot_decide(rule, wkey, "delegation call", "callee %s not found" % meth)
            continue
        cparams = callee.params[1:]
        for c in calls:
            bound: Dict[str, ast.AST] = {}
            for p_, a in zip(cparams, c.args):
                bound[p_] = a
            for k in c.keywords:
                if k.arg:
                    bound[k.arg] = k.value
            for p_, a in bound.items():
                n += 1
                names = {x.id for x in ast.walk(a) if isinstance(x, ast.Name)} & wparams
                construct = "%s forwards %s" % (wkey, p_)
                if names and names != {p_}:
                    ctx.violation(rule, wkey, construct, "callee parameter %s receives %s" % (p_, norm(a)), where=w.where)
                else:
                    ctx.ok(rule, wkey, construct)
    ctx.floor("forwarded arguments", n, 16)


def rule_default_orders(ctx: Ctx, rule: str = "tactic-table") -> None:
    """C04(b): every default tactic order names only keys of TACTICS; TACTICS values are callables of the
    4-argument tactic shape."""
    prog = ctx.prog
    ptl = prog.cls("PolyhedralTermList")
    tnode = ptl.class_assigns.get("TACTICS")
    if not isinstance(tnode, ast.Dict):
        raise AnalysisError("anchor vanished: PolyhedralTermList.TACTICS is not a dict literal")
    keys = []
    for k, v in zip(tnode.keys, tnode.values):
        if not (isinstance(k, ast.Constant) and isinstance(k.value, int)):
            raise AnalysisError("TACTICS key %s is not an int literal" % norm(k))
        keys.append(k.value)
        # value shape
        target = None
        if isinstance(v, ast.Attribute) and v.attr == "__func__" and isinstance(v.value, ast.Name):
            target = ptl.methods.get(v.value.id)
            nargs = len(target.params) if target else None
        elif isinstance(v, ast.Lambda):
            nargs = len(v.args.args)
            target = v
        elif isinstance(v, ast.Name):
            target = ptl.methods.get(v.id)
            nargs = len(target.params) if target else None
        else:
            nargs = None
        construct = "TACTICS[%d] is a 4-argument tactic" % k.value
        if target is None:
            ctx.violation(rule, "PolyhedralTermList.TACTICS", construct, "entry %s does not resolve to a tactic function" % norm(v))
        elif nargs != 4:
            ctx.violation(rule, "PolyhedralTermList.TACTICS", construct, "entry takes %s parameters" % nargs)
        else:
            ctx.ok(rule, "PolyhedralTermList.TACTICS", construct)
    n = 0
    for modbase in ("polyhedra", "polyhedral_iocontract"):
        m = prog.module(modbase)
        v = m.assigns.get("TACTICS_ORDER")
        if v is None and "TACTICS_ORDER" in m.imports:
            # the module uses another module's constant instead of a copy of it: that one is judged under its own name
            tgt = m.imports["TACTICS_ORDER"]
            src = prog.modules.get(tgt.rpartition(".")[0])
            if src is not None and "TACTICS_ORDER" in src.assigns:
                n += 1
                ctx.ok(rule, modbase + ".TACTICS_ORDER", "%s.TACTICS_ORDER is %s" % (modbase, tgt), nontrivial=False)
                continue
        if v is None:
            raise AnalysisError("anchor vanished: %s.TACTICS_ORDER" % modbase)
        if not isinstance(v, (ast.List, ast.Tuple)) or not all(isinstance(e, ast.Constant) for e in v.elts):
            ctx.cannot_decide(rule, modbase + ".TACTICS_ORDER", "literal", "not a literal list")
            continue
        n += 1
        vals = [e.value for e in v.elts]
        missing = [x for x in vals if x not in keys]
        construct = "%s.TACTICS_ORDER names only TACTICS keys" % modbase
        if missing:
            ctx.violation(rule, modbase + ".TACTICS_ORDER", construct, "entries %s have no tactic" % missing)
        else:
            ctx.ok(rule, modbase + ".TACTICS_ORDER", construct)
    ctx.floor("TACTICS_ORDER constants", n, 2)


# expected containment queries as sequents  (self = 1, other = 2)
EXPECTED_REFINES = [({"A2"}, {"A1"}), ({"G1", "A2"}, {"G2"})]
EXPECTED_ENV = [({"X"}, {"A1"})]
EXPECTED_IMPL = [({"X", "A1"}, {"G1"})]


def rule_tl_operators(ctx: Ctx, rule: str = "termlist-operators") -> None:
    """C08/C05: TermList.__or__ is the union (conjunction), __sub__ the difference, __and__ the intersection of the
    term sets, and the list helpers compute the set functions their names say, keeping first-argument order."""
    from .tlops import le_forwards_to, summarise_tl_operator

    prog = ctx.prog
    want = {"__or__": "union", "__sub__": "diff", "__and__": "inter"}
    for name, kind in want.items():
        got = summarise_tl_operator(prog, name)
        construct = "TermList.%s computes the %s of the term sets" % (name, kind)
        if got == kind:
            ctx.ok(rule, "TermList." + name, construct)
        else:
            ctx.violation(rule, "TermList." + name, construct, "the body computes '%s'" % got, where=prog.func("TermList." + name).where)
    fwd = le_forwards_to(prog)
    construct = "TermList.__le__ forwards to self.refines(other)"
    if fwd == "refines":
        ctx.ok(rule, "TermList.__le__", construct)
    elif fwd.startswith("!"):
        ctx.violation(rule, "TermList.__le__", construct, fwd[1:], where=prog.func("TermList.__le__").where)
    else:
        ctx.violation(rule, "TermList.__le__", construct, "forwards to %s" % fwd, where=prog.func("TermList.__le__").where)
    rule_list_helpers(ctx)


def _first_enumerated(prog: Program, fi, depth: int) -> List[Optional[str]]:
    """For every returned expression of a list helper: the parameter whose elements come first, in their order
    (comprehension over / concatenation starting with / copy of a parameter; a call of another helper of the package is
    followed into that helper)."""
    firsts: List[Optional[str]] = []
    for r in [n for n in ast.walk(fi.node) if isinstance(n, ast.Return)]:
        e = r.value
        while isinstance(e, ast.BinOp) and isinstance(e.op, ast.Add):
            e = e.left
        if isinstance(e, ast.ListComp) and isinstance(e.generators[0].iter, ast.Name):
            firsts.append(e.generators[0].iter.id)
        elif isinstance(e, ast.Name) and e.id not in fi.params:
            # a local list filled by `.append(x)` / `+= [x]` inside `for x in <parameter>` loops: the first such loop
            src = None
            for st in ast.walk(fi.node):
                if isinstance(st, ast.For) and isinstance(st.iter, ast.Name) and st.iter.id in fi.params and isinstance(st.target, ast.Name):
                    fills = any(
                        (isinstance(c, ast.Call) and isinstance(c.func, ast.Attribute) and c.func.attr == "append" and isinstance(c.func.value, ast.Name) and c.func.value.id == e.id and c.args and isinstance(c.args[0], ast.Name) and c.args[0].id == st.target.id)
                        for b in st.body
                        for c in ast.walk(b)
                    )
                    if fills:
                        src = st.iter.id
                        break
            # a temporary bound once to another recognised expression
            if src is None:
                binds = [n.value for n in ast.walk(fi.node) if isinstance(n, ast.Assign) and len(n.targets) == 1 and isinstance(n.targets[0], ast.Name) and n.targets[0].id == e.id]
                if len(binds) == 1 and not isinstance(binds[0], (ast.List,)):
                    sub = ast.Return(value=binds[0])
                    fake = ast.FunctionDef(name="_", args=fi.node.args, body=[sub], decorator_list=[])

                    class _F:
                        node = fake
                        params = fi.params
                        module = fi.module

                    inner = _first_enumerated(prog, _F(), depth + 1)
                    src = inner[0] if len(inner) == 1 else None
            firsts.append(src)
        elif isinstance(e, ast.Name):
            firsts.append(e.id)
        elif isinstance(e, ast.Call) and isinstance(e.func, ast.Name) and e.func.id == "list" and len(e.args) == 1 and isinstance(e.args[0], ast.Name):
            firsts.append(e.args[0].id)
        elif isinstance(e, ast.Call) and isinstance(e.func, ast.Name) and depth < 3 and prog.resolve_name(fi.module, e.func.id).__class__.__name__ == "FuncInfo":
            callee = prog.resolve_name(fi.module, e.func.id)
            inner = _first_enumerated(prog, callee, depth + 1)
            for f in inner:
                arg = None
                if f in callee.params:
                    k = callee.params.index(f)
                    if k < len(e.args):
                        arg = e.args[k]
                    else:
                        arg = next((kw.value for kw in e.keywords if kw.arg == f), None)
                firsts.append(arg.id if isinstance(arg, ast.Name) else None)
            if not inner:
                firsts.append(None)
        else:
            firsts.append(None)
    return firsts


def _order_by_run(prog: Program, fi, name: str):
    """The helper run by the kernel interpreter on two lists of distinct names in scrambled order: True when the
    result is the expected one in the order of the first argument (then of the second), a description when it is not,
    None when the interpreter cannot follow the helper."""
    from .termalg import Key, ListV, Raised, TermAlg
    from .termalg import Undecidable as _Und

    want = {
        "list_union": ["c", "a", "d", "b", "e", "f"],
        "list_intersection": ["a", "b"],
        "list_diff": ["c", "d"],
    }.get(name)
    if want is None:
        return None
    try:
        ta = TermAlg(prog)
        l1 = ListV([Key(n) for n in ("c", "a", "d", "b")])
        l2 = ListV([Key(n) for n in ("b", "e", "a", "f")])
        r = ta.call(fi, [l1, l2], {})
        items = list(ta.iterate(r, fi.node))
    except (AnalysisError, _Und, Raised):
        return None
    got = [x.name if isinstance(x, Key) else "?" for x in items]
    if got == want:
        return True
    return "on [c, a, d, b] and [b, e, a, f] it returns %s, expected %s" % (got, want)


def rule_list_helpers(ctx: Ctx, rule: str = "list-helpers") -> None:
    """utils/lists.py summarised from source: membership function and order preservation."""
    from .sets import ONES as _ONES
    from .symalg import Run

    prog = ctx.prog
    want = {
        "list_union": lambda a, b: a | b,
        "list_diff": lambda a, b: a & (_ONES ^ b),
        "list_intersection": lambda a, b: a & b,
    }
    for name, spec in want.items():
        fi = prog.func("lists." + name)
        construct = "%s computes the set function its name says" % name

        def setup_h(it: Interp, fi=fi):
            a = VS(it.atoms.atom("list1"))
            b = VS(it.atoms.atom("list2"))
            it._ab = (a, b)
            return lambda: it.call_function(fi, [a, b], {})

        # every path (a shortcut on an empty argument forks): on the rows the path leaves possible the result is the
        # set function
        verdict = None
        try:
            hpaths = explore(prog, setup_h, max_paths=64)
        except AnalysisError as ex:
            hpaths = []
            verdict = ("undecided", str(ex))
        for p in hpaths:
            if p.terminal != "return" or not isinstance(p.value, VS):
                verdict = verdict or ("undecided", "body is outside the comprehension fragment")
                continue
            A = p.atoms.masks
            d = (p.value.tt ^ spec(A["list1"], A["list2"])) & p.allowed
            if d:
                verdict = ("violation", "membership function differs on {%s} (path %s)" % (p.atoms.describe(d, p.allowed), path_label(p)))
                break
        if verdict is None:
            ctx.ok(rule, fi.key, construct)
        elif verdict[0] == "violation":
            ctx.violation(rule, fi.key, construct, verdict[1], where=fi.where)
        else:
            ctx.cannot_decide(rule, fi.key, construct, verdict[1])
            continue
        # order preservation: every returned expression enumerates list1 first (comprehension over / concatenation
        # starting with the first parameter, or the first parameter itself)
        construct = "%s keeps the order of its first argument" % name
        sem = _order_by_run(prog, fi, name)
        if sem is True:
            ctx.ok(rule, fi.key, construct)
            continue
        if isinstance(sem, str):
            ctx.violation(rule, fi.key, construct, sem, where=fi.where)
            continue
        firsts = _first_enumerated(prog, fi, 0)
        if not firsts or None in firsts:
            ctx.cannot_decide(rule, fi.key, construct, "unrecognised shape")
        elif all(f == fi.params[0] for f in firsts):
            ctx.ok(rule, fi.key, construct)
        else:
            ctx.violation(rule, fi.key, construct, "enumerates %s first" % [f for f in firsts if f != fi.params[0]][0], where=fi.where)
    # lists_equal: set equality (all paths of the helper, each under its own path condition)
    fi = prog.func("lists.lists_equal")
    construct = "lists_equal decides set equality"
    from .sets import implies

    def setup(it: Interp):
        a = VS(it.atoms.atom("list1"), True)
        b = VS(it.atoms.atom("list2"), True)
        it._ab = (a, b)
        return lambda: it.call_function(fi, [a, b], {})

    okc = True
    why = ""
    for p in explore(prog, setup):
        if p.terminal != "return" or not isinstance(p.value, Cond):
            okc, why = False, "does not reduce to a condition"
            break
        A = p.atoms.masks
        spec = c_not(("E", A["list1"] ^ A["list2"]))
        if not (implies(list(p.conds) + [p.value.c], spec, p.allowed) and implies(list(p.conds) + [spec], p.value.c, p.allowed)):
            okc, why = False, "computes a different predicate on path %s" % path_label(p)
            break
    if okc:
        ctx.ok(rule, fi.key, construct)
    elif why.startswith("does not"):
        ctx.cannot_decide(rule, fi.key, construct, why)
    else:
        ctx.violation(rule, fi.key, construct, why, where=fi.where)


def rule_contract_factories(ctx: Ctx, rule: str = "through-constructor") -> None:
    """C06(b): every contract-returning method ends in the validating constructor (directly or through another
    contract-returning method), so the run-time validation is always reached."""
    prog = ctx.prog
    targets = []
    for cname in ("IoContract", "PolyhedralIoContract", "IoContractCompound", "PolyhedralIoContractCompound"):
        ci = prog.cls(cname)
        for mname, fi in sorted(ci.methods.items()):
            if mname.startswith("__") or fi.node.returns is None:
                continue
            t = norm(fi.node.returns).replace("'", "")
            if any(x in t for x in ("IoContract", "IoContract_t", "IoContractCompound")) and "bool" not in t:
                targets.append(fi)
    n = 0
    names_ok = {f.name for f in targets}

    def producer(e: ast.AST, fi, seen: Set[str]) -> Optional[str]:
        """None if e certainly is a freshly validated contract (or tuple starting with one); else a reason."""
        if isinstance(e, ast.Tuple) and e.elts:
            return producer(e.elts[0], fi, seen)
        if isinstance(e, ast.Call):
            f = e.func
            if isinstance(f, ast.Call) and isinstance(f.func, ast.Name) and f.func.id == "type":
                return None
            if isinstance(f, ast.Name) and f.id in prog.classes and "IoContract" in f.id:
                return None
            if isinstance(f, ast.Attribute) and f.attr in names_ok:
                return None
            return "call of %s" % norm(f)
        if isinstance(e, ast.Name):
            if e.id in seen:
                return None
            seen.add(e.id)
            defs = []
            for node in ast.walk(fi.node):
                if isinstance(node, ast.Assign):
                    for t in node.targets:
                        if isinstance(t, ast.Name) and t.id == e.id:
                            defs.append(node.value)
                        if isinstance(t, ast.Tuple) and t.elts and isinstance(t.elts[0], ast.Name) and t.elts[0].id == e.id:
                            defs.append(node.value)
            if not defs:
                return "name %s is not bound to a constructed contract" % e.id
            for d in defs:
                r = producer(d, fi, seen)
                if r:
                    return r
            return None
        return "expression %s" % norm(e)[:50]

    def value_ok(v) -> Optional[bool]:
        """a simulated return value: True = a contract out of the constructor / another contract-returning method,
        False = an operand (or a piece of one) handed back, None = not recognised"""
        if not isinstance(v, tuple) or not v:
            return None
        if v[0] == "tuple" and v[1]:
            return value_ok(v[1][0])
        if v[0] == "item" and v[2] == 0:
            return value_ok(v[1])
        if v[0] == "new" and "IoContract" in str(v[1]):
            return True
        if v[0] == "call" and (str(v[1]).startswith("type(") or str(v[1]) == "?"):
            return None
        if v[0] == "mcall" and v[1] in names_ok:
            return True
        if v[0] == "call" and str(v[1]).split(".")[-1] in names_ok:
            return True
        if v[0] == "param" or (v[0] == "attr" and isinstance(v[1], tuple) and v[1] and v[1][0] == "param"):
            return False
        return None

    def by_paths(fi) -> Optional[str]:
        """'' when every returning path hands back a validated contract, a reason when one hands back an operand,
        None when the simulated values are not all recognised (then the syntax is read)"""
        from .pathsim import Sim as _Sim
        from .pathsim import show as _show

        try:
            ps = [p for p in _Sim(prog, fi, loop_iters=(0, 1, 2)).paths() if p.terminal == "return"]
        except AnalysisError:
            return None
        if not ps:
            return None
        verdicts = [value_ok(p.value) for p in ps]
        for p, vd in zip(ps, verdicts):
            if vd is False:
                return "a path returns %s, an operand, not a contract out of the constructor (path %s)" % (_show(p.value, 3), p.label()[:60])
        return "" if all(vd is True for vd in verdicts) else None

    for fi in targets:
        rets = [node for node in ast.walk(fi.node) if isinstance(node, ast.Return) and node.value is not None]
        sem = None
        if any(producer(node.value, fi, set()) is not None for node in rets):
            sem = by_paths(fi)  # the syntax is not one of the known shapes: ask the simulated paths
        for node in rets:
            n += 1
            construct = "%s returns a contract built by the validating constructor" % fi.key
            r = producer(node.value, fi, set())
            if r is None or sem == "":
                ctx.ok(rule, fi.key, construct)
            elif sem:
                ctx.violation(rule, fi.key, construct, sem + ": the constructor's checks are bypassed", where="%s:%d" % (fi.module.relpath, node.lineno))
            else:
                ctx.violation(rule, fi.key, construct, "returns %s (%s): the constructor's checks are bypassed" % (norm(node.value)[:60], r), where="%s:%d" % (fi.module.relpath, node.lineno))
    ctx.floor("contract-returning return statements", n, 12)
    # the validated fields are written only by the constructor (and the documented in-place simplify)
    fields = {"a", "g", "inputvars", "outputvars"}
    contract_classes = {"IoContract", "PolyhedralIoContract", "IoContractCompound", "PolyhedralIoContractCompound"}
    for fi in prog.all_functions():
        if isinstance(fi.node, ast.Lambda):
            continue
        for node in ast.walk(fi.node):
            tgts = []
            if isinstance(node, ast.Assign):
                tgts = node.targets
            elif isinstance(node, (ast.AugAssign, ast.AnnAssign)):
                tgts = [node.target]
            flat = []
            for t in tgts:
                flat += list(t.elts) if isinstance(t, (ast.Tuple, ast.List)) else [t]
            for t in flat:
                if isinstance(t, ast.Attribute) and t.attr in fields:
                    in_ctor = fi.cls is not None and fi.cls.name in contract_classes and fi.name == "__init__" and isinstance(t.value, ast.Name) and t.value.id == fi.params[0]
                    in_simplify = fi.key == "IoContract.simplify" and t.attr == "g"
                    other_class = fi.cls is not None and fi.cls.name not in contract_classes and isinstance(t.value, ast.Name) and t.value.id == fi.params[0]
                    if in_ctor or in_simplify or other_class:
                        continue
                    ctx.violation(
                        rule,
                        fi.key,
                        "%s writes contract field .%s outside the constructor" % (fi.key, t.attr),
                        "`%s` sets a validated field directly: the resulting contract never passed the constructor's well-formedness checks" % norm(node)[:80],
                        where="%s:%d" % (fi.module.relpath, node.lineno),
                    )
