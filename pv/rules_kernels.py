"""Algebraic laws of the term kernels (PolyhedralTerm and the parser's data classes), checked on generic
symbolic terms with pv.termalg."""
from __future__ import annotations

from typing import Dict, List, Optional

from .loader import AnalysisError, Program
from .ratnf import Rat
from .report import Ctx
from .termalg import NONE, DictV, Key, LinV, ListV, Raised, Rec, TermAlg, TupV, Undecidable, coefs, num, sym

PT = "PolyhedralTerm"


def _eq(a, b) -> bool:
    if not isinstance(a, Rat) or not isinstance(b, Rat):
        return False
    return a.equals(b)


def _cmp_term(got: Rec, want_coefs: Dict[str, Rat], want_const: Rat) -> Optional[str]:
    if not isinstance(got, Rec) or "variables" not in got.f:
        return "result is not a term"
    g = coefs(got)
    for n_, v_ in g.items():
        if isinstance(v_, Rat) and v_.is_zero():
            return "the result stores a zero coefficient for %s (the variable is still listed in .vars although it does not occur)" % n_
    names = set(g) | set(want_coefs)
    for n in sorted(names):
        a = g.get(n, num(0))
        b = want_coefs.get(n, num(0))
        if not _eq(a, b):
            return "coefficient of %s is %s, expected %s" % (n, a.show(), b.show())
    if not _eq(got.f["constant"], want_const):
        return "constant is %s, expected %s" % (got.f["constant"].show(), want_const.show())
    return None


def _run(ctx: Ctx, rule: str, fkey: str, construct: str, thunk) -> None:
    fi = ctx.prog.funcs.get(fkey)
    if fi is None:
        fi = next((lf for lf in ctx.prog.lambdas if lf.key == fkey), None)
    if fi is None:
        fi = ctx.prog.func(fkey)
    try:
        problem = thunk()
    except Undecidable as e:
        ctx.cannot_decide(rule, fkey, construct, str(e))
        return
    except Raised as r:
        problem = "raises %s on a generic term" % r.cls
    except AnalysisError as e:
        ctx.cannot_decide(rule, fkey, construct, str(e))
        return
    if problem is None:
        ctx.ok(rule, fkey, construct)
    else:
        ctx.violation(rule, fkey, construct, problem, where=fi.where)


def rule_term_kernels(ctx: Ctx, which: Optional[List[str]] = None, rule: str = "kernel-law") -> None:
    prog = ctx.prog
    x, y, z, w = Key("x"), Key("y"), Key("z"), Key("w")
    want = set(which) if which else None

    def on(name: str) -> bool:
        return want is None or name in want

    def T(prefix, keys):
        return TermAlg(prog).term(keys, prefix)

    if on("multiply"):
        def k_multiply():
            ta = TermAlg(prog)
            t = ta.term([x, y], "a")
            r = ta.method(t, "multiply", [sym("f")])
            return _cmp_term(r, {"x": sym("f") * sym("a_x"), "y": sym("f") * sym("a_y")}, sym("f") * sym("a_c"))

        _run(ctx, rule, PT + ".multiply", "multiply(f): every coefficient and the constant are scaled by f", k_multiply)

    if on("add"):
        def k_add():
            ta = TermAlg(prog)
            t = ta.term([x, y], "a")
            u = ta.term([y, z], "b")
            r = ta.method(t, "__add__", [u])
            return _cmp_term(r, {"x": sym("a_x"), "y": sym("a_y") + sym("b_y"), "z": sym("b_z")}, sym("a_c") + sym("b_c"))

        _run(ctx, rule, PT + ".__add__", "__add__: coefficients add over the union of variables, constants add", k_add)

    if on("remove"):
        def k_remove():
            ta = TermAlg(prog)
            t = ta.term([x, y], "a")
            r = ta.method(t, "remove_variable", [x])
            p = _cmp_term(r, {"y": sym("a_y")}, sym("a_c"))
            if p:
                return p
            if r is t or r.f["variables"] is t.f["variables"]:
                return "the result shares state with the operand"
            r2 = ta.method(t, "remove_variable", [z])
            return _cmp_term(r2, {"x": sym("a_x"), "y": sym("a_y")}, sym("a_c"))

        _run(ctx, rule, PT + ".remove_variable", "remove_variable(v): drops v only, on a fresh object", k_remove)

    if on("copy"):
        def k_copy():
            ta = TermAlg(prog)
            t = ta.term([x, y], "a")
            r = ta.method(t, "copy", [])
            p = _cmp_term(r, {"x": sym("a_x"), "y": sym("a_y")}, sym("a_c"))
            if p:
                return p
            if r is t or r.f["variables"] is t.f["variables"]:
                return "copy shares the coefficient dictionary with the original"
            return None

        _run(ctx, rule, PT + ".copy", "copy(): equal content, fresh dictionary", k_copy)

    if on("substitute"):
        def k_subst():
            # documented reading (docstring example): substituting v by the term 'V <= k' means v = V - k
            ta = TermAlg(prog)
            t = ta.term([x, y], "a")
            s = ta.term([y, z], "s")
            r = ta.method(t, "substitute_variable", [x, s])
            return _cmp_term(
                r,
                {"y": sym("a_y") + sym("a_x") * sym("s_y"), "z": sym("a_x") * sym("s_z")},
                sym("a_c") + sym("a_x") * sym("s_c"),
            )

        _run(ctx, rule, PT + ".substitute_variable", "substitute_variable(v, 'V <= k'): v := V - k (docstring example)", k_subst)

    if on("isolate"):
        def k_isolate_roundtrip():
            # law: substituting a variable by its own isolation in the same equation leaves the trivial identity 0 <= 0
            ta = TermAlg(prog)
            t = ta.term([x, y, z], "a")
            iso = ta.method(t, "isolate_variable", [x])
            r = ta.method(t, "substitute_variable", [x, iso])
            return _cmp_term(r, {}, num(0))

        _run(
            ctx,
            rule,
            PT + ".isolate_variable",
            "isolate_variable agrees with substitute_variable: T.substitute(x, T.isolate(x)) is the identity 0 <= 0",
            k_isolate_roundtrip,
        )

        def k_isolate_combination():
            # law behind tactic 4: T.substitute(x, C.isolate(x)) = T - (a_x/b_x) * C
            ta = TermAlg(prog)
            t = ta.term([x, y], "a")
            c = ta.term([x, z], "b")
            iso = ta.method(c, "isolate_variable", [x])
            r = ta.method(t, "substitute_variable", [x, iso])
            lam = sym("a_x") / sym("b_x")
            return _cmp_term(r, {"y": sym("a_y"), "z": -lam * sym("b_z")}, sym("a_c") - lam * sym("b_c"))

        _run(
            ctx,
            rule,
            PT + ".isolate_variable",
            "isolate/substitute across two rows: T.substitute(x, C.isolate(x)) = T - (a_x/b_x) C",
            k_isolate_combination,
        )

    if on("accessors"):
        def k_accessors():
            ta = TermAlg(prog)
            t = ta.term([x, y], "a")
            if not _eq(ta.method(t, "get_coefficient", [x]), sym("a_x")):
                return "get_coefficient of a present variable is not its coefficient"
            r0 = ta.method(t, "get_coefficient", [z])
            if not (isinstance(r0, Rat) and r0.is_zero()):
                return "get_coefficient of an absent variable is not 0"
            if ta.method(t, "contains_var", [x]) is not True or ta.method(t, "contains_var", [z]) is not False:
                return "contains_var is wrong for a present / an absent variable"
            vs = ta.call(prog.func(PT + ".vars"), [], {}, self_val=t)
            if [k.name for k in vs.items] != ["x", "y"]:
                return ".vars is not the list of variables with a coefficient"
            c = Rec("PolyhedralTerm", {"variables": DictV({x: num(2), y: num(-3)}), "constant": num(1)})
            got = (ta.method(c, "get_sign", [x]), ta.method(c, "get_sign", [y]))
            if not (_eq(got[0], num(1)) and _eq(got[1], num(-1))):
                return "get_sign of coefficients 2, -3 is %s" % [g.show() if isinstance(g, Rat) else g for g in got]
            pol = (ta.method(c, "get_polarity", [x, True]), ta.method(c, "get_polarity", [y, True]), ta.method(c, "get_polarity", [y, False]), ta.method(c, "get_polarity", [x, False]))
            if pol != (True, False, True, False):
                return "get_polarity(2,+), (-3,+), (-3,-), (2,-) gives %s" % (pol,)
            return None

        _run(ctx, rule, PT + ".get_coefficient", "accessors: get_coefficient / contains_var / vars / get_sign / get_polarity follow the stored coefficients", k_accessors)

    if on("symbolic"):
        def k_sym_roundtrip():
            ta = TermAlg(prog)
            t = ta.term([x, y], "a")
            fi_s = prog.func(PT + ".to_symbolic")
            fi_t = prog.func(PT + ".to_term")
            e = ta.call(fi_s, [t], {})
            if not isinstance(e, LinV):
                return "to_symbolic does not build a linear expression"
            # documented reading: the expression of  sum a v <= c  is  sum a v - c
            if not (_eq(e.coefs.get(x, num(0)), sym("a_x")) and _eq(e.coefs.get(y, num(0)), sym("a_y")) and _eq(e.const, -sym("a_c"))):
                return "to_symbolic(sum a v <= c) is not  sum a v - c"
            r = ta.call(fi_t, [e], {})
            return _cmp_term(r, {"x": sym("a_x"), "y": sym("a_y")}, sym("a_c"))

        _run(ctx, rule, PT + ".to_term", "to_symbolic / to_term are inverse (term <-> 'sum a v - c')", k_sym_roundtrip)

        def k_solution_operand():
            # a solution  x = p*y + q  turned into a term by to_term must substitute x correctly
            ta = TermAlg(prog)
            fi_t = prog.func(PT + ".to_term")
            e = LinV({y: sym("p")}, sym("q"))
            operand = ta.call(fi_t, [e], {})
            t = ta.term([x, z], "a")
            r = ta.method(t, "substitute_variable", [x, operand])
            return _cmp_term(r, {"y": sym("a_x") * sym("p"), "z": sym("a_z")}, sym("a_c") - sym("a_x") * sym("q"))

        _run(ctx, rule, PT + ".to_term", "to_term(E) as substitution operand means x = E (solutions of the elimination system)", k_solution_operand)

    if on("rename"):
        def k_rename():
            ta = TermAlg(prog)
            t = ta.term([x, y], "a")
            r = ta.method(t, "rename_variable", [x, z])  # fresh target
            p = _cmp_term(r, {"z": sym("a_x"), "y": sym("a_y")}, sym("a_c"))
            if p:
                return "fresh target: " + p
            r = ta.method(t, "rename_variable", [x, y])  # target already occurs: coefficients add
            p = _cmp_term(r, {"y": sym("a_y") + sym("a_x")}, sym("a_c"))
            if p:
                return "target already present: " + p
            # cancelling coefficients: the merged variable disappears altogether
            tc = Rec("PolyhedralTerm", {"variables": DictV({x: sym("a_x"), y: -sym("a_x"), z: sym("a_z")}), "constant": sym("a_c")})
            r = ta.method(tc, "rename_variable", [x, y])
            p = _cmp_term(r, {"z": sym("a_z")}, sym("a_c"))
            if p:
                return "target present with the opposite coefficient: " + p
            r = ta.method(t, "rename_variable", [z, w])  # absent source
            p = _cmp_term(r, {"x": sym("a_x"), "y": sym("a_y")}, sym("a_c"))
            if p:
                return "absent source: " + p
            r = ta.method(t, "rename_variable", [x, x])  # a variable renamed to itself: nothing changes
            p = _cmp_term(r, {"x": sym("a_x"), "y": sym("a_y")}, sym("a_c"))
            if p:
                return "source equal to target (x renamed to x must be the identity): " + p
            if coefs(t).keys() != {"x", "y"}:
                return "the operand was modified"
            return None

        _run(ctx, rule, PT + ".rename_variable", "rename_variable: coefficient moves (adds when the target occurs), source removed, operand untouched", k_rename)

    if on("evaluate"):
        def k_evaluate():
            ta = TermAlg(prog)
            t = ta.term([x, y], "a")
            tl = Rec("PolyhedralTermList", {"terms": ListV([t])})
            vals = DictV({x: sym("vx")})
            r = ta.method(tl, "evaluate", [vals])
            if not isinstance(r, Rec) or len(r.f["terms"].items) != 1:
                return "a partially substituted term is not kept"
            return _cmp_term(r.f["terms"].items[0], {"y": sym("a_y")}, sym("a_c") - sym("a_x") * sym("vx"))

        _run(ctx, rule, "PolyhedralTermList.evaluate", "evaluate: substituting x := val leaves  rest <= c - a_x*val", k_evaluate)

        def k_evaluate_full():
            # fully substituted: residual constant r = c - sum a_k val_k; violated iff r < 0 (strictly)
            out = {}
            for label, cval in (("negative", -1), ("zero", 0), ("positive", 1)):
                ta = TermAlg(prog)
                # a term  1*x <= c  with x := 0  has residual exactly c
                t = Rec("PolyhedralTerm", {"variables": DictV({x: num(1)}), "constant": num(cval)})
                tl = Rec("PolyhedralTermList", {"terms": ListV([t])})
                try:
                    r = ta.method(tl, "evaluate", [DictV({x: num(0)})])
                    out[label] = "kept" if (isinstance(r, Rec) and "terms" in r.f and r.f["terms"].items) else "dropped"
                except Raised as e:
                    out[label] = "raise " + e.cls
            want = {"negative": "raise ValueError", "zero": "dropped", "positive": "dropped"}
            if out != want:
                return "residual constant negative/zero/positive gives %s, expected %s" % (out, want)
            return None

        _run(ctx, rule, "PolyhedralTermList.evaluate", "evaluate: a fully assigned term is violated iff its residual constant is strictly negative (boundary satisfied)", k_evaluate_full)

        def k_evaluate_all_terms():
            # the verdict on one term never ends the work on the others: a satisfied (dropped) term in any position is
            # followed by the substitution of the rest, and a violated term in any position raises
            out = {}
            for label, consts in (("sat-then-partial", (1, None)), ("partial-then-sat", (None, 1)), ("sat-then-violated", (1, -1)), ("sat-sat-partial", (0, 1, None))):
                ta = TermAlg(prog)
                terms = []
                for i_, cv in enumerate(consts):
                    if cv is None:
                        terms.append(ta.term([x, y], "a"))
                    else:
                        terms.append(Rec("PolyhedralTerm", {"variables": DictV({x: num(1)}), "constant": num(cv)}))
                tl = Rec("PolyhedralTermList", {"terms": ListV(terms)})
                try:
                    r = ta.method(tl, "evaluate", [DictV({x: num(0)})])
                    out[label] = "%d kept" % len(r.f["terms"].items) if isinstance(r, Rec) else "?"
                except Raised as e:
                    out[label] = "raise " + e.cls
            want = {"sat-then-partial": "1 kept", "partial-then-sat": "1 kept", "sat-then-violated": "raise ValueError", "sat-sat-partial": "1 kept"}
            if out != want:
                return "lists mixing satisfied, violated and partially assigned terms give %s, expected %s" % (out, want)
            return None

        _run(ctx, rule, "PolyhedralTermList.evaluate", "evaluate: every term is dealt with, whatever the verdict on the terms before it", k_evaluate_all_terms)


# ---------------------------------------------------------------------------
# Tactic 4 (substitution along a chain of context rows): Farkas certificate under sign assumptions
# ---------------------------------------------------------------------------
def _chain_scenario(prog: Program, depth: int, signs: Dict[str, int]):
    """term  t*x0 <= c ; rows  a_k*x_k + b_k*x_{k+1} <= c_k  (k < depth) ; last row  g*x_depth + e*i <= c_g.
    Every coefficient is a symbol whose sign is fixed by `signs`."""
    ta = TermAlg(prog)
    ta.signs = {("sym", k): v for k, v in signs.items()}
    xs = [Key("x%d" % k) for k in range(depth + 1)]
    i = Key("i")
    T = Rec(PT, {"variables": DictV({xs[0]: sym("t")}), "constant": sym("c")})
    rows = []
    for k in range(depth):
        rows.append(Rec(PT, {"variables": DictV({xs[k]: sym("a%d" % k), xs[k + 1]: sym("b%d" % k)}), "constant": sym("c%d" % k)}))
    rows.append(Rec(PT, {"variables": DictV({xs[depth]: sym("g"), i: sym("e")}), "constant": sym("cg")}))
    return ta, T, rows, xs, i


def _describe(depth: int, signs: Dict[str, int]) -> str:
    sg = lambda n: "%s%s" % (n, ">0" if signs[n] > 0 else "<0")  # noqa: E731
    rows = ["%s*x%d + %s*x%d <= c%d" % (sg("a%d" % k), k, sg("b%d" % k), k + 1, k) for k in range(depth)]
    rows.append("%s*x%d + %s*i <= cg" % (sg("g"), depth, sg("e")))
    return "term %s*x0 <= c, context {%s}, eliminating x0..x%d" % (sg("t"), "; ".join(rows), depth)


def rule_tactic4_certificate(ctx: Ctx, rule: str = "tactic4-certificate", max_depth: int = 2) -> None:
    """C01/C02/C04: whatever _tactic_4 returns when refining must be implied-from-above: the input term is a
    non-negative combination of the returned term and the context rows it used (Farkas).  Decided on chains of
    context rows with symbolic coefficients, for every assignment of signs to the coefficients: the multipliers are
    monomials in the coefficients, so their signs are determined."""
    from itertools import product

    prog = ctx.prog
    key = "PolyhedralTermList._tactic_4"
    fi = prog.func(key)
    if ctx.tier == "thorough":
        max_depth = max(max_depth, 4)  # 2 + 8 + 32 + 128 + 512 ... sign patterns: 2**(2*depth+3) runs at each depth
    n_ret = 0
    n_runs = 0
    for depth in range(0, max_depth + 1):
        names = ["t"] + [s_ for k in range(depth) for s_ in ("a%d" % k, "b%d" % k)] + ["g", "e"]
        bad: List[str] = []
        undec: List[str] = []
        returned = 0
        for combo in product([1, -1], repeat=len(names)):
            signs = dict(zip(names, combo))
            ta, T, rows, xs, i = _chain_scenario(prog, depth, signs)
            n_runs += 1
            try:
                context = ta.construct("PolyhedralTermList", [ListV(list(rows))], {})
                res = ta.call(fi, [T, context, ListV(list(xs)), True, ListV([])])
            except Raised as r:
                if r.cls != "ValueError":
                    bad.append("%s: raises %s" % (_describe(depth, signs), r.cls))
                continue
            except (Undecidable, AnalysisError) as ex:
                undec.append("%s: %s" % (_describe(depth, signs), ex))
                continue
            R = res.items[0] if isinstance(res, TupV) and res.items else res
            if not isinstance(R, Rec):
                continue  # the tactic declined
            returned += 1
            rc = coefs(R)
            left = [v for v in rc if v != "i"]
            if left:
                bad.append("%s: the returned term still mentions %s" % (_describe(depth, signs), sorted(left)))
                continue
            if "i" not in rc:
                undec.append("%s: the returned term has no variable left" % _describe(depth, signs))
                continue
            # multipliers: x0: t = l0*a0 ; x_{k+1}: 0 = l_k*b_k + l_{k+1}*a_{k+1} ; i: 0 = mu*r_i + l_last*e
            lam = []
            cur = sym("t")
            for k in range(depth):
                lk = cur / sym("a%d" % k)
                lam.append(lk)
                cur = num(0) - lk * sym("b%d" % k)
            ll = cur / sym("g")
            lam.append(ll)
            mu = (num(0) - ll * sym("e")) / rc["i"]
            # T = mu*R + sum lam_k*row_k  on the variable i:  0 = mu*r_i + ll*e   (definition of mu)
            from .ratnf import sign_under

            sg = [sign_under(l_, ta.signs) for l_ in lam] + [sign_under(mu, ta.signs)]
            if any(s_ is None for s_ in sg):
                undec.append("%s: multiplier sign not determined" % _describe(depth, signs))
                continue
            resid = sym("c") - (mu * R.f["constant"] + sum((l_ * r_.f["constant"] for l_, r_ in zip(lam, rows)), num(0)))
            if any(s_ < 0 for s_ in sg[:-1]) or sg[-1] <= 0:
                which = [("row %d" % k) for k, s_ in enumerate(sg[:-1]) if s_ < 0] + (["the returned term"] if sg[-1] <= 0 else [])
                bad.append(
                    "%s: returns %s, which with the context does not imply the term (the combination that yields the term needs a negative multiple of %s: the row bounds the substituted variable from the wrong side)"
                    % (_describe(depth, signs), _show_term(R), ", ".join(which))
                )
                continue
            if not resid.is_zero():
                rs = sign_under(resid, ta.signs)
                if rs is None or rs < 0:
                    undec.append("%s: constant of the returned term %s not matched" % (_describe(depth, signs), R.f["constant"].show()))
                    continue
        n_ret += returned
        construct = "_tactic_4 (refine): the returned term and the %d context row(s) used imply the input term, for every sign pattern" % (depth + 1)
        if bad:
            ctx.violation(rule, key, construct, "%d of %d returning sign patterns are unsound; first: %s" % (len(bad), returned, bad[0]), where=fi.where)
        elif undec:
            ctx.cannot_decide(rule, key, construct, undec[0])
        else:
            ctx.ok(rule, key, construct + " (%d returning patterns of %d)" % (returned, 2 ** len(names)))
    ctx.floor("tactic-4 returning sign patterns", n_ret, 10)


def _show_term(t: Rec) -> str:
    c = coefs(t)
    return " + ".join("(%s)*%s" % (v.show(), k) for k, v in sorted(c.items())) + " <= " + t.f["constant"].show()


# ---------------------------------------------------------------------------
# Context reduction (tactics 1 and 5): rows handed over by the selection are used as equalities
# ---------------------------------------------------------------------------
def _solve_rows_stub(ta: TermAlg, pos, kw):
    """Spec of PolyhedralTerm.solve_for_variables (its docstring): read every row as an equality and solve for the
    given variables; a solution v = sum b_u*u + d is returned as the term  sum b_u*u <= -d."""
    tl, vs = pos[0], pos[1]
    rows = tl.f["terms"].items
    want = [v for v in vs.items if any(v in r.f["variables"].d for r in rows)]
    if len(rows) != len(want):
        raise Raised("ValueError")
    others: List[Key] = []
    for r in rows:
        for k in r.f["variables"].d:
            if k not in want and k not in others:
                others.append(k)
    m = ListV([ListV([r.f["variables"].d.get(v, num(0)) for v in want]) for r in rows])
    out = DictV()
    cols = []
    try:
        for u in others + [None]:
            rhs = ListV([(num(0) - r.f["variables"].d.get(u, num(0))) if u is not None else r.f["constant"] for r in rows])
            cols.append(ta.linsolve(m, rhs))
    except Raised:
        return _solve_singular(ta, rows, want, others)
    for i, v in enumerate(want):
        coefs_ = {u: cols[j].items[i] for j, u in enumerate(others) if not cols[j].items[i].is_zero()}
        d = cols[-1].items[i]
        out.d[v] = Rec(PT, {"variables": DictV(coefs_), "constant": num(0) - d})
    return out


def _solve_singular(ta: TermAlg, rows, want, others):
    """sympy.solve on a linear system whose matrix is singular: no solution -> nothing ({}); dependent equations ->
    the leading variables in terms of the free ones (which stay in the solutions)."""
    cols = list(want) + list(others) + [None]
    a = []
    for r in rows:
        line = [r.f["variables"].d.get(v, num(0)) for v in want]
        line += [r.f["variables"].d.get(u, num(0)) for u in others]
        line.append(num(0) - r.f["constant"])  # sum a_v v + sum b_u u - c = 0
        a.append(line)
    piv = []
    r0 = 0
    for c in range(len(want)):
        pr = next((r for r in range(r0, len(a)) if not a[r][c].is_zero()), None)
        if pr is None:
            continue
        a[r0], a[pr] = a[pr], a[r0]
        d = a[r0][c]
        a[r0] = [x / d for x in a[r0]]
        for r in range(len(a)):
            if r != r0 and not a[r][c].is_zero():
                f_ = a[r][c]
                a[r] = [x - f_ * y for x, y in zip(a[r], a[r0])]
        piv.append((r0, c))
        r0 += 1
    for r in range(r0, len(a)):
        if any(not x.is_zero() for x in a[r]):
            return DictV()  # 0 = something that is not identically zero: no solution
    out = DictV()
    for r, c in piv:
        # v_c = -(sum of the other columns) ; returned as the term  sum k*w <= -d  standing for  v_c = sum k*w + d
        coefs_ = {}
        for j, w in enumerate(cols[:-1]):
            if j != c and not a[r][j].is_zero():
                coefs_[w] = num(0) - a[r][j]
        d = num(0) - a[r][-1]
        out.d[want[c]] = Rec(PT, {"variables": DictV(coefs_), "constant": num(0) - d})
    return out


def _reduction_singular(prog: Program, refine: bool):
    """_context_reduction (strategy 5) on a selection of rows that says one bound twice (the second row is the first one
    scaled): the square system for the multipliers is singular.  Either the call declines, or what it returns is the
    term minus a multiple of the bound with the right sign.  Returns (cases, bad, undecided)."""
    fi = prog.func("PolyhedralTermList._context_reduction")
    x, y1, y2, u = Key("x"), Key("y1"), Key("y2"), Key("u")
    bad: List[str] = []
    undec: List[str] = []
    cases = 0
    for label, tcoef in (("term not in the span of the bound", {y1: -1, y2: 3, x: 1}), ("term in the span of the bound", {y1: 1, y2: 1, x: 1}), ("term against the bound", {y1: -2, y2: -2, x: 1})):
        for scale in (2, 1):
            cases += 1
            ta = TermAlg(prog)
            T = Rec(PT, {"variables": DictV({k: num(v) for k, v in tcoef.items()}), "constant": num(0)})
            r1 = Rec(PT, {"variables": DictV({y1: num(1), y2: num(1), u: num(-1)}), "constant": num(1)})
            r2 = Rec(PT, {"variables": DictV({y1: num(scale), y2: num(scale), u: num(-scale)}), "constant": num(scale)})
            rows = [r1, r2]
            forb = [y1, y2]
            present = [y1, y2, u, x]
            ta.stubs["PolyhedralTermList.termlist_to_polytope"] = lambda ta_, pos, kw, present=present: TupV([ListV(list(present)), ("opaque", "B"), ("opaque", "b"), ("opaque", "Bc"), ("opaque", "bc")])
            ta.stubs["PolyhedralTerm.solve_for_variables"] = _solve_rows_stub
            ta.ext_stubs["scipy.optimize.linprog"] = lambda ta_, pos, kw: DictV({("str", "status"): num(0), ("str", "slack"): ("opaque", "slack"), ("str", "fun"): ("opaque", "fun")})
            ta.ext_stubs["numpy.isclose"] = lambda ta_, pos, kw: ("opaque", "mask")
            ta.ext_stubs["numpy.where"] = lambda ta_, pos, kw: TupV([ListV([num(0), num(1)])])
            ta.ext_stubs["numpy.nonzero"] = ta.ext_stubs["numpy.where"]
            ta.ext_stubs["numpy.flatnonzero"] = lambda ta_, pos, kw: ListV([num(0), num(1)])
            ta.ext_stubs["numpy.abs"] = lambda ta_, pos, kw: pos[0] if pos and isinstance(pos[0], tuple) and pos[0][:1] == ("opaque",) else (_ for _ in ()).throw(AnalysisError("numpy.abs of a symbolic value"))
            desc = "%s: term %s, rows %s, refine=%s" % (label, _show_term(T), [_show_term(r) for r in rows], refine)
            try:
                context = ta.construct("PolyhedralTermList", [ListV(list(rows))], {})
                res = ta.call(fi, [T, context, ListV(list(forb)), refine, num(5)])
            except Raised as r:
                if r.cls not in ("ValueError", "LinAlgError"):
                    bad.append("%s: raises %s" % (desc, r.cls))
                continue
            except Undecidable:
                continue
            except AnalysisError as ex:
                undec.append("%s: %s" % (desc, ex))
                continue
            if not isinstance(res, Rec):
                continue
            rc = coefs(res)
            if any(v.name in rc for v in forb):
                bad.append("%s: the returned term %s still mentions a forbidden variable (the multipliers computed for a singular selection solve nothing)" % (desc, _show_term(res)))
                continue
            # T - R must be lam * r1 on every variable and on the constant, lam of the right sign
            diff = {k.name: T.f["variables"].d.get(k, num(0)) - rc.get(k.name, num(0)) for k in (x, y1, y2, u)}
            lam = diff["y1"]  # r1 has coefficient 1 on y1
            okc = all((diff[k.name] - lam * r1.f["variables"].d.get(k, num(0))).is_zero() for k in (x, y1, y2, u)) and ((T.f["constant"] - res.f["constant"]) - lam * r1.f["constant"]).is_zero()
            sg = lam.sign_const()
            if not okc or sg is None:
                bad.append("%s: the returned term %s is not the term minus a multiple of the bound" % (desc, _show_term(res)))
            elif (sg < 0) if refine else (sg > 0):
                bad.append("%s: returns %s, obtained with a %s multiple of the bound" % (desc, _show_term(res), "negative" if refine else "positive"))
    return cases, bad, undec


def _reduction_patterns(prog: Program, strategy: int, nvars: int, refine: bool, concrete: bool = False):
    """Interpret _context_reduction on rows with symbolic coefficients under every sign pattern.
    strategy 5: _get_tlp_context is interpreted, the LP replaced by 'status 0, every context row active';
    strategy 1: the Kaykobad selection is replaced by an arbitrary one (every row is handed over).
    Returns (returned, bad, undecided, patterns)."""
    from itertools import product

    from .ratnf import sign_under

    from .termalg import sym as _sym

    fi = prog.func("PolyhedralTermList._context_reduction")
    x, y, i = Key("x"), Key("y"), Key("i")
    names = ["t1", "a1", "e1"] + (["s"] if nvars == 1 else ["t2", "a2", "e2"] + (["b1"] if nvars == 3 else []))
    bad: List[str] = []
    undec: List[str] = []
    returned = 0
    if concrete:
        # small integers instead of symbols: magnitudes matter when a row couples two forbidden variables
        grid = {"t1": [1, -1, 4], "t2": [1, -1, 4], "a1": [1, -2], "a2": [1, -2], "b1": [3, -3, 1], "e1": [1], "e2": [1], "s": [1]}
        combos = list(product(*[grid[n_] for n_ in names]))
    else:
        combos = list(product([1, -1], repeat=len(names)))
    for combo in combos:
        signs = dict(zip(names, combo))
        ta = TermAlg(prog)
        ta.signs = {("sym", k): v for k, v in signs.items()}
        if concrete:
            sym = lambda n_, signs=signs: num(signs[n_]) if n_ in signs else _sym(n_)  # noqa: E731
        else:
            sym = _sym
        if nvars == 1:
            T = Rec(PT, {"variables": DictV({x: sym("t1"), i: sym("s")}), "constant": sym("c")})
            rows = [Rec(PT, {"variables": DictV({x: sym("a1"), i: sym("e1")}), "constant": sym("c1")})]
            forb = [x]
        elif nvars == 2:
            T = Rec(PT, {"variables": DictV({x: sym("t1"), y: sym("t2")}), "constant": sym("c")})
            rows = [
                Rec(PT, {"variables": DictV({x: sym("a1"), i: sym("e1")}), "constant": sym("c1")}),
                Rec(PT, {"variables": DictV({y: sym("a2"), i: sym("e2")}), "constant": sym("c2")}),
            ]
            forb = [x, y]
        else:
            # triangular: the second row couples both forbidden variables (rows and variables are not interchangeable)
            T = Rec(PT, {"variables": DictV({x: sym("t1"), y: sym("t2")}), "constant": sym("c")})
            rows = [
                Rec(PT, {"variables": DictV({x: sym("a1"), i: sym("e1")}), "constant": sym("c1")}),
                Rec(PT, {"variables": DictV({x: sym("b1"), y: sym("a2"), i: sym("e2")}), "constant": sym("c2")}),
            ]
            forb = [x, y]
        present = [k for k in (x, y, i) if any(k in r.f["variables"].d for r in rows) or k in T.f["variables"].d]
        ta.stubs["PolyhedralTermList.termlist_to_polytope"] = lambda ta_, pos, kw, present=present: TupV([ListV(list(present)), ("opaque", "B"), ("opaque", "b"), ("opaque", "Bc"), ("opaque", "bc")])
        ta.stubs["PolyhedralTerm.solve_for_variables"] = _solve_rows_stub
        ta.ext_stubs["scipy.optimize.linprog"] = lambda ta_, pos, kw: DictV({("str", "status"): num(0), ("str", "slack"): ("opaque", "slack"), ("str", "fun"): ("opaque", "fun")})
        ta.ext_stubs["numpy.isclose"] = lambda ta_, pos, kw: ("opaque", "mask")
        ta.ext_stubs["numpy.where"] = lambda ta_, pos, kw, nrows=len(rows): TupV([ListV([num(k) for k in range(nrows)])])
        ta.ext_stubs["numpy.nonzero"] = ta.ext_stubs["numpy.where"]
        ta.ext_stubs["numpy.flatnonzero"] = lambda ta_, pos, kw, nrows=len(rows): ListV([num(k) for k in range(nrows)])
        ta.ext_stubs["numpy.isclose"] = lambda ta_, pos, kw: ("opaque", "mask")
        ta.ext_stubs["numpy.abs"] = lambda ta_, pos, kw: pos[0] if pos and isinstance(pos[0], tuple) and pos[0][:1] == ("opaque",) else (_ for _ in ()).throw(AnalysisError("numpy.abs of a symbolic value"))
        if strategy == 1:
            ta.stubs["PolyhedralTermList._get_kaykobad_context"] = lambda ta_, pos, kw, rows=rows, forb=forb: TupV([ListV(list(rows)), ListV(list(forb))])
        desc = "term %s, rows %s, %s, refine=%s" % (_show_term(T), [_show_term(r) for r in rows], "numbers as shown" if concrete else "signs %s" % {k: ("+" if v > 0 else "-") for k, v in signs.items()}, refine)
        try:
            context = ta.construct("PolyhedralTermList", [ListV(list(rows))], {})
            res = ta.call(fi, [T, context, ListV(list(forb)), refine, num(strategy)])
        except Raised as r:
            if r.cls not in ("ValueError", "LinAlgError"):
                bad.append("%s: raises %s" % (desc, r.cls))
            continue
        except Undecidable:
            continue  # a sign the code itself tests is not fixed by this sign pattern: the pattern says nothing
        except AnalysisError as ex:
            undec.append("%s: %s" % (desc, ex))
            continue
        if not isinstance(res, Rec):
            continue
        returned += 1
        rc = coefs(res)
        if any(v.name in rc for v in forb):
            bad.append("%s: the returned term still mentions a forbidden variable" % desc)
            continue
        # true multipliers: (rows restricted to the forbidden variables)^T mu = (term restricted to them)
        mt = ListV([ListV([r.f["variables"].d.get(v, num(0)) for r in rows]) for v in forb])
        try:
            mus = list(ta.linsolve(mt, ListV([T.f["variables"].d.get(v, num(0)) for v in forb])).items)
        except Raised:
            undec.append("%s: singular row system" % desc)
            continue
        # residuals: T - (R + sum mu_k row_k) must vanish on every variable and on the constant
        ok_alg = True
        for v in (x, y, i):
            tot = rc.get(v.name, num(0))
            for mu, row in zip(mus, rows):
                tot = tot + mu * row.f["variables"].d.get(v, num(0))
            if not (T.f["variables"].d.get(v, num(0)) - tot).is_zero():
                ok_alg = False
        totc = res.f["constant"]
        for mu, row in zip(mus, rows):
            totc = totc + mu * row.f["constant"]
        if not (T.f["constant"] - totc).is_zero():
            ok_alg = False
        if not ok_alg:
            bad.append("%s: the returned term %s is not the term minus a combination of the rows" % (desc, _show_term(res)))
            continue
        sg = [sign_under(mu, ta.signs) for mu in mus]
        if any(s_ is None for s_ in sg):
            returned -= 1  # the sign of a multiplier is not fixed by this sign pattern: nothing to conclude
            continue
        wrong = [k for k, s_ in enumerate(sg) if (s_ < 0 if refine else s_ > 0)]
        if wrong:
            bad.append(
                "%s: returns %s, obtained with a %s multiple of row %s - the result %s the term"
                % (desc, _show_term(res), "negative" if refine else "positive", ", ".join(str(k + 1) for k in wrong), "does not imply" if refine else "is not implied by")
            )
    return returned, bad, undec, len(combos)


_ARBITRARY_ROWS_CACHE: Dict[str, Optional[bool]] = {}


def reduction_sound_for_arbitrary_rows(prog: Program) -> Optional[bool]:
    """Does _context_reduction itself make sure that rows enter with the right sign, whatever rows the Kaykobad
    selection hands over?  True: soundness does not rest on the selection's guards; False: it does; None: undecided."""
    if prog.digest in _ARBITRARY_ROWS_CACHE:
        return _ARBITRARY_ROWS_CACHE[prog.digest]
    verdict: Optional[bool] = True
    try:
        for nvars, conc in ((1, False), (2, False), (3, False), (3, True)):
            for refine in (True, False):
                returned, bad, undec, _n = _reduction_patterns(prog, 1, nvars, refine, concrete=conc)
                if bad:
                    verdict = False
                elif undec and verdict:
                    verdict = None
    except AnalysisError:
        verdict = None
    _ARBITRARY_ROWS_CACHE[prog.digest] = verdict
    return verdict


def rule_context_reduction_certificate(ctx: Ctx, rule: str = "context-reduction-certificate") -> None:
    """C01/C02/C04: _context_reduction replaces the forbidden variables of a term through rows handed over by the
    row selection of tactic 5 (rows that are active at an LP optimum - activity says nothing about the sign with which
    a row enters the combination).  Whatever is returned must follow from the term's replacement by a combination of
    those rows with multipliers of the right sign (refine: term = result + sum m_k*row_k with m_k >= 0; relax: m_k <= 0).
    Decided by interpreting _context_reduction and _get_tlp_context on rows with symbolic coefficients under every
    sign pattern, with the LP replaced by 'status 0, every context row active' and sympy's solver by its spec."""
    prog = ctx.prog
    key = "PolyhedralTermList._context_reduction"
    fi = prog.func(key)
    n_ret = 0
    for nvars in (1, 2, 3):
        for refine in (True, False):
            returned, bad, undec, total = _reduction_patterns(prog, 5, nvars, refine)
            n_ret += returned
            construct = "_context_reduction (strategy 5, %s, %s): rows enter the combination with the right sign" % ("refine" if refine else "relax", {1: "1 forbidden variable", 2: "2 forbidden variables, one row each", 3: "2 forbidden variables, a row coupling both"}[nvars])
            if bad:
                ctx.violation(rule, key, construct, "%d of %d returning sign patterns are unsound; first: %s" % (len(bad), returned, bad[0]), where=fi.where)
            elif undec:
                ctx.cannot_decide(rule, key, construct, undec[0])
            else:
                ctx.ok(rule, key, construct + " (%d returning patterns of %d)" % (returned, total))
    for refine in (True, False):
        returned, bad, undec, total = _reduction_patterns(prog, 5, 3, refine, concrete=True)
        n_ret += returned
        construct = "_context_reduction (strategy 5, %s, a row coupling both forbidden variables, small integer coefficients): rows enter the combination with the right sign" % ("refine" if refine else "relax")
        if bad:
            ctx.violation(rule, key, construct, "%d of %d returning cases are unsound; first: %s" % (len(bad), returned, bad[0]), where=fi.where)
        elif undec:
            ctx.cannot_decide(rule, key, construct, undec[0])
        else:
            ctx.ok(rule, key, construct + " (%d returning cases of %d)" % (returned, total))
    for refine in (True, False):
        cases, bad, undec = _reduction_singular(prog, refine)
        construct = "_context_reduction (strategy 5, %s, a selection of rows that states one bound twice): declined, or the term minus a multiple of the bound with the right sign" % ("refine" if refine else "relax")
        if bad:
            ctx.violation(rule, key, construct, "%d of %d cases are unsound; first: %s" % (len(bad), cases, bad[0]), where=fi.where)
        elif undec:
            ctx.cannot_decide(rule, key, construct, undec[0])
        else:
            ctx.ok(rule, key, construct + " (%d cases)" % cases)
    ctx.extra["reduction_sound_for_arbitrary_rows"] = reduction_sound_for_arbitrary_rows(prog)
    ctx.floor("context-reduction returning sign patterns", n_ret, 8)


def rule_kaykobad_selection(ctx: Ctx, rule: str = "kaykobad-selection") -> None:
    """C15: the row selection of tactic 1 refuses a selection as an 'empty transformation' only when NO
    selected row brings in a variable from outside the eliminated ones (and the term has none either).  Refusing more
    is sound but loses what only tactic 1 can derive: composition cross-simplifies the operands' guarantees first, and
    an interface-level guarantee removed there as redundant comes back only through this substitution.  Decided by
    running the selection on two-row systems in which exactly one row has an outside variable - first or last."""
    prog = ctx.prog
    key = "PolyhedralTermList._get_kaykobad_context"
    fi = prog.func(key)
    y1, y2, w = Key("y1"), Key("y2"), Key("w")

    def term(d, c):
        return Rec(PT, {"variables": DictV({k: num(v) for k, v in d.items()}), "constant": num(c)})

    cases = [
        ("the first selected row has the outside variable", [({y1: 1, w: 1}, 2), ({y2: 1}, 3)]),
        ("the last selected row has the outside variable", [({y1: 1}, 2), ({y2: 1, w: 1}, 3)]),
    ]
    for label, rows in cases:
        def thunk(rows=rows):
            ta = TermAlg(prog)
            T = term({y1: -1, y2: -1}, 0)
            context = Rec("PolyhedralTermList", {"terms": ListV([term(d, c) for d, c in rows])})
            try:
                r = ta.call(fi, [T, context, ListV([y1, y2]), False])
            except Raised as ex:
                if ex.cls == "ValueError":
                    return "the selection y1 + ... , y2 + ... for the term -y1 - y2 <= 0 is refused (ValueError) although one of its rows mentions w"
                raise
            if not isinstance(r, TupV) or len(r.items) != 2 or not isinstance(r.items[0], ListV) or len(r.items[0].items) != 2:
                return "the selection does not come back as (two rows, forbidden variables)"
            return None

        _run(ctx, rule, key, "_get_kaykobad_context: a selection is not refused as empty when %s" % label, thunk)


# ---------------------------------------------------------------------------
# Tactic 3 (change of variables before tactic 1)
# ---------------------------------------------------------------------------
def rule_tactic3_change_of_variables(ctx: Ctx, rule: str = "tactic3-substitution") -> None:
    """C01/C02/C04: tactic 3 replaces the eliminated part  a_x x + a_y y  of the term by one auxiliary variable `_`
    and rewrites the context with  x := (_ - a_y y) / a_x ; whatever tactic 1 then derives is only valid for the
    original context if that rewriting is exact.  Decided on symbolic coefficients with tactic 1 stubbed out: putting
    `_ = a_x x + a_y y` back into every rewritten context row must give the original row, the rewritten term must
    be  rest + 1*_ <= c , and the variables handed on for elimination are the old ones with x replaced by `_`."""
    prog = ctx.prog
    key = "PolyhedralTermList._tactic_3"
    fi = prog.func(key)
    x, y, z, w, aux = Key("x"), Key("y"), Key("z"), Key("w"), Key("_")

    def scenario(refine: bool, concrete=None):
        seen = {}

        def stub(ta_, pos, kw):
            seen["args"] = pos
            return TupV([pos[0], num(1)])

        ta = TermAlg(prog, stubs={"PolyhedralTermList._tactic_1": stub})
        T = ta.term([x, y, z], "a")
        if concrete is not None:
            # the coefficients of the eliminated variables as numbers (a choice among them - the largest, the first
            # non-unit one - can then be followed); everything else stays symbolic
            T.f["variables"].d[x] = num(concrete[0])
            T.f["variables"].d[y] = num(concrete[1])
        a_x, a_y = T.f["variables"].d[x], T.f["variables"].d[y]
        R1 = ta.term([x, y, w], "b")
        R2 = ta.term([y, w], "e")
        R3 = ta.term([x], "g")
        context = ta.construct("PolyhedralTermList", [ListV([R1, R2, R3])], {})
        ta.call(fi, [T, context, ListV([x, y]), refine])
        if "args" not in seen:
            return "tactic 1 is not called"
        new_term, new_context, new_elims = seen["args"][0], seen["args"][1], seen["args"][2]
        p = _cmp_term(new_term, {"z": sym("a_z"), "_": num(1)}, sym("a_c"))
        if p:
            return "the rewritten term is not  a_z z + _ <= a_c : " + p
        rows = new_context.f["terms"].items if isinstance(new_context, Rec) else []
        if len(rows) != 3:
            return "the rewritten context has %d rows for 3" % len(rows)
        for name, orig, new in (("b", R1, rows[0]), ("e", R2, rows[1]), ("g", R3, rows[2])):
            nc = coefs(new)
            k_aux = nc.get("_", num(0))
            back = {n_: v_ for n_, v_ in nc.items() if n_ != "_"}
            back["x"] = back.get("x", num(0)) + k_aux * a_x
            back["y"] = back.get("y", num(0)) + k_aux * a_y
            oc = coefs(orig)
            for n_ in sorted(set(back) | set(oc)):
                if not _eq(back.get(n_, num(0)), oc.get(n_, num(0))):
                    return "context row %s: with _ = a_x x + a_y y put back, the coefficient of %s is %s, originally %s" % (name, n_, back.get(n_, num(0)).show(), oc.get(n_, num(0)).show())
            if not _eq(new.f["constant"], orig.f["constant"]):
                return "context row %s: the bound changes from %s to %s" % (name, orig.f["constant"].show(), new.f["constant"].show())
        el = sorted(k_.name for k_ in new_elims.items) if isinstance(new_elims, ListV) else None
        if el not in (["_", "y"], ["_", "x"]):
            return "the variables handed to tactic 1 are %s, expected the eliminated ones with one of them replaced by _" % el
        gone = "x" if el == ["_", "y"] else "y"
        if any(gone in coefs(r_) for r_ in rows):
            return "%s is replaced by _ but a rewritten context row still mentions it" % gone
        if seen["args"][3] is not refine:
            return "the direction handed to tactic 1 is %r" % (seen["args"][3],)
        return None

    for refine in (True, False):
        _run(ctx, rule, key, "_tactic_3 (%s): the change of variables handed to tactic 1 is exact" % ("refine" if refine else "relax"), lambda refine=refine: scenario(refine))
    # with numbers for the two eliminated coefficients, the larger one second / first (a pivot chosen by size)
    for refine in (True, False):
        for ab in ((1, 2), (3, -1), (-2, 5)):
            _run(ctx, rule, key, "_tactic_3 (%s, eliminated coefficients %s and %s): the change of variables handed to tactic 1 is exact" % ("refine" if refine else "relax", ab[0], ab[1]), lambda refine=refine, ab=ab: scenario(refine, ab))


def rule_kernels_exact(ctx: Ctx, rule: str = "kernel-exact") -> None:
    """C16/C19/C11: the term kernels (every method of PolyhedralTerm, and the renaming / evaluation of lists) compute
    with the numbers they are given: no tolerance (np.isclose / allclose / math.isclose) and no rounding.  A tolerance
    in a kernel makes a small but legitimate coefficient disappear (1e-9 x + 2e-9 y renamed x -> y is 3e-9 y, not 0) -
    the kernel laws, evaluated on generic symbols, cannot see that."""
    import ast as _ast

    from .loader import norm

    prog = ctx.prog
    banned = ("isclose", "allclose", "round", "around", "rint", "trunc")
    n = 0
    for fi in prog.all_functions():
        if isinstance(fi.node, _ast.Lambda) or fi.cls is None:
            continue
        in_scope = fi.cls.name == "PolyhedralTerm" or (fi.cls.name in ("PolyhedralTermList", "TermList") and fi.name in ("rename_variable", "evaluate", "contains_behavior", "copy", "__eq__", "__hash__"))
        if not in_scope or fi.name in ("__str__", "__repr__"):
            continue
        n += 1
        construct = "%s computes exactly (no tolerance, no rounding)" % fi.key
        bad = [norm(c)[:70] for c in _ast.walk(fi.node) if isinstance(c, _ast.Call) and norm(c.func).split(".")[-1] in banned]
        if bad:
            ctx.violation(rule, fi.key, construct, "`%s`: a value within the tolerance of another is treated as that other value" % bad[0], where=fi.where)
        else:
            ctx.ok(rule, fi.key, construct, nontrivial=False)
    ctx.floor("kernel methods read for tolerances", n, 15)
