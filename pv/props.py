"""Property registry: which rules decide which property, at what level, with which stated limits."""
from __future__ import annotations

from typing import Callable, Dict, List

from . import rules_algebra as RA
from . import rules_kernels as RK
from . import rules_effects as RF
from . import rules_exc as RE
from . import rules_parse as RPA
from . import rules_poly as RP
from . import rules_serial as RSER
from . import rules_shapes as RS
from .report import Ctx

TRUSTED = [
    "python ast module (parsing of /repo/src/pacti)",
    "pv.symalg abstract interpreter + pv.cfg CFG builder (this repository)",
    "primitive specs transcribed from the TermList docstrings (pv.prov axioms)",
    "Horn-closure judge pv.prov.Prov.closure (forward chaining, ~20 lines)",
    "truth-table decision procedure pv.sets (bit masks over 2^16 rows)",
]


def _containment_primitive(ctx: Ctx) -> None:
    """The containment test the algebra branches on (quotient: `assumptions.refines(other.a)`)."""
    P = RP.PTL
    RP.rule_refines_order(ctx)
    RP.rule_emptiness_precheck(ctx)
    RP.rule_status_table(ctx, P + "verify_polytope_containment")
    RP.rule_lp_compare(ctx, P + "verify_polytope_containment")
    RP.rule_lp_objective(ctx, P + "verify_polytope_containment")
    RP.rule_matrix_provenance(ctx, P + "verify_polytope_containment")
    RP.rule_containment_every_row(ctx)
    RP.rule_lp_zero_columns(ctx, P + "verify_polytope_containment", ["a_l", "a_r"], ["b_l", "b_r"], any_of=True)
    RP.rule_lp_zero_columns(ctx, P + "is_polytope_empty", ["a"], ["b"])
    RP.rule_lp_emptiness_shortcuts(ctx)
    RP.rule_zero_column_exactness(ctx)


def _simplify_primitive(ctx: Ctx) -> None:
    """simplify() keeps the meaning of a list under its context: every result of compose / quotient / merge passes
    through it (constructor and elimination), so the soundness verdicts of the algebra layer rest on it."""
    P = RP.PTL
    RP.rule_status_table(ctx, P + "reduce_polytope")
    RP.rule_lp_compare(ctx, P + "reduce_polytope", tolerance_rule=False, require_boundary=False)
    RP.rule_lp_objective(ctx, P + "reduce_polytope")
    RP.rule_matrix_provenance(ctx, P + "reduce_polytope")
    RP.rule_reduce_loop_discipline(ctx)
    RP.rule_simplify_wiring(ctx)
    RP.rule_polytope_roundtrip(ctx)
    RP.rule_back_conversion_every_row(ctx)
    RP.rule_lp_zero_columns(ctx, P + "reduce_polytope", ["a", "a_help"], ["b"])
    # a context whose terms mention no variable (rows 0 <= b_help) while the list itself has columns
    RP.rule_lp_zero_columns(ctx, P + "reduce_polytope", ["a_help"], ["b_help"], allow_lp=True)
    RP.rule_zero_column_exactness(ctx)
    RP.rule_lp_bounds(ctx)


def c05(ctx: Ctx) -> None:
    RE.rule_definite_assignment(ctx)
    RE.rule_call_arity(ctx)
    RA.rule_soundness(ctx, RA.GENERIC, ["compose", "quotient", "merge"])
    RA.rule_tl_operators(ctx)


def c01(ctx: Ctx) -> None:
    RE.rule_definite_assignment(ctx)
    RE.rule_call_arity(ctx)
    RP.rule_refine_wrapper(ctx)
    RA.rule_soundness(ctx, RA.POLY, ["compose"])
    # the unions and differences the algebra takes are exact only if == on terms is: a == that identifies two
    # different terms makes `|` drop one of them (an assumption or a guarantee silently lost)
    RS.rule_eq(ctx)
    RF.rule_no_global_mutation(ctx)  # no memo / state at module level: each call is judged on its own arguments
    RK.rule_term_kernels(ctx, ["multiply", "add", "remove", "substitute", "isolate"])
    RP.rule_dispatcher(ctx)
    RP.rule_transform(ctx)
    RK.rule_tactic4_certificate(ctx)
    RK.rule_tactic3_change_of_variables(ctx)
    RK.rule_context_reduction_certificate(ctx)
    RA.rule_forwarding(ctx)
    RA.rule_default_orders(ctx)
    _simplify_primitive(ctx)


def c02(ctx: Ctx) -> None:
    RE.rule_definite_assignment(ctx)
    RE.rule_call_arity(ctx)
    RP.rule_refine_wrapper(ctx)
    RA.rule_soundness(ctx, RA.POLY, ["quotient"])
    RS.rule_eq(ctx)  # as for C01: `|` and `-` rest on exact term equality
    # the certificates read each call on its own: a memo at module level (solutions keyed by the printed, rounded text
    # of a system) makes a later call answer with an earlier call's data
    RF.rule_no_global_mutation(ctx)
    RK.rule_term_kernels(ctx, ["multiply", "add", "remove", "substitute", "isolate"])
    RP.rule_dispatcher(ctx)
    RP.rule_transform(ctx)
    RK.rule_tactic4_certificate(ctx)
    RK.rule_tactic3_change_of_variables(ctx)
    RK.rule_context_reduction_certificate(ctx)
    RA.rule_forwarding(ctx)
    RA.rule_default_orders(ctx)
    _containment_primitive(ctx)
    _simplify_primitive(ctx)


def c08(ctx: Ctx) -> None:
    RE.rule_definite_assignment(ctx)
    RE.rule_call_arity(ctx)
    RA.rule_soundness(ctx, RA.POLY, ["merge"])
    RA.rule_interfaces(ctx, RA.POLY, ["merge"])
    RA.rule_tl_operators(ctx)
    RS.rule_eq(ctx)  # the conjunction is a union of term lists: exact only if == on terms is
    _simplify_primitive(ctx)
    RA.rule_constructor(ctx, RA.POLY)


def c06(ctx: Ctx) -> None:
    RE.rule_definite_assignment(ctx)
    RE.rule_call_arity(ctx)
    RA.rule_constructor(ctx, RA.GENERIC)
    RA.rule_interfaces(ctx, RA.POLY, ["compose", "quotient", "merge"])
    RA.rule_interfaces(ctx, RA.GENERIC, ["compose", "quotient", "merge"])
    RA.rule_refines_shape(ctx, RA.GENERIC, "refines", RA.EXPECTED_REFINES, True)
    RA.rule_rename(ctx, RA.GENERIC)
    RS.rule_copy(ctx)
    RA.rule_tl_operators(ctx)
    RA.rule_contract_factories(ctx)
    # a refusal whose message cannot be built (sorting objects without an order) is not a refusal
    RE.rule_unorderable_sort(ctx)


def c15(ctx: Ctx) -> None:
    RE.rule_definite_assignment(ctx)
    RE.rule_call_arity(ctx)
    RA.rule_retention(ctx, RA.POLY)
    RA.rule_exactness(ctx, RA.POLY)
    # what the cross-simplification removes as redundant comes back only through tactic 1's substitution
    RK.rule_kaykobad_selection(ctx)
    # "verbatim" rests on the list operators and on exact term equality (a tolerant == makes | and - drop near-equal terms)
    RA.rule_tl_operators(ctx)
    RS.rule_eq(ctx)
    # every result passes through simplify: a simplification that changes the meaning forgets guarantees
    _simplify_primitive(ctx)


def c16(ctx: Ctx) -> None:
    RE.rule_definite_assignment(ctx)
    RE.rule_call_arity(ctx)
    RK.rule_kernels_exact(ctx)
    RK.rule_term_kernels(ctx, ["rename", "remove", "copy"])
    RP.rule_rename_variables_chain(ctx)
    RS.rule_termlist_rename(ctx)
    RA.rule_rename(ctx, RA.GENERIC)
    RA.rule_rename(ctx, RA.POLY)


def c04(ctx: Ctx) -> None:
    RE.rule_definite_assignment(ctx)
    RE.rule_call_arity(ctx)
    P = RP.PTL
    RP.rule_dispatcher(ctx)
    RP.rule_transform(ctx)
    RP.rule_relax_tail(ctx)
    RP.rule_refine_wrapper(ctx)
    RP.rule_decline_discipline(ctx)
    RA.rule_default_orders(ctx)
    for k in (P + "_tactic_2", P + "_get_tlp_context"):
        RP.rule_status_table(ctx, k)
    RP.rule_polarity(ctx, P + "_tactic_2", "refine", True, "constant-decrement")
    RP.rule_polarity(ctx, P + "_get_tlp_context", "refine", True, "none")
    RP.rule_tactic4_sign(ctx)
    RK.rule_tactic4_certificate(ctx)
    RK.rule_tactic3_change_of_variables(ctx)
    RK.rule_context_reduction_certificate(ctx)
    RP.rule_matrix_provenance(ctx, P + "_tactic_2")
    RP.rule_matrix_provenance(ctx, P + "_get_tlp_context")
    RP.rule_kaykobad_guards(ctx)
    RE.rule_optional_results(ctx)
    RK.rule_term_kernels(ctx, ["multiply", "add", "remove", "substitute", "isolate", "copy", "symbolic", "accessors"])
    RP.rule_lp_bounds(ctx)


def c07(ctx: Ctx) -> None:
    RE.rule_definite_assignment(ctx)
    RE.rule_call_arity(ctx)
    P = RP.PTL
    RP.rule_status_table(ctx, P + "reduce_polytope")
    RP.rule_lp_compare(ctx, P + "reduce_polytope", tolerance_rule=False, require_boundary=False)
    RP.rule_lp_objective(ctx, P + "reduce_polytope")
    RP.rule_matrix_provenance(ctx, P + "reduce_polytope")
    RP.rule_reduce_loop_discipline(ctx)
    RS.rule_eq(ctx)
    RP.rule_simplify_wiring(ctx)
    RP.rule_polytope_roundtrip(ctx)
    RP.rule_back_conversion_every_row(ctx)
    RP.rule_lp_zero_columns(ctx, P + "reduce_polytope", ["a", "a_help"], ["b"])
    # a context whose terms mention no variable (rows 0 <= b_help) while the list itself has columns
    RP.rule_lp_zero_columns(ctx, P + "reduce_polytope", ["a_help"], ["b_help"], allow_lp=True)
    RP.rule_zero_column_exactness(ctx)
    RA.rule_constructor(ctx, RA.POLY)
    RP.rule_contract_simplify(ctx)
    RP.rule_lp_bounds(ctx)


def c11(ctx: Ctx) -> None:
    RE.rule_definite_assignment(ctx)
    RE.rule_call_arity(ctx)
    RS.rule_no_stale_caches(ctx)
    RK.rule_kernels_exact(ctx)
    P = RP.PTL
    RP.rule_contains_behavior(ctx)
    RP.rule_matrix_provenance(ctx, RP.PTL + "is_polytope_empty")
    RK.rule_term_kernels(ctx, ["evaluate", "substitute", "multiply", "add", "remove"])
    RP.rule_status_table(ctx, P + "is_polytope_empty")
    RP.rule_is_empty_wiring(ctx)
    RP.rule_lp_bounds(ctx)
    RP.rule_polytope_roundtrip(ctx)
    RP.rule_lp_zero_columns(ctx, P + "is_polytope_empty", ["a"], ["b"])
    RP.rule_lp_emptiness_shortcuts(ctx)
    RP.rule_zero_column_exactness(ctx)
    # "a behaviour contained in a list is contained in everything that list refines": the refinement test itself
    _containment_primitive(ctx)


def c12(ctx: Ctx) -> None:
    RE.rule_definite_assignment(ctx)
    RE.rule_call_arity(ctx)
    P = RP.PTL
    RP.rule_status_table(ctx, P + "optimize")
    RP.rule_matrix_provenance(ctx, P + "optimize")
    RP.rule_polarity(ctx, P + "optimize", "maximize", True, "return")
    RP.rule_get_variable_bounds(ctx)
    RP.rule_optimize_unconstrained(ctx)
    RE.rule_raise_message_types(ctx)
    RP.rule_lp_bounds(ctx)
    # the LP is posed over  assumptions | guarantees  turned into matrices: union by exact term equality, one row per term
    RA.rule_tl_operators(ctx)
    RS.rule_eq(ctx)
    RP.rule_polytope_roundtrip(ctx)


def c09(ctx: Ctx) -> None:
    RE.rule_definite_assignment(ctx)
    RE.rule_call_arity(ctx)
    RPA.rule_data_kernels(ctx)
    RPA.rule_translation(ctx)
    RPA.rule_scaling_actions(ctx)
    RPA.rule_parse_entry(ctx)
    RPA.rule_infix_chain(ctx)
    RPA.rule_number_token(ctx)
    RPA.rule_parser_memoisation(ctx)
    RF.rule_no_global_mutation(ctx)


def c10(ctx: Ctx) -> None:
    RE.rule_definite_assignment(ctx)
    RE.rule_call_arity(ctx)
    RSER.rule_machine_roundtrip(ctx)
    RSER.rule_dict_tables(ctx)
    RSER.rule_machine_exact(ctx)
    RSER.rule_file_tags(ctx)
    RSER.rule_number_format(ctx)
    RSER.rule_printer_shape(ctx)
    RSER.rule_opposite_predicate(ctx)
    RSER.rule_printer_reading(ctx)
    RE.rule_raise_message_types(ctx)
    RE.rule_validator_covers(ctx)


def c13(ctx: Ctx) -> None:
    RE.rule_definite_assignment(ctx)
    RE.rule_call_arity(ctx)
    RS.rule_no_stale_caches(ctx)
    RF.rule_no_operand_mutation(ctx)
    RF.rule_no_global_mutation(ctx)
    RF.rule_instance_fields_own(ctx)
    RF.rule_no_alias_results(ctx)
    RF.rule_time_only_in_stats(ctx)
    RK.rule_term_kernels(ctx, ["copy", "remove", "rename"])


def c14(ctx: Ctx) -> None:
    RE.rule_definite_assignment(ctx)
    RE.rule_call_arity(ctx)
    RE.rule_raise_classes(ctx)
    RE.rule_constructed_not_raised(ctx)
    RE.rule_asserts(ctx)
    RE.rule_reader_validates(ctx)
    RE.rule_validator_covers(ctx)
    RE.rule_validator_faults(ctx)
    RE.rule_validator_types(ctx)
    RE.rule_validator_refuses(ctx)
    RE.rule_reader_faults(ctx)
    RE.rule_optional_results(ctx)
    RE.rule_solver_dict_keys(ctx)
    RE.rule_division_sites(ctx)
    # (b) of the division rule rests on: no kernel ever stores a zero coefficient
    RK.rule_term_kernels(ctx, ["multiply", "add", "remove", "substitute", "isolate", "copy", "rename"])
    RP.rule_dispatcher(ctx)
    RP.rule_decline_discipline(ctx)
    for k in RP.STATUS_TABLES:
        RP.rule_status_table(ctx, k)
        RP.rule_lp_result_use(ctx, k)
    P = RP.PTL
    RP.rule_lp_zero_columns(ctx, P + "verify_polytope_containment", ["a_l", "a_r"], ["b_l", "b_r"], any_of=True)
    RP.rule_lp_zero_columns(ctx, P + "is_polytope_empty", ["a"], ["b"])
    RP.rule_lp_emptiness_shortcuts(ctx)
    RP.rule_zero_column_exactness(ctx)
    RP.rule_lp_zero_columns(ctx, P + "reduce_polytope", ["a", "a_help"], ["b"])
    # a context whose terms mention no variable (rows 0 <= b_help) while the list itself has columns
    RP.rule_lp_zero_columns(ctx, P + "reduce_polytope", ["a_help"], ["b_help"], allow_lp=True)
    RP.rule_zero_column_exactness(ctx)
    RE.rule_unorderable_sort(ctx)
    RE.rule_array_inplace_cast(ctx)
    RE.rule_raise_message_types(ctx)
    # evaluate is public and documented to accept a partial valuation
    RK.rule_term_kernels(ctx, ["evaluate", "substitute"])
    # the syntactic data classes combine the two sides of a relation OUTSIDE pyparsing (serializer): an IndexError /
    # KeyError / ZeroDivisionError raised in them on a well-formed string is not turned into a syntax error
    RPA.rule_data_kernels(ctx)


def c19(ctx: Ctx) -> None:
    RE.rule_definite_assignment(ctx)
    RE.rule_call_arity(ctx)
    RS.rule_no_stale_caches(ctx)
    RK.rule_kernels_exact(ctx)
    RS.rule_eq(ctx)
    RS.rule_hash(ctx)
    RS.rule_hash_order(ctx)
    RS.rule_hash_number_text(ctx)
    RS.rule_default_simplification(ctx)
    RS.rule_copy(ctx)
    # a copy equals its original only if no kernel leaves a zero coefficient behind (the constructor drops it on copy)
    RK.rule_term_kernels(ctx, ["copy", "rename", "remove", "add", "multiply"])


def c17(ctx: Ctx) -> None:
    RE.rule_definite_assignment(ctx)
    RE.rule_call_arity(ctx)
    RS.rule_nested_contains(ctx)
    RS.rule_compound_from_strings(ctx)
    # contains_behavior of an alternative rests on evaluate / substitute
    RP.rule_contains_behavior(ctx)
    RK.rule_term_kernels(ctx, ["evaluate", "substitute"])
    RS.rule_nested_le(ctx)
    RS.rule_nested_intersect(ctx)
    RS.rule_nested_ctor(ctx)
    RS.rule_compound_merge(ctx)
    RS.rule_eq(ctx)
    RP.rule_status_table(ctx, RP.PTL + "is_polytope_empty")
    RP.rule_is_empty_wiring(ctx)


def c03(ctx: Ctx) -> None:
    RE.rule_definite_assignment(ctx)
    RE.rule_call_arity(ctx)
    RS.rule_no_stale_caches(ctx)
    P = RP.PTL
    RP.rule_refines_order(ctx)
    RP.rule_emptiness_precheck(ctx)
    RP.rule_status_table(ctx, P + "verify_polytope_containment")
    RP.rule_status_table(ctx, P + "is_polytope_empty")
    RP.rule_lp_compare(ctx, P + "verify_polytope_containment")
    RP.rule_lp_objective(ctx, P + "verify_polytope_containment")
    RP.rule_containment_every_row(ctx)
    RP.rule_lp_zero_columns(ctx, P + "verify_polytope_containment", ["a_l", "a_r"], ["b_l", "b_r"], any_of=True)
    RP.rule_lp_zero_columns(ctx, P + "is_polytope_empty", ["a"], ["b"])
    RP.rule_lp_emptiness_shortcuts(ctx)
    RP.rule_zero_column_exactness(ctx)
    RP.rule_matrix_provenance(ctx, P + "verify_polytope_containment")
    RP.rule_matrix_provenance(ctx, P + "is_polytope_empty")
    RP.rule_lp_bounds(ctx)
    RA.rule_tl_operators(ctx)
    RS.rule_eq(ctx)
    RP.rule_polytope_roundtrip(ctx)
    RA.rule_refines_shape(ctx, RA.GENERIC, "refines", RA.EXPECTED_REFINES, True)
    RA.rule_refines_shape(ctx, RA.GENERIC, "__le__", RA.EXPECTED_REFINES, True)
    RS.rule_membership_tests(ctx)
    RA.rule_refines_shape(ctx, RA.GENERIC, "contains_environment", RA.EXPECTED_ENV, False)
    RA.rule_refines_shape(ctx, RA.GENERIC, "contains_implementation", RA.EXPECTED_IMPL, False)


PROPS: Dict[str, dict] = {
    "C05": {
        "fn": c05,
        "level": "proof",
        "explanation": "Abstract interpretation of IoContract.compose/compose_tactics/quotient/quotient_tactics/merge over the syntax tree "
        "with constraint lists as uninterpreted predicates (provenance terms), interface lists as membership truth tables and a fork on "
        "every primitive outcome (ok / ValueError; refines True / False).  Each returning path must discharge the soundness sequents of "
        "C01/C02/C08 by Horn closure over the documented primitive specs.  Quantifier coverage is symbolic: all constraint contents, "
        "all topologies (any number of variables), all outcome sequences.",
        "assumptions": [
            "the abstract TermList primitives meet their docstring specs (that is the hypothesis of C05)",
            "leftover eliminated variables are not assumed away: no fact about vars(result) of a primitive is used; scope is enforced by the constructor (C06)",
        ],
    },
}


def run_property(ctx: Ctx) -> None:
    spec = PROPS[ctx.prop]
    spec["fn"](ctx)


STATIC = "static analysis"


def _reg(pid, fn, level, technique, explanation, assumptions, level_text=None, design_ref="DESIGN.md section 3"):
    PROPS[pid] = {
        "fn": fn,
        "level": level,
        "technique": technique,
        "explanation": explanation,
        "assumptions": assumptions,
        "level_text": level_text or explanation,
        "design_ref": design_ref,
        "trusted": TRUSTED,
    }


NUMERIC_LIMIT = "numerical behaviour of scipy.linprog / HiGHS, sympy and float round-off is NOT decided: only the source-level clause named in the explanation is"

_reg(
    "C01", c01, "other",
    "static analysis: AST abstract interpretation (provenance terms + Horn-closure judge, membership truth tables) of compose through the polyhedral entry points; kernel-law normal forms; path-sensitive shape rules of the dispatcher/_transform",
    "Decides the structural clauses of composition soundness: (a) every returning path of PolyhedralIoContract.compose/compose_tactics (wrappers inlined into IoContract.compose_tactics) discharges "
    "'A_res, contracts honoured |- A1, A2, G_res' for uninterpreted constraint predicates, every primitive outcome and every interface topology; (b) wrappers forward every argument to the same-named "
    "parameter and default tactic orders name only existing tactics; (c) the dispatcher returns a tactic's result or an unchanged copy and _transform hands each term the context plus the *current* other "
    "terms minus itself; (d) the term kernels the tactics are built from (multiply, add, remove, substitute, isolate) satisfy their algebraic laws on a generic symbolic term; "
    "(e) tactic 4, interpreted on chains of context rows with symbolic coefficients under every assignment of signs, only returns terms from which (with the rows used) the input term follows by a non-negative combination (Farkas certificate, multiplier signs are determined because they are monomials); "
    "(f) the simplification every result passes through keeps the list's meaning structurally (reduce_polytope LP wiring, row bookkeeping, status table).",
    ["the TermList primitives meet their documented specs - whether tactics 1, 3, 5 choose rows whose solution bounds the term in the right direction depends on LP optima / sympy solutions and is not decided", NUMERIC_LIMIT],
)
_reg(
    "C02", c02, "other",
    "static analysis: AST abstract interpretation (provenance terms + Horn-closure judge) of quotient through the polyhedral entry points; kernel laws; dispatcher/_transform shape rules",
    "Decides the structural clauses of quotient soundness: every returning path of PolyhedralIoContract.quotient/quotient_tactics - all outcomes of refines (True/False) and of the three eliminations (ok / ValueError, "
    "both except-branches) - discharges 'A, divisor honoured, quotient honoured |- A(C1), A(Q), G(C)'; wrappers forward arguments; dispatcher, _transform, term kernels, the tactic-4 Farkas certificate and the simplification wiring as for C01; "
    "the containment test the quotient branches on is wired as C03 requires (every right-hand row decided by an LP over the left rows, loop over all rows, status table, comparison direction).",
    ["the TermList primitives meet their documented specs", NUMERIC_LIMIT],
)
_reg(
    "C03", c03, "other",
    "static analysis: path-sensitive constant propagation of linprog status, rational normal form of the optimum-vs-bound comparison, CFG-free truth tables of the emptiness pre-checks, sequent normalisation of the containment queries",
    "Decides the direction and operands of every containment test: IoContract.refines/__le__/contains_environment/contains_implementation ask exactly the expected sequents and return their conjunction, with the "
    "interface guard raising IncompatibleArgsError; PolyhedralTermList.refines decides the unconstrained cases in the right order and hands (self, other) matrices in order; verify_polytope_containment: "
    "left-empty => True before right-empty => False, LP objective = negated tested row over the left rows with the row's own bound relaxed by a positive amount, status 2 => False, a row is accepted iff "
    "-fun <= bound (+ tolerance, boundary included) and the comparison of the floating-point optimum carries a tolerance; the LP loop ranges over all right-hand rows and no row is passed over on a condition that ignores the right-hand bounds; "
    "is_polytope_empty status table; every linprog call has free variable bounds.",
    ["whether a given tolerance is adequate for every input is not decided", NUMERIC_LIMIT],
)
_reg(
    "C04", c04, "other",
    "static analysis: path-sensitive partial evaluation of _transform_term/_transform/elim_* (with may-raise forks), sign/polarity normal forms of the LP objectives, kernel laws on generic symbolic terms, structural guards of the Kaykobad row selection",
    "Decides the structural clauses of elimination: dispatcher discipline (argument order, first non-None result, ValueError = declined, unchanged copy as fallback), _transform's helper context and ValueError fallback, the relaxation tail that drops "
    "every term still mentioning an eliminated variable, refine/relax flags of the two wrappers, every explicit failure inside a tactic is a ValueError, tactic 4 refuses to relax, TACTICS is total over the default orders, "
    "polarity of tactic 2 and of the tactic-5 LP (objective sign = -1 iff refine; the optimum enters with the same sign), tactic 4 admits only rows whose coefficient has the term's sign, Kaykobad row selection skips the term itself / rows with other "
    "eliminated variables and checks the sign condition on every eliminated variable, the kernels isolate/substitute/multiply/add/remove satisfy their laws (isolate∘substitute round trip), and tactic 4 run on symbolic chains of context rows "
    "(depth 0-2, every sign pattern of the coefficients) returns only terms that, with the rows used, imply the input term by a non-negative combination (this is the rule that exposed defect D12); "
    "_context_reduction together with tactic 5's row selection, interpreted with the LP replaced by 'status 0, every context row active' and sympy's solver by its spec, returns only results whose rows enter the combination with the right sign "
    "(refine: non-negative, relax: non-positive multipliers; defect D13) - and because the reduction checks this for whatever rows it is handed (decided by the same analysis with an arbitrary selection in place of Kaykobad's), "
    "the Kaykobad selection guards are then not needed for soundness and are only enforced when that analysis fails.",
    ["the Kaykobad inequality itself, the active-set argument of tactic 5 and the adequacy of np.isclose(slack, 0) are numerical and not decided", NUMERIC_LIMIT],
)
PROPS["C05"]["technique"] = "static analysis: AST abstract interpretation with uninterpreted constraint predicates (provenance terms), membership truth tables over all topologies, Horn-closure entailment; every primitive outcome forked"
PROPS["C05"]["level_text"] = PROPS["C05"]["explanation"]
PROPS["C05"]["design_ref"] = "DESIGN.md sections 2.2, 2.3, 3 (C05)"
PROPS["C05"]["trusted"] = TRUSTED
_reg(
    "C06", c06, "proof",
    "static analysis: AST abstract interpretation with membership truth tables (complete decision procedure for list_union/list_diff/list_intersection expressions) and path conditions; existential guards decided by inhabited-cell enumeration",
    "For every returning path of constructor, compose, quotient, merge, rename and copy (generic and polyhedral entry points): the result is built by the validating constructor; its input/output lists equal the prescribed formula on every "
    "membership class allowed by the path condition (all topologies, any number of variables); every meaningless request (keep a non-output, shared outputs, constrained feedback, quotient output read by the divisor, foreign additional inputs, "
    "ill-formed constructor arguments, refinement across interfaces, renaming into the other side) ends in IncompatibleArgsError on every path compatible with it and never in a result; lists.py helpers compute the set functions their names say, order-preserving.",
    ["well-formedness of an operand is what the constructor established when it was built (the same constructor is analysed here)", "the constraint lists' own variable sets are arbitrary subsets subject to those invariants"],
    design_ref="DESIGN.md sections 2.2, 3 (C06)",
)
_reg(
    "C07", c07, "other",
    "static analysis: path-sensitive constant propagation of linprog status through reduce_polytope, rational normal form of the drop condition, event-order pairing of the +1/-1 relaxation, wiring rules of simplify, Horn judge on the constructor",
    "Decides: reduce_polytope removes a row only when the LP optimum of that row over the other rows (and the context) is within its bound (or the LP is unbounded), keeps it on solver trouble, raises ValueError exactly for status 2, "
    "objective = negated row, the temporary +1 on the row's bound is undone before the bound is used again; simplify(context) reduces (self minus context terms) against the context in that order and maps surviving rows back with the same variable order; "
    "termlist_to_polytope/polytope_to_termlist/term_to_polytope/polytope_to_term are index-faithful; the contract constructor simplifies guarantees against assumptions (never the converse) and stores equivalent assumptions.",
    ["maximality ('nothing redundant left') and feasibility classification are LP behaviour and not decided", NUMERIC_LIMIT],
)
_reg(
    "C08", c08, "proof",
    "static analysis: AST abstract interpretation of merge + constructor with uninterpreted predicates, Horn-closure judge in both directions; operator summaries of TermList.__or__/__sub__/__and__ derived from source",
    "merge: A_res |- A1, A2; A1, A2 |- A_res; A_res, G_res |- G1, G2; A1, A2, G1, G2 |- G_res on every returning path (the constructor's simplification step included), interface = unions by truth table, "
    "type guard raises IncompatibleArgsError, TermList.__or__ is the union of copies; the obligations are symmetric in the operands, so either call order is covered.",
    ["simplify meets its documented spec (equivalence in context, result a sub-list); its source-level wiring (reduce_polytope LP matrices, row bookkeeping, status table) is checked, its numerical behaviour is not"],
    design_ref="DESIGN.md sections 2.3, 3 (C08)",
)
_reg(
    "C09", c09, "other",
    "static analysis: algebraic laws of the parser's data classes and of the relation translators, checked on generic symbolic records by a syntactic kernel interpreter (rational normal forms); path rule for error wrapping",
    "Decides the arithmetic behind parsing and the number token, not the rest of the grammar's matching: the token that reads a number accepts exactly the documented spellings (its definition turned into a regular expression and compared with the reference on every string over {1 . e E + -} up to length 7); negate/add/to_polyhedral_term of syntactic term lists, negate/to_term_list/is_positive of absolute terms (None = 1), _combine_optional_floats on its four cases, "
    "_combine_or_append, expand = every +/- combination, '<=', '>=' (link by link) and '=' translated with the right direction and constant sign, negative absolute terms rejected with the convexity error before expansion (both relations), "
    "the three scaling parse actions multiply every numeric field, parse failures are wrapped into PolyhedralSyntaxException with parse_all=True, module-level grammar state is never written.",
    ["which strings the pyparsing grammar accepts and how tokens group (spacing, number spelling, chaining) is run-time matching and NOT decided - C09 is claimed for the arithmetic clause only"],
)
_reg(
    "C10", c10, "other",
    "static analysis: writer/reader key and tag tables extracted from the AST with def-use sources; path rules on the string printer",
    "Decides table agreement and shape, not numeric round-trip equality: keys written by to_machine_dict = keys read by from_dict = keys required by the validators; each key carries the matching field (a/g, inputs/outputs); to_dict keys = from_strings parameters; "
    "compound pair likewise; file type tags written = tags read, each read with the inverse of its writer; entry keys agree; the machine form applies float() only; _number_to_string uses one .4g spec; the printer consumes the head term and at most one partner, "
    "folds a pair only if the terms are opposite and the constants stand in the relation the emitted form denotes, prints the head's left side and constant; to_str_list threads the returned rest.",
    ["numeric equality after a round trip, folding of *nearly* opposite terms and acceptance of emitted strings by the parser are run-time behaviour and NOT decided - claimed for the structural clause only"],
)
_reg(
    "C11", c11, "other",
    "static analysis: kernel laws of evaluate/substitute on generic symbolic terms incl. the three boundary cases, path rule of contains_behavior with may-raise fork, linprog status table of is_polytope_empty",
    "Decides: unassigned variables raise ValueError before evaluation; evaluate leaves 'rest <= c - a_x*val' and rejects a fully assigned term iff the residual constant is strictly negative (boundary satisfied, zero values included); "
    "exactly evaluate's ValueError maps to False; is_polytope_empty: status 2 => True, 0/3 => False, otherwise ValueError, free variable bounds.",
    ["LP feasibility answers on thin systems are not decided", NUMERIC_LIMIT],
)
_reg(
    "C12", c12, "other",
    "static analysis: polarity normal form of PolyhedralTermList.optimize, linprog status table, wiring rules of the contract-level wrappers",
    "Decides: objective sign = -1 iff maximize and the optimum is returned with the same sign; status 3 => None, 0 => value, otherwise ValueError; the LP is over self's own matrix with free bounds; "
    "PolyhedralIoContract.optimize optimises the parsed objective over assumptions | guarantees and forwards the direction; get_variable_bounds returns (minimum, maximum).",
    ["the property text's own defect (HiGHS presolve reporting unbounded problems as infeasible) is solver behaviour; no source construct distinguishes it - NOT decided"],
)
_reg(
    "C13", c13, "other",
    "static analysis: whole-package interprocedural mutation-effect / alias / freshness analysis (origin sets by depth, bottom-up summaries to a fixpoint over a resolved call graph)",
    "Decides for all functions of the package: no write reaches an object that is (a component of) a parameter or a module-level binding - directly or through a callee - except constructors on self, the documented in-place IoContract.simplify and parse "
    "actions on their own parse payload (payload classes are parser-private); constructors store private copies; methods of the domain classes return objects created in the call (object and direct containers); clock readings only reach statistics. "
    "With no write to operands or module state, a result depends only on its arguments, which makes the history of a session irrelevant.",
    ["name resolution is flow-insensitive; receiver types come from annotations and local definitions", "sharing of immutable leaves (Var objects, numbers, strings) between result and operand is allowed"],
    design_ref="DESIGN.md sections 2.4, 3 (C13)",
)
_reg(
    "C14", c14, "other",
    "static analysis: raise-class census, built-and-dropped exception lint, assert triage by interprocedural def-use taint (solver / file sources) against a reviewed table, dereference coverage of reader and validators, linprog status tables",
    "Decides: every explicit raise names a documented class (ValueError family incl. IncompatibleArgsError, the syntax/convexity errors, ContractFormatError); no exception is constructed without being raised; no assert condition depends on solver output, sympy output or raw file "
    "content (those are findings), every other assert is in the reviewed invariant table; a documented check turned into an assert is recognised against the reference decline table; the file reader checks every entry key before use and validates "
    "every representation it dispatches on; validators require every key from_dict reads; the dispatcher absorbs exactly ValueError; solver statuses map to documented outcomes; every true division has a denominator that is a non-zero literal, "
    "a stored coefficient of a variable known to occur in the term (with the kernel laws showing that no kernel stores a zero coefficient) or is tested against zero on the way - a number parsed from the constraint string and divided by untested is a violation (defect D14); "
    "a pyparsing error raised by a parse action is converted by every caller of parse_string; the dictionary sympy's solver returns is read only at keys it is known to have (or after numpy has accepted the same square system); "
    "under solver statuses 1-4 the optimum (fun / x / slack, None then) never enters arithmetic (defect D16); matrices with rows and no columns (variable-free terms) never reach linprog and are decided from their bounds (defect D17).",
    ["exceptions raised inside numpy/scipy/sympy/pyparsing for exotic values (e.g. float(None)) are not modelled", "an assert that is neither tainted nor reviewed is reported as undecidable (exit 2), not as a violation"],
    design_ref="DESIGN.md sections 2.5, 3 (C14)",
)
_reg(
    "C15", c15, "other",
    "static analysis: must-retain truth tables over term-membership classes along every compose/merge path (syntactic tier) and Horn-closure exactness derivation under the no-connection hypothesis",
    "Decides a necessary condition of C15: a guarantee term present verbatim in an operand and touching no eliminated variable is still present in the result's guarantees or assumptions on every returning path, where 'removed because the same term is "
    "in the simplification context' counts as a removal that must be covered by that context being part of the result; no variable of the result's interface belongs to a set eliminated while computing the result's guarantees (so 'interface-level' "
    "means the result's interface, vars_to_keep included); the list operators are the set operations and term equality is exact (a tolerant == would drop near-equal terms); and with no connection the composition is exact (both directions) for uninterpreted predicates. The pinned tree violates this in "
    "compose_tactics (mutual simplification context of g1/g2) - recorded as known finding D2.",
    ["retention of scaled or mutually implied (non-verbatim) duplicates depends on LP simplification and is not decided"],
)
_reg(
    "C16", c16, "other",
    "static analysis: truth tables over singleton membership atoms for the 3x3(+same) source/target cases, provenance normal forms of the renamed lists, kernel law of PolyhedralTerm.rename_variable",
    "Decides: for every role of source and target (input / output / absent, same variable or not) rename_variable returns the prescribed interface (replace / remove / unchanged) or raises IncompatibleArgsError for a clash, renames both assumptions and guarantees "
    "where the source can occur, goes through the constructor; the term kernel moves the coefficient (adds when the target already occurs) on a fresh copy; absent source is a no-op.",
    ["sequential application in rename_variables is covered by the purity analysis (C13) and the per-step rule"],
)
_reg(
    "C17", c17, "other",
    "static analysis: assumption-driven path enumeration of the nested-list methods (two or three alternatives a side, every assignment of the emptiness / containment answers), reconstructing the quantifier each loop computes; wiring rules of merge / from_strings / constructor flags",
    "Decides the quantifier shapes: contains_behavior = exists over alternatives (ValueError passed on), <= = for-all-left exists-right of the element <= in that direction, == = mutual <=, intersect = every pair's conjunction (2x2 alternatives, all 16 emptiness assignments, both flag values) kept iff not empty, "
    "constructor disjointness = all three pairs of three alternatives are tested by their conjunction, any one overlapping pair => ValueError (and only then), copies stored; compound merge intersects assumptions with and guarantees without the disjointness check and unions the interfaces.",
    ["emptiness answers on touching alternatives come from the LP and are not decided", NUMERIC_LIMIT],
)
_reg(
    "C19", c19, "other",
    "static analysis: field tables from constructor stores compared with the fields read by __eq__/__hash__/copy; interpreter check of copy(); kernel law of PolyhedralTerm.copy",
    "Decides: every __eq__ compares each state field of self with the same field of other (never with itself), by conjunction, behind the same type guard; __hash__ exists next to __eq__ and reads only compared state (never identity) and does not expose the "
    "insertion order of a dictionary field that == compares as a mapping (directly or through the __str__ it hashes), and hashes float state as numbers, not as text (0.0 == -0.0 print differently; defect D15); "
    "copy() returns the same interface and lists through the constructor, list copies copy every element, term copies do not share their dictionary; NestedTermList equality is mutual <=.",
    ["0.0 / -0.0 hashing and ulp-level effects of re-simplification in copy() are not decided"],
)

NOT_APPLICABLE = {
    "C18": "plot vertices are produced at run time by Qhull (HalfspaceIntersection), a Chebyshev-centre LP and atan2 sorting; exactness, "
    "completeness and degenerate-slice behaviour are properties of those numerical results. The only source-level facts (sign/limit pairing, "
    "column swap, input guards) are a thin fringe whose correctness does not make the vertex set right, so a static pass would say nothing "
    "about the property (DESIGN.md section 4).",
}
