"""Property registry: which rules decide which property, at what level, with which stated limits."""
from __future__ import annotations

from typing import Callable, Dict, List

from . import rules_algebra as RA
from . import rules_kernels as RK
from . import rules_effects as RF
from . import rules_exc as RE
from . import rules_poly as RP
from . import rules_serial as RSER
from . import rules_shapes as RS
from .report import Ctx

TRUSTED = [
    "python ast module (parsing of /repo/src/pacti)",
    "pv.symalg abstract interpreter + pv.cfg CFG builder (this repository)",
    "primitive specs transcribed from the TermList docstrings (pv.prov axioms)",
    "Horn-closure judge pv.prov.Prov.closure (forward chaining, ~20 lines)",
    "truth-table decision procedure pv.sets (bit masks over 2^16 rows)",
]


def c05(ctx: Ctx) -> None:
    RA.rule_soundness(ctx, RA.GENERIC, ["compose", "quotient", "merge"])
    RA.rule_tl_operators(ctx)


def c01(ctx: Ctx) -> None:
    RA.rule_soundness(ctx, RA.POLY, ["compose"])
    RK.rule_term_kernels(ctx, ["multiply", "add", "remove", "substitute", "isolate"])
    RP.rule_dispatcher(ctx)
    RP.rule_transform(ctx)
    RA.rule_forwarding(ctx)
    RA.rule_default_orders(ctx)


def c02(ctx: Ctx) -> None:
    RA.rule_soundness(ctx, RA.POLY, ["quotient"])
    RK.rule_term_kernels(ctx, ["multiply", "add", "remove", "substitute", "isolate"])
    RP.rule_dispatcher(ctx)
    RP.rule_transform(ctx)
    RA.rule_forwarding(ctx)
    RA.rule_default_orders(ctx)


def c08(ctx: Ctx) -> None:
    RA.rule_soundness(ctx, RA.POLY, ["merge"])
    RA.rule_interfaces(ctx, RA.POLY, ["merge"])
    RA.rule_tl_operators(ctx)
    RA.rule_constructor(ctx, RA.POLY)


def c06(ctx: Ctx) -> None:
    RA.rule_constructor(ctx, RA.GENERIC)
    RA.rule_interfaces(ctx, RA.POLY, ["compose", "quotient", "merge"])
    RA.rule_interfaces(ctx, RA.GENERIC, ["compose", "quotient", "merge"])
    RA.rule_refines_shape(ctx, RA.GENERIC, "refines", RA.EXPECTED_REFINES, True)
    RA.rule_rename(ctx, RA.GENERIC)


def c15(ctx: Ctx) -> None:
    RA.rule_retention(ctx, RA.POLY)
    RA.rule_exactness(ctx, RA.POLY)


def c16(ctx: Ctx) -> None:
    RK.rule_term_kernels(ctx, ["rename", "remove", "copy"])
    RA.rule_rename(ctx, RA.GENERIC)
    RA.rule_rename(ctx, RA.POLY)


def c04(ctx: Ctx) -> None:
    P = RP.PTL
    RP.rule_dispatcher(ctx)
    RP.rule_transform(ctx)
    RP.rule_relax_tail(ctx)
    RP.rule_refine_wrapper(ctx)
    RP.rule_decline_discipline(ctx)
    RA.rule_default_orders(ctx)
    for k in (P + "_tactic_2", P + "_get_tlp_context"):
        RP.rule_status_table(ctx, k)
    RP.rule_polarity(ctx, P + "_tactic_2", "refine", True, "constant-decrement")
    RP.rule_polarity(ctx, P + "_get_tlp_context", "refine", True, "none")
    RP.rule_tactic4_sign(ctx)
    RP.rule_kaykobad_guards(ctx)
    RK.rule_term_kernels(ctx, ["multiply", "add", "remove", "substitute", "isolate", "copy"])
    RP.rule_lp_bounds(ctx)


def c07(ctx: Ctx) -> None:
    P = RP.PTL
    RP.rule_status_table(ctx, P + "reduce_polytope")
    RP.rule_lp_compare(ctx, P + "reduce_polytope", tolerance_rule=False, require_boundary=False)
    RP.rule_lp_objective(ctx, P + "reduce_polytope")
    RP.rule_simplify_wiring(ctx)
    RP.rule_polytope_roundtrip(ctx)
    RA.rule_constructor(ctx, RA.POLY)
    RP.rule_lp_bounds(ctx)


def c11(ctx: Ctx) -> None:
    P = RP.PTL
    RP.rule_contains_behavior(ctx)
    RK.rule_term_kernels(ctx, ["evaluate", "substitute", "multiply", "add", "remove"])
    RP.rule_status_table(ctx, P + "is_polytope_empty")
    RP.rule_lp_bounds(ctx)


def c12(ctx: Ctx) -> None:
    P = RP.PTL
    RP.rule_status_table(ctx, P + "optimize")
    RP.rule_polarity(ctx, P + "optimize", "maximize", True, "return")
    RP.rule_get_variable_bounds(ctx)
    RP.rule_lp_bounds(ctx)


def c10(ctx: Ctx) -> None:
    RSER.rule_dict_tables(ctx)
    RSER.rule_machine_exact(ctx)
    RSER.rule_file_tags(ctx)
    RSER.rule_number_format(ctx)
    RSER.rule_printer_shape(ctx)
    RE.rule_validator_covers(ctx)


def c13(ctx: Ctx) -> None:
    RF.rule_no_operand_mutation(ctx)
    RF.rule_no_global_mutation(ctx)
    RF.rule_no_alias_results(ctx)
    RF.rule_time_only_in_stats(ctx)
    RK.rule_term_kernels(ctx, ["copy", "remove", "rename"])


def c14(ctx: Ctx) -> None:
    RE.rule_raise_classes(ctx)
    RE.rule_constructed_not_raised(ctx)
    RE.rule_asserts(ctx)
    RE.rule_reader_validates(ctx)
    RE.rule_validator_covers(ctx)
    RP.rule_dispatcher(ctx)
    RP.rule_decline_discipline(ctx)
    for k in RP.STATUS_TABLES:
        RP.rule_status_table(ctx, k)


def c19(ctx: Ctx) -> None:
    RS.rule_eq(ctx)
    RS.rule_hash(ctx)
    RS.rule_copy(ctx)
    RK.rule_term_kernels(ctx, ["copy"])


def c17(ctx: Ctx) -> None:
    RS.rule_nested_contains(ctx)
    RS.rule_nested_le(ctx)
    RS.rule_nested_intersect(ctx)
    RS.rule_nested_ctor(ctx)
    RS.rule_compound_merge(ctx)
    RS.rule_eq(ctx)
    RP.rule_status_table(ctx, RP.PTL + "is_polytope_empty")


def c03(ctx: Ctx) -> None:
    P = RP.PTL
    RP.rule_refines_order(ctx)
    RP.rule_emptiness_precheck(ctx)
    RP.rule_status_table(ctx, P + "verify_polytope_containment")
    RP.rule_status_table(ctx, P + "is_polytope_empty")
    RP.rule_lp_compare(ctx, P + "verify_polytope_containment")
    RP.rule_lp_objective(ctx, P + "verify_polytope_containment")
    RP.rule_lp_bounds(ctx)
    RA.rule_tl_operators(ctx)
    RA.rule_refines_shape(ctx, RA.GENERIC, "refines", RA.EXPECTED_REFINES, True)
    RA.rule_refines_shape(ctx, RA.GENERIC, "__le__", RA.EXPECTED_REFINES, True)
    RA.rule_refines_shape(ctx, RA.GENERIC, "contains_environment", RA.EXPECTED_ENV, False)
    RA.rule_refines_shape(ctx, RA.GENERIC, "contains_implementation", RA.EXPECTED_IMPL, False)


PROPS: Dict[str, dict] = {
    "C05": {
        "fn": c05,
        "level": "proof",
        "explanation": "Abstract interpretation of IoContract.compose/compose_tactics/quotient/quotient_tactics/merge over the syntax tree "
        "with constraint lists as uninterpreted predicates (provenance terms), interface lists as membership truth tables and a fork on "
        "every primitive outcome (ok / ValueError; refines True / False).  Each returning path must discharge the soundness sequents of "
        "C01/C02/C08 by Horn closure over the documented primitive specs.  Quantifier coverage is symbolic: all constraint contents, "
        "all topologies (any number of variables), all outcome sequences.",
        "assumptions": [
            "the abstract TermList primitives meet their docstring specs (that is the hypothesis of C05)",
            "leftover eliminated variables are not assumed away: no fact about vars(result) of a primitive is used; scope is enforced by the constructor (C06)",
        ],
    },
}


def run_property(ctx: Ctx) -> None:
    spec = PROPS[ctx.prop]
    spec["fn"](ctx)

_tmp = {"C10": c10, "C01": c01, "C02": c02, "C03": c03, "C04": c04, "C06": c06, "C07": c07, "C08": c08, "C11": c11, "C12": c12, "C13": c13, "C14": c14, "C15": c15, "C16": c16, "C17": c17, "C19": c19}
for _k, _f in _tmp.items():
    PROPS[_k] = {"fn": _f, "level": "other", "explanation": "tbd", "assumptions": []}

NOT_APPLICABLE = {
    "C18": "plot vertices are produced at run time by Qhull (HalfspaceIntersection), a Chebyshev-centre LP and atan2 sorting; exactness, "
    "completeness and degenerate-slice behaviour are properties of those numerical results. The only source-level facts (sign/limit pairing, "
    "column swap, input guards) are a thin fringe whose correctness does not make the vertex set right, so a static pass would say nothing "
    "about the property (DESIGN.md section 4).",
}
for _p in ("C04", "C07", "C09", "C10", "C11", "C12", "C13", "C14", "C17", "C19"):
    NOT_APPLICABLE.setdefault(_p, "check under construction in this session (design in DESIGN.md section 3); will be claimed once its rules run green on the pinned tree")
