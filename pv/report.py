"""Check context: rule instances, findings, known-finding matching, evidence, exit status."""
from __future__ import annotations

import json
import os
import time
from typing import Any, Dict, List, Optional

HERE = os.path.dirname(os.path.abspath(__file__))
VERIF = os.path.dirname(HERE)
EVIDENCE_DIR = os.path.join(VERIF, "evidence")
KNOWN_FILE = os.path.join(VERIF, "known_findings.json")


def load_known() -> List[dict]:
    if not os.path.exists(KNOWN_FILE):
        return []
    with open(KNOWN_FILE) as fh:
        data = json.load(fh)
    return data.get("findings", [])


class Ctx:
    def __init__(self, prog, prop: str, tier: str = "quick", seed: int = 0, quiet: bool = False):
        self.prog = prog
        self.prop = prop
        self.tier = tier
        self.seed = seed
        self.quiet = quiet
        self.instances: List[dict] = []
        self.violations: List[dict] = []
        self.undecided: List[dict] = []
        self.notes: List[str] = []
        self.samples: List[Any] = []
        self.extra: Dict[str, Any] = {}
        self.assumptions: List[str] = []
        self.t0 = time.time()
        self.rules_run: List[str] = []
        self.floors: List[dict] = []

    # ---- recording ---------------------------------------------------------
    def _rule_summary(self) -> List[dict]:
        """Per rule: how many obligations, how many held, which functions of /repo were read."""
        by: Dict[str, dict] = {}
        for i in self.instances:
            r = by.setdefault(i["rule"], {"rule": i["rule"], "obligations": 0, "held": 0, "functions": set()})
            r["obligations"] += 1
            r["held"] += 1 if i["status"] == "ok" else 0
            r["functions"].add(i["function"])
        out = []
        for k in sorted(by):
            r = by[k]
            out.append({"rule": r["rule"], "obligations": r["obligations"], "held": r["held"], "functions": sorted(r["functions"])[:40]})
        return out

    def ok(self, rule: str, func: str, construct: str, detail: Optional[str] = None, nontrivial: bool = True) -> None:
        self.instances.append(
            {"rule": rule, "function": func, "construct": construct, "status": "ok", "detail": detail, "nontrivial": nontrivial}
        )

    def violation(self, rule: str, func: str, construct: str, message: str, data: Optional[dict] = None, where: str = "") -> None:
        rec = {
            "property": self.prop,
            "rule": rule,
            "function": func,
            "construct": construct,
            "message": message,
            "where": where,
            "data": data or {},
        }
        # the same construct reported through several paths is one finding
        for v in self.violations:
            if (v["rule"], v["function"], v["construct"]) == (rule, func, construct):
                v.setdefault("also", []).append(message)
                return
        self.violations.append(rec)
        self.instances.append(
            {"rule": rule, "function": func, "construct": construct, "status": "violated", "detail": message, "nontrivial": True}
        )

    def cannot_decide(self, rule: str, func: str, construct: str, message: str, where: str = "") -> None:
        self.undecided.append(
            {"property": self.prop, "rule": rule, "function": func, "construct": construct, "message": message, "where": where}
        )

    def sample(self, obj: Any) -> None:
        if len(self.samples) < 12:
            self.samples.append(obj)

    def floor(self, what: str, count: int, minimum: int) -> None:
        """Instance floor: a rule that matches fewer sites than confirmed by hand is analysis-broken."""
        self.floors.append({"what": what, "count": count, "floor": minimum})
        if count < minimum:
            self.cannot_decide("floor", "-", what, "instance count %d below the confirmed floor %d" % (count, minimum))

    # ---- finishing ---------------------------------------------------------
    def finish(self, level: str, explanation: str, trusted_base: Optional[List[str]] = None, write: bool = True) -> int:
        known = load_known()
        unmatched = []
        matched = []
        for v in self.violations:
            hit = None
            for k in known:
                if (
                    k.get("property") == self.prop
                    and k.get("rule") == v["rule"]
                    and k.get("function") == v["function"]
                    and k.get("construct") == v["construct"]
                ):
                    hit = k
                    break
            if hit is not None:
                matched.append((v, hit))
            else:
                unmatched.append(v)
        status = 0
        lines = []
        for v, k in matched:
            lines.append("KNOWN-FINDING: property=%s %s" % (self.prop, k.get("what_fails", v["message"])))
        if unmatched:
            status = 1
            os.makedirs(os.path.join(EVIDENCE_DIR, "violations"), exist_ok=True)
            for i, v in enumerate(unmatched):
                path = os.path.join(EVIDENCE_DIR, "violations", "%s-%d.json" % (self.prop, i))
                if write:
                    with open(path, "w") as fh:
                        json.dump(v, fh, indent=1, default=str)
                lines.append("VIOLATION property=%s replay=%s" % (self.prop, path))
                lines.append(
                    "  rule=%s function=%s %s\n  construct: %s\n  %s"
                    % (v["rule"], v["function"], v.get("where", ""), v["construct"], v["message"])
                )
        elif self.undecided:
            status = 2
            for u in self.undecided:
                lines.append(
                    "ANALYSIS-ERROR property=%s rule=%s function=%s construct=%s: %s"
                    % (self.prop, u["rule"], u["function"], u["construct"], u["message"])
                )
        wall = time.time() - self.t0
        n_inst = len(self.instances)
        distinct = len({(i["rule"], i["function"], i["construct"]) for i in self.instances if i.get("nontrivial")})
        n_ok = sum(1 for i in self.instances if i["status"] == "ok")
        cov: Dict[str, Any] = {
            "explanation": explanation,
            "evaluations": n_inst,
            "distinct_nontrivial": distinct,
            "rule": "one evaluation = one rule instance (an obligation at a named construct of /repo/src/pacti); "
            "distinct_nontrivial counts distinct (rule, function, construct) triples whose obligation is not vacuous",
            "samples": self.samples[:12] if self.samples else [i for i in self.instances[:6]],
            "obligations": n_inst,
            "discharged": n_ok,
            "checker_cmd": "/venv/bin/python -m pv check %s --tier %s" % (self.prop, self.tier),
            "trusted_base": trusted_base
            or ["python ast module", "pv resolver + CFG builder", "rule/spec tables in pv/ (transcribed from the property text and docstrings)"],
            "rules_run": self._rule_summary(),
            "floors": self.floors,
            "source_digest": self.prog.digest if self.prog is not None else "",
            "modules_analysed": len(self.prog.modules) if self.prog is not None else 0,
            "functions_indexed": (len(self.prog.funcs) + len(self.prog.lambdas)) if self.prog is not None else 0,
            "known_findings_matched": [v["construct"] for v, _k in matched],
            "undecided": self.undecided,
            "exhaustive": False,
        }
        cov.update(self.extra)
        ev = {
            "property_id": self.prop,
            "tier": self.tier,
            "seed": self.seed,
            "level": level,
            "coverage": cov,
            "assumptions": self.assumptions,
            "wall_s": round(wall, 3),
            "violations": len(unmatched),
            "exit_status": status,
        }
        if write:
            os.makedirs(EVIDENCE_DIR, exist_ok=True)
            with open(os.path.join(EVIDENCE_DIR, "%s.json" % self.prop), "w") as fh:
                json.dump(ev, fh, indent=1, default=str)
        if not self.quiet:
            print(
                "pv %s tier=%s: %d rule instances (%d ok), %d violation(s) [%d known], %d undecided, %.2fs"
                % (self.prop, self.tier, n_inst, n_ok, len(self.violations), len(matched), len(self.undecided), wall)
            )
            for ln in lines:
                print(ln)
        self.status = status
        self.unmatched = unmatched
        self.matched = matched
        return status
