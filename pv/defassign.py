"""Definite assignment on the statement CFG: a read of a local name on some path on which nothing has bound it yet.

Python raises UnboundLocalError (a NameError) there - an undocumented exception that only shows on the inputs that take
that path (the error branch of a try, the `else` side of a flag).  The analysis is a forward must-analysis:
IN[n] = intersection of what the predecessors certainly bound.  Choices made to stay free of false alarms:
  * loops are assumed to run at least once (a variable bound in a loop body counts as bound after the loop): whether a
    sequence can be empty is a data question no shape of the code answers;
  * an exception edge out of a statement carries what was bound BEFORE the statement;
  * two `if`s with the same test text whose names are not re-bound in between are correlated: a name bound under the
    first and read under the second is fine;
  * nested functions / lambdas / comprehensions have their own scope (their free variables are looked up when called).
"""
from __future__ import annotations

import ast
from typing import Dict, List, Optional, Set, Tuple

from .cfg import CFG, ExcTable
from .loader import norm


def _targets(t: ast.AST) -> Set[str]:
    out = set()
    for x in ast.walk(t):
        if isinstance(x, ast.Name) and isinstance(x.ctx, (ast.Store, ast.Del)):
            out.add(x.id)
    return out


def _own_nodes(root: ast.AST):
    """walk without entering nested scopes (def / lambda / class); comprehensions are entered but their targets are
    reported separately by _reads"""
    st = [root]
    while st:
        n = st.pop()
        yield n
        for ch in ast.iter_child_nodes(n):
            if isinstance(ch, (ast.FunctionDef, ast.AsyncFunctionDef, ast.Lambda, ast.ClassDef)):
                continue
            st.append(ch)


def locals_of(fn: ast.AST) -> Set[str]:
    names: Set[str] = set()
    declared: Set[str] = set()
    for n in _own_nodes(fn):
        if n is fn:
            continue
        if isinstance(n, (ast.Global, ast.Nonlocal)):
            declared |= set(n.names)
        elif isinstance(n, ast.Name) and isinstance(n.ctx, ast.Store):
            names.add(n.id)
        elif isinstance(n, ast.ExceptHandler) and n.name:
            names.add(n.name)
        elif isinstance(n, (ast.Import, ast.ImportFrom)):
            for a in n.names:
                names.add((a.asname or a.name).split(".")[0])
    for ch in ast.walk(fn):
        if ch is not fn and isinstance(ch, (ast.FunctionDef, ast.ClassDef)):
            pass
    # names bound only inside comprehensions are not function locals
    comp_only: Set[str] = set()
    for n in _own_nodes(fn):
        if isinstance(n, (ast.ListComp, ast.SetComp, ast.DictComp, ast.GeneratorExp)):
            for g in n.generators:
                comp_only |= _targets(g.target)
    outside: Set[str] = set()

    def rec(n: ast.AST, in_comp: bool) -> None:
        for ch in ast.iter_child_nodes(n):
            if isinstance(ch, (ast.FunctionDef, ast.AsyncFunctionDef, ast.Lambda, ast.ClassDef)):
                if isinstance(ch, (ast.FunctionDef, ast.ClassDef)):
                    outside.add(ch.name)
                continue
            ic = in_comp or isinstance(ch, (ast.ListComp, ast.SetComp, ast.DictComp, ast.GeneratorExp))
            if isinstance(ch, ast.Name) and isinstance(ch.ctx, ast.Store) and not ic:
                outside.add(ch.id)
            if isinstance(ch, ast.NamedExpr) and isinstance(ch.target, ast.Name):
                outside.add(ch.target.id)  # a walrus binds in the enclosing function even inside a comprehension
            rec(ch, ic)

    rec(fn, False)
    for n in _own_nodes(fn):
        if isinstance(n, ast.ExceptHandler) and n.name:
            outside.add(n.name)
        if isinstance(n, (ast.Import, ast.ImportFrom)):
            for a in n.names:
                outside.add((a.asname or a.name).split(".")[0])
    return (outside) - declared


def _reads(expr: Optional[ast.AST], bound: Set[str] = frozenset()) -> List[ast.Name]:
    """Name loads in an expression, not counting names bound by an enclosing comprehension / skipping nested scopes."""
    out: List[ast.Name] = []
    if expr is None:
        return out

    def rec(n: ast.AST, bound: Set[str]) -> None:
        if isinstance(n, (ast.Lambda, ast.FunctionDef, ast.AsyncFunctionDef, ast.ClassDef)):
            return
        if isinstance(n, (ast.ListComp, ast.SetComp, ast.DictComp, ast.GeneratorExp)):
            b = set(bound)
            for g in n.generators:
                rec(g.iter, b)
                b |= _targets(g.target)
                for c in g.ifs:
                    rec(c, b)
                    # a walrus in a filter binds its name for the rest of the comprehension (and the element)
                    b |= {x.target.id for x in ast.walk(c) if isinstance(x, ast.NamedExpr) and isinstance(x.target, ast.Name)}
            if isinstance(n, ast.DictComp):
                rec(n.key, b)
                rec(n.value, b)
            else:
                rec(n.elt, b)
            return
        if isinstance(n, ast.Name) and isinstance(n.ctx, ast.Load) and n.id not in bound:
            out.append(n)
        for ch in ast.iter_child_nodes(n):
            rec(ch, bound)

    rec(expr, set(bound))
    return out


def _node_reads_defs(node) -> Tuple[List[ast.Name], Set[str]]:
    a = node.ast
    k = node.kind
    if a is None:
        return [], set()
    if k == "test":
        return _reads(a), {x.target.id for x in ast.walk(a) if isinstance(x, ast.NamedExpr) and isinstance(x.target, ast.Name)}
    if k == "for":
        return _reads(a), set()  # the target is bound on the `iter` edge
    if k == "handler":
        return [], ({a.name} if a.name else set())
    if k in ("return", "raise", "assert"):
        rs: List[ast.Name] = []
        for f in ("value", "exc", "cause", "test", "msg"):
            rs += _reads(getattr(a, f, None))
        return rs, set()
    # simple statements (and `with`, whose node carries the whole statement: only its items are read here)
    if isinstance(a, ast.With):
        rs = []
        ds: Set[str] = set()
        for it in a.items:
            rs += _reads(it.context_expr)
            if it.optional_vars is not None:
                ds |= _targets(it.optional_vars)
        return rs, ds
    if isinstance(a, ast.Assign):
        rs = _reads(a.value)
        ds = set()
        for t in a.targets:
            ds |= {x.id for x in ast.walk(t) if isinstance(x, ast.Name) and isinstance(x.ctx, ast.Store)}
            rs += [x for x in _reads(t)]
        return rs, ds
    if isinstance(a, ast.AnnAssign):
        rs = _reads(a.value) + (_reads(a.target) if not isinstance(a.target, ast.Name) else [])
        return rs, ({a.target.id} if isinstance(a.target, ast.Name) and a.value is not None else set())
    if isinstance(a, ast.AugAssign):
        rs = _reads(a.value)
        if isinstance(a.target, ast.Name):
            n = ast.Name(id=a.target.id, ctx=ast.Load())
            ast.copy_location(n, a.target)
            n._origin = a.target  # the node in the tree (for the questions about enclosing statements)
            rs.append(n)
            return rs, {a.target.id}
        return rs + _reads(a.target), set()
    if isinstance(a, (ast.FunctionDef, ast.ClassDef)):
        return [], {a.name}
    if isinstance(a, (ast.Import, ast.ImportFrom)):
        return [], {(x.asname or x.name).split(".")[0] for x in a.names}
    if isinstance(a, ast.Delete):
        return [], set()
    ds = {x.target.id for x in ast.walk(a) if isinstance(x, ast.NamedExpr) and isinstance(x.target, ast.Name)}
    return _reads(a), ds


def possibly_unbound(fn: ast.AST, exc: Optional[ExcTable] = None) -> List[Tuple[str, int, str]]:
    """[(name, line, how)] for reads of a local that some path reaches without a binding."""
    if isinstance(fn, ast.Lambda):
        return []
    cfg = CFG(fn, exc)
    loc = locals_of(fn)
    a = fn.args
    params = {x.arg for x in a.posonlyargs + a.args + a.kwonlyargs}
    if a.vararg:
        params.add(a.vararg.arg)
    if a.kwarg:
        params.add(a.kwarg.arg)
    loc |= params
    info = {n.id: _node_reads_defs(n) for n in cfg.nodes}
    ALL = frozenset(loc)
    IN: Dict[int, frozenset] = {n.id: ALL for n in cfg.nodes}
    OUT: Dict[int, frozenset] = {n.id: ALL for n in cfg.nodes}
    IN[cfg.entry] = frozenset(params)
    OUT[cfg.entry] = frozenset(params)
    # loops run at least once: the exit edge of a loop head ("done" for `for`, "false" for `while`) is fed by the
    # back edges only when there are any
    loop_heads = {n.id for n in cfg.nodes if n.kind == "for" or (n.kind == "test" and isinstance(n.owner, ast.While))}

    def head_body_nodes(h: int) -> Set[int]:
        owner = cfg.nodes[h].owner
        ids = set()
        for st in ast.walk(owner):
            nid = cfg.by_ast.get(id(st))
            if nid is not None and nid != h:
                ids.add(nid)
        return ids

    body_of = {h: head_body_nodes(h) for h in loop_heads}
    exit_out: Dict[int, frozenset] = {}
    changed = True
    it = 0
    while changed and it < 200:
        changed = False
        it += 1
        for n in cfg.nodes:
            if n.id == cfg.entry:
                continue
            acc = None
            for (p, lab) in cfg.pred[n.id]:
                if lab in ("exc",):
                    v = IN[p]  # the statement may not have completed
                elif lab in ("raise", "assert_fail"):
                    v = IN[p]
                elif p in loop_heads and lab in ("done", "false"):
                    v = exit_out.get(p, OUT[p])
                elif cfg.nodes[p].kind == "for" and lab == "iter":
                    v = OUT[p] | frozenset(_targets(cfg.nodes[p].owner.target))
                else:
                    v = OUT[p]
                acc = v if acc is None else (acc & v)
            if acc is None:
                acc = ALL  # unreachable
            if acc != IN[n.id]:
                IN[n.id] = acc
                changed = True
            o = acc | frozenset(info[n.id][1])
            if o != OUT[n.id]:
                OUT[n.id] = o
                changed = True
            if n.id in loop_heads:
                backs = [OUT[p] for (p, lab) in cfg.pred[n.id] if p in body_of[n.id]]
                eo = None
                for v in backs:
                    eo = v if eo is None else (eo & v)
                eo = o if eo is None else (eo | frozenset(info[n.id][1]))
                if exit_out.get(n.id) != eo:
                    exit_out[n.id] = eo
                    changed = True
    reach = cfg.reachable()
    out: List[Tuple[str, int, str]] = []
    for n in cfg.nodes:
        if n.id not in reach:
            continue
        for rd in info[n.id][0]:
            if rd.id in loc and rd.id not in IN[n.id]:
                if _correlated(fn, rd, cfg):
                    continue
                out.append((rd.id, getattr(rd, "lineno", 0), norm(n.ast)[:70] if n.ast is not None else ""))
    return sorted(set(out))


def _enclosing_ifs(fn: ast.AST, target: ast.AST) -> List[Tuple[ast.If, bool]]:
    """the chain of (if statement, in-body?) around a node"""
    chain: List[Tuple[ast.If, bool]] = []

    def rec(n: ast.AST, acc) -> bool:
        if n is target:
            chain.extend(acc)
            return True
        for f, v in ast.iter_fields(n):
            vs = v if isinstance(v, list) else [v]
            for ch in vs:
                if not isinstance(ch, ast.AST):
                    continue
                a2 = acc
                if isinstance(n, ast.If) and f in ("body", "orelse"):
                    a2 = acc + [(n, f == "body")]
                if rec(ch, a2):
                    return True
        return False

    rec(fn, [])
    return chain


def _binding_sites(fn: ast.AST, name: str) -> List[ast.AST]:
    return [x for x in _own_nodes(fn) if isinstance(x, ast.Name) and isinstance(x.ctx, ast.Store) and x.id == name]


def _enclosing(fn: ast.AST, target: ast.AST, kinds) -> List[ast.AST]:
    """statements of the given kinds around a node, outermost first"""
    chain: List[ast.AST] = []

    def rec(n: ast.AST, acc) -> bool:
        if n is target:
            chain.extend(acc)
            return True
        for ch in ast.iter_child_nodes(n):
            if rec(ch, acc + [n] if isinstance(n, kinds) else acc):
                return True
        return False

    rec(fn, [])
    return chain


def _correlated(fn: ast.AST, rd: ast.Name, cfg: CFG) -> bool:
    """Reasons for NOT reporting a read the plain analysis finds unbound - patterns in which the routes the analysis
    worries about may be infeasible, which no shape of the code decides:
    (1) the read sits under `if T` and an earlier `if T` (same text, names of T not re-bound in between) binds the name;
    (2) flag idiom: the read is guarded by a test over a name that is assigned in the same branch as a binding;
    (3) first-iteration idiom: the read is in a loop body and the same loop body binds the name under some condition;
    (4) case analysis: the name is bound under two or more sibling `if` statements (their tests may be exhaustive)."""
    rd = getattr(rd, "_origin", rd)
    binds = _binding_sites(fn, rd.id)
    ifs_rd = _enclosing(fn, rd, (ast.If,))

    def branch_of(c: ast.If, node: ast.AST) -> Optional[str]:
        for name in ("body", "orelse"):
            if any(node is x for st in getattr(c, name) for x in ast.walk(st)):
                return name
        return None

    def own_ifs(b):
        """the `if`s around a binding that are not around the read as well (or hold it in their other branch)"""
        return [c for c in _enclosing(fn, b, (ast.If,)) if not any(c is d for d in ifs_rd) or branch_of(c, b) != branch_of(c, rd)]

    # (3)
    loops_rd = _enclosing(fn, rd, (ast.For, ast.While))
    for b in binds:
        if b is rd:
            continue
        if any(l in _enclosing(fn, b, (ast.For, ast.While)) for l in loops_rd) and own_ifs(b):
            return True
    # (2)
    guards = {x.id for c in _enclosing(fn, rd, (ast.If, ast.While)) for x in ast.walk(c.test) if isinstance(x, ast.Name)}
    for b in binds:
        for c in _enclosing(fn, b, (ast.If,)):
            for branch in (c.body, c.orelse):
                if any(b is x for st in branch for x in ast.walk(st)):
                    stored = {x.id for st in branch for x in ast.walk(st) if isinstance(x, ast.Name) and isinstance(x.ctx, ast.Store)}
                    if stored & guards:
                        return True
    # (4)
    cond_owners = []
    for b in binds:
        ifs = own_ifs(b)
        if ifs:
            cond_owners.append(ifs[-1])
    if len({id(c) for c in cond_owners}) >= 2:
        return True
    here = _enclosing_ifs(fn, rd)
    if not here:
        return False
    for (cond, side) in here:
        key = norm(cond.test)
        tnames = {x.id for x in ast.walk(cond.test) if isinstance(x, ast.Name)}
        for other in ast.walk(fn):
            if isinstance(other, ast.If) and other is not cond and norm(other.test) == key and other.lineno < cond.lineno:
                branch = other.body if side else other.orelse
                binds = set()
                for st in branch:
                    binds |= {x.id for x in ast.walk(st) if isinstance(x, ast.Name) and isinstance(x.ctx, ast.Store)}
                if rd.id not in binds:
                    continue
                # names of the test not re-bound between the two ifs
                rebound = False
                for x in ast.walk(fn):
                    if isinstance(x, ast.Name) and isinstance(x.ctx, ast.Store) and x.id in tnames and other.lineno < x.lineno < cond.lineno:
                        rebound = True
                if not rebound:
                    return True
    return False


def undefined_globals(fn: ast.AST, module_names: Set[str]) -> List[Tuple[str, int]]:
    """Name loads that are neither locals of the function (or of an enclosing function), nor names of the module, nor
    builtins: NameError when reached."""
    import builtins

    loc = locals_of(fn) if not isinstance(fn, ast.Lambda) else set()
    a = fn.args
    loc |= {x.arg for x in a.posonlyargs + a.args + a.kwonlyargs} | ({a.vararg.arg} if a.vararg else set()) | ({a.kwarg.arg} if a.kwarg else set())
    out = []
    body = fn.body if isinstance(fn.body, list) else [fn.body]
    for st in body:
        for rd in _reads(st):
            if rd.id not in loc and rd.id not in module_names and not hasattr(builtins, rd.id):
                out.append((rd.id, getattr(rd, "lineno", 0)))
    return sorted(set(out))
