"""Shape rules: equality / hash / copy coherence (C19) and the quantifier shapes of compound contracts (C17)."""
from __future__ import annotations

import ast
from typing import Any, Dict, List, Optional, Set, Tuple

from .flow import Flow
from .loader import AnalysisError, ClassInfo, FuncInfo, Program, norm
from .pathsim import PPath, Sim, const, is_const, mentions, show, walk
from .report import Ctx

EQ_CLASSES = ["Var", "TermList", "PolyhedralTerm", "IoContract", "IoContractCompound"]


def state_fields(prog: Program, cname: str) -> List[str]:
    """Fields stored on self by the constructor (following the class's MRO to the first __init__)."""
    init = prog.resolve_method(cname, "__init__")
    if init is None:
        ci = prog.cls(cname)
        return [n for n, _d in ci.fields]
    out: List[str] = []
    me = init.params[0]
    for node in ast.walk(init.node):
        tgts = []
        if isinstance(node, ast.Assign):
            tgts = node.targets
        elif isinstance(node, ast.AnnAssign):
            tgts = [node.target]
        for t in tgts:
            if isinstance(t, ast.Attribute) and isinstance(t.value, ast.Name) and t.value.id == me and t.attr not in out:
                out.append(t.attr)
    return out


def property_field(prog: Program, cname: str, attr: str) -> str:
    """`name` -> `_name` when `name` is a property returning self._name."""
    fi = prog.resolve_method(cname, attr)
    if fi is not None and fi.kind == "property":
        rets = [n for n in ast.walk(fi.node) if isinstance(n, ast.Return)]
        if len(rets) == 1 and isinstance(rets[0].value, ast.Attribute) and isinstance(rets[0].value.value, ast.Name):
            return rets[0].value.attr
    return attr


def attrs_on(fn: ast.AST, name: str) -> Set[str]:
    return {n.attr for n in ast.walk(fn) if isinstance(n, ast.Attribute) and isinstance(n.value, ast.Name) and n.value.id == name}


def _list_eq_law(ctx: Ctx, rule: str) -> None:
    """== on constraint lists, run by the kernel interpreter on small lists: equal exactly when they hold the same
    terms in the same positions - in particular never for lists of different lengths (a comparison over the common
    prefix makes the empty list equal to everything, while the hashes differ)."""
    from .termalg import DictV, Key, ListV, Raised, Rec, TermAlg, num, sym
    from .termalg import Undecidable as _Und

    prog = ctx.prog
    fi = prog.resolve_method("PolyhedralTermList", "__eq__")
    if fi is None:
        return
    construct = "PolyhedralTermList.__eq__: equal iff the same terms in the same positions (lists of different lengths differ)"
    x, y = Key("x"), Key("y")

    def term(cx, cy, c):
        d = {}
        if cx:
            d[x] = num(cx)
        if cy:
            d[y] = num(cy)
        return Rec("PolyhedralTerm", {"variables": DictV(d), "constant": num(c)})

    def tl(ts):
        return Rec("PolyhedralTermList", {"terms": ListV(list(ts))})

    t1, t2, t3 = (1, 0, 4), (-1, 0, 0), (1, 1, 7)
    cases = [
        ([t1, t2], [t1, t2], True, "two copies of [t1, t2]"),
        ([], [], True, "two empty lists"),
        ([t1], [t1, t2], False, "[t1] and [t1, t2] (a strict prefix)"),
        ([t1, t2], [t1], False, "[t1, t2] and [t1]"),
        ([], [t1], False, "the empty list and [t1]"),
        ([t1], [], False, "[t1] and the empty list"),
        ([t1, t2], [t1, t3], False, "[t1, t2] and [t1, t3]"),
        ([t1, t2], [t2, t1], False, "[t1, t2] and [t2, t1] (order is part of the list)"),
    ]
    try:
        for a, b, want, label in cases:
            ta = TermAlg(prog)
            r = ta.call(fi, [tl(term(*t) for t in b)], {}, self_val=tl(term(*t) for t in a))
            got = ta.truth(r)
            if got is not want:
                ctx.violation(rule, fi.key, construct, "%s compare %s" % (label, "equal" if got else "unequal"), where=fi.where)
                return
    except Raised as r_:
        ctx.violation(rule, fi.key, construct, "raises %s on two constraint lists" % r_.cls, where=fi.where)
        return
    except (AnalysisError, _Und) as ex:
        ctx.cannot_decide(rule, fi.key, construct, str(ex))
        return
    ctx.ok(rule, fi.key, construct)


def rule_eq(ctx: Ctx, rule: str = "eq-fields") -> None:
    """C19 E1/E2/E5: __eq__ compares every state field of self with the same field of other (never a field with
    itself), combines the comparisons by conjunction, and guards the operand type the same way everywhere."""
    prog = ctx.prog
    n = 0
    for cname in EQ_CLASSES:
        ci = prog.cls(cname)
        fi = ci.methods.get("__eq__")
        if fi is None:
            ctx.cannot_decide(rule, cname + ".__eq__", "__eq__", "anchor vanished")
            continue
        me, ot = fi.params[0], fi.params[1]
        fields = [f for f in state_fields(prog, cname) if f not in const_initialised_fields(prog, cname)]
        # E1: no self-vs-self / other-vs-other comparison
        for node in ast.walk(fi.node):
            pairs = []
            if isinstance(node, ast.Compare) and len(node.ops) == 1 and isinstance(node.ops[0], (ast.Eq, ast.NotEq)):
                pairs.append((node.left, node.comparators[0], node))
            if isinstance(node, ast.Call) and norm(node.func).endswith("equal") and len(node.args) == 2:
                pairs.append((node.args[0], node.args[1], node))
            for l, r, nd in pairs:
                rl, rr = _root(l), _root(r)
                if rl in (me, ot) and rr in (me, ot):
                    n += 1
                    construct = "%s.__eq__: `%s` relates a field of self with the same field of other" % (cname, norm(nd)[:70])
                    fl, fr = _first_attr(l), _first_attr(r)
                    if rl == rr:
                        ctx.violation(rule, fi.key, "%s.__eq__ compares self with other, field by field" % cname, "`%s` compares %s with itself" % (norm(nd), rl), where="%s:%d" % (fi.module.relpath, nd.lineno))
                    elif fl != fr:
                        ctx.violation(rule, fi.key, "%s.__eq__ compares self with other, field by field" % cname, "`%s` relates different fields" % norm(nd), where="%s:%d" % (fi.module.relpath, nd.lineno))
                    else:
                        ctx.ok(rule, fi.key, construct)
        # E2: every state field is looked at on both operands
        seen_self = {property_field(prog, cname, a) for a in attrs_on(fi.node, me)}
        seen_other = {property_field(prog, cname, a) for a in attrs_on(fi.node, ot)}
        for f in fields:
            construct = "%s.__eq__ takes field %s of both operands into account" % (cname, f)
            missing = [w for w, s in (("self", seen_self), ("other", seen_other)) if f not in s]
            if missing:
                ctx.violation(rule, fi.key, construct, "field %s of %s is never read" % (f, " and ".join(missing)), where=fi.where)
            else:
                ctx.ok(rule, fi.key, construct)
        # conjunction only: the answer is True exactly when every elementary comparison holds (truth table over the
        # comparisons met on the paths; the syntactic test - no `or`, no `!=` - is the fallback)
        construct = "%s.__eq__ combines the field comparisons by conjunction" % cname
        verdict = _eq_is_conjunction(prog, fi)
        if verdict is None:
            bad = [nd for nd in ast.walk(fi.node) if (isinstance(nd, ast.BoolOp) and isinstance(nd.op, ast.Or)) or (isinstance(nd, ast.Compare) and any(isinstance(o, ast.NotEq) for o in nd.ops))]
            verdict = "uses `%s`" % norm(bad[0])[:80] if bad else ""
        if verdict:
            ctx.violation(rule, fi.key, construct, verdict, where=fi.where)
        else:
            ctx.ok(rule, fi.key, construct)
        # a dictionary field is compared key by key (or as a whole): its values detached from their keys say nothing
        dfs = dict_fields(prog, cname)
        if dfs:
            construct = "%s.__eq__ compares the entries of a dictionary field under their keys" % cname
            loose = [
                nd
                for nd in ast.walk(fi.node)
                if isinstance(nd, ast.Call) and isinstance(nd.func, ast.Attribute) and nd.func.attr == "values" and isinstance(nd.func.value, ast.Attribute) and nd.func.value.attr in dfs and _root(nd.func.value) in (me, ot)
            ]
            if loose:
                ctx.violation(rule, fi.key, construct, "`%s` takes the values without their keys: two terms with the same variables and permuted coefficients compare equal" % norm(loose[0])[:60], where=fi.where)
            else:
                ctx.ok(rule, fi.key, construct)
        # exact comparison: a tolerance makes equality non-transitive and lets `self - context` remove a term that is
        # only *nearly* in the context (C07)
        construct = "%s.__eq__ compares exactly (no tolerance)" % cname
        tol = [nd for nd in ast.walk(fi.node) if isinstance(nd, ast.Call) and norm(nd.func).split(".")[-1] in ("isclose", "allclose", "approx", "round", "around")]
        if tol:
            ctx.violation(rule, fi.key, construct, "uses `%s`: equality with a tolerance is not transitive, and syntactic list difference would drop terms that are merely close" % norm(tol[0])[:70], where=fi.where)
        else:
            ctx.ok(rule, fi.key, construct, nontrivial=False)
        # E5: type guard
        construct = "%s.__eq__ rejects operands of another type the same way (isinstance(other, type(self)))" % cname
        guards = [nd for nd in ast.walk(fi.node) if isinstance(nd, ast.Call) and isinstance(nd.func, ast.Name) and nd.func.id == "isinstance"]
        okg = any(norm(g).replace(" ", "") == "isinstance(%s,type(%s))" % (ot, me) for g in guards)
        (ctx.ok(rule, fi.key, construct, nontrivial=False) if okg else ctx.violation(rule, fi.key, construct, "guards: %s" % [norm(g) for g in guards], where=fi.where))
    ctx.floor("field comparisons in __eq__ methods", n, 8)
    _list_eq_law(ctx, rule)
    # NestedTermList: semantic equality = mutual <=
    fi = prog.func("NestedTermList.__eq__")
    ps = [p for p in Sim(prog, fi, assume=lambda v: const(True) if isinstance(v, tuple) and v[0] == "call" and v[1] == "isinstance" else None).paths() if p.terminal == "return"]
    construct = "NestedTermList.__eq__ is mutual <="
    okc = False
    if len(ps) == 1:
        v = ps[0].value
        me, ot = ("param", fi.params[0]), ("param", fi.params[1])
        if v[0] == "boolop" and v[1] == "And" and set(v[2]) == {("cmp", "LtE", me, ot), ("cmp", "LtE", ot, me)}:
            okc = True
    (ctx.ok(rule, fi.key, construct) if okc else ctx.violation(rule, fi.key, construct, "returns %s" % (show(ps[0].value, 4) if ps else "?"), where=fi.where))


def _eq_is_conjunction(prog: Program, fi: FuncInfo) -> Optional[str]:
    """'' if __eq__ returns True exactly when all its elementary comparisons hold, a reason if not, None if the
    function is outside what the truth table can follow."""
    from itertools import product

    try:
        ps = Sim(prog, fi, loop_iters=(0, 1, 2), assume=lambda v: const(True) if isinstance(v, tuple) and v and v[0] == "call" and v[1] == "isinstance" else None).paths()
    except AnalysisError:
        return None
    ps = [p for p in ps if p.terminal == "return"]
    if not ps:
        return None

    def atom_of(v):
        """(atom, positive) for an elementary comparison, else None"""
        if isinstance(v, tuple) and v and v[0] == "cmp" and v[1] in ("Eq", "NotEq"):
            return ("eq", frozenset([v[2], v[3]])), v[1] == "Eq"
        if isinstance(v, tuple) and v and v[0] == "call" and str(v[1]).endswith("equal") and len(v[2]) == 2:
            return ("eq", frozenset(v[2])), True
        return None

    atoms: List[Any] = []

    def collect(v):
        a = atom_of(v)
        if a is not None:
            if a[0] not in atoms:
                atoms.append(a[0])
            return True
        if is_const(v) and isinstance(v[1], bool):
            return True
        if isinstance(v, tuple) and v and v[0] == "boolop":
            return all(collect(x) for x in v[2])
        if isinstance(v, tuple) and v and v[0] == "un" and v[1] == "Not":
            return collect(v[2])
        if isinstance(v, tuple) and v and v[0] == "call" and v[1] == "bool" and len(v[2]) == 1:
            return collect(v[2][0])
        return False

    def ev(v, env):
        a = atom_of(v)
        if a is not None:
            return env[a[0]] == a[1]
        if is_const(v):
            return bool(v[1])
        if v[0] == "boolop":
            vals = [ev(x, env) for x in v[2]]
            return all(vals) if v[1] == "And" else any(vals)
        if v[0] == "un":
            return not ev(v[2], env)
        return ev(v[2][0], env)

    # one scenario per choice of loop lengths (the number of coefficients is data, not a decision of the function)
    sig = {id(p): tuple((t, c) for (t, c) in p.decisions if t.startswith("loop@")) for p in ps}
    sigs = set(sig.values())
    maximal = [g for g in sigs if not any(g != h and h[: len(g)] == g for h in sigs)]
    groups: Dict[Any, List[PPath]] = {g: [p for p in ps if g[: len(sig[id(p)])] == sig[id(p)]] for g in maximal}
    for _k, gps in sorted(groups.items(), key=lambda kv: repr(kv[0])):
        atoms.clear()
        forms = []
        for p in gps:
            lits = [(e["test"], e["taken"]) for e in p.events if e["kind"] == "branch" and e["func"] == fi.key]
            if p.value is None or not collect(p.value) or not all(collect(t) for t, _ in lits):
                return None
            forms.append((lits, p.value))
        if not atoms or len(atoms) > 10:
            return None
        for vals in product([True, False], repeat=len(atoms)):
            env = dict(zip(atoms, vals))
            got = any(all(ev(t, env) == taken for t, taken in lits) and ev(rv, env) for lits, rv in forms)
            if got != all(vals):
                which = [show(tuple(a[1])[0], 3) for a, x in zip(atoms, vals) if not x]
                return "answers %s when %s" % (got, "every comparison holds" if all(vals) else "the comparison(s) on %s fail" % which)
    return ""


def _root(e: ast.AST) -> Optional[str]:
    while isinstance(e, (ast.Attribute, ast.Subscript, ast.Call)):
        e = e.value if not isinstance(e, ast.Call) else e.func
    return e.id if isinstance(e, ast.Name) else None


def _first_attr(e: ast.AST) -> Optional[str]:
    chain = []
    while isinstance(e, (ast.Attribute, ast.Subscript, ast.Call)):
        if isinstance(e, ast.Attribute):
            chain.append(e.attr)
            e = e.value
        elif isinstance(e, ast.Subscript):
            e = e.value
        else:
            e = e.func
    return chain[-1] if chain else None


def const_initialised_fields(prog: Program, cname: str) -> Set[str]:
    """Fields the constructor sets to a literal (caches / flags), not derived from its arguments."""
    init = prog.resolve_method(cname, "__init__")
    out: Set[str] = set()
    if init is None:
        return out
    me = init.params[0]
    for node in ast.walk(init.node):
        tg, val = None, None
        if isinstance(node, ast.Assign):
            tg, val = node.targets[0], node.value
        elif isinstance(node, ast.AnnAssign):
            tg, val = node.target, node.value
        if isinstance(tg, ast.Attribute) and isinstance(tg.value, ast.Name) and tg.value.id == me and isinstance(val, ast.Constant):
            out.add(tg.attr)
    return out


def cache_field_is_sound(prog: Program, cname: str, field: str, compared: Set[str]) -> Optional[str]:
    """A memo field read by __hash__ is sound only if it is written nowhere but (a) the constructor (literal) and
    (b) __hash__ itself from compared state.  Returns a reason if it is not."""
    for fi in prog.all_functions():
        if isinstance(fi.node, ast.Lambda):
            continue
        for node in ast.walk(fi.node):
            tgts = node.targets if isinstance(node, ast.Assign) else [node.target] if isinstance(node, (ast.AugAssign, ast.AnnAssign)) else []
            for t in tgts:
                if isinstance(t, ast.Attribute) and t.attr == field:
                    if fi.cls is not None and fi.cls.name == cname and fi.name == "__init__" and isinstance(getattr(node, "value", None), ast.Constant):
                        continue
                    if fi.cls is not None and fi.cls.name == cname and fi.name == "__hash__" and isinstance(t.value, ast.Name) and t.value.id == fi.params[0]:
                        continue
                    return "%s writes .%s (`%s`): a memoised hash that travels with / survives later in-place edits goes stale" % (fi.key, field, norm(node)[:70])
    # every method that assigns compared state in place must drop the memo
    for fi in prog.all_functions():
        if isinstance(fi.node, ast.Lambda) or fi.cls is None or fi.name == "__init__" or not fi.params:
            continue
        if not (fi.cls.name == cname or prog.is_subclass(fi.cls.name, cname)):
            continue
        me = fi.params[0]
        writes, resets = [], False
        for node in ast.walk(fi.node):
            tgts = node.targets if isinstance(node, ast.Assign) else [node.target] if isinstance(node, (ast.AugAssign, ast.AnnAssign)) else []
            for t in tgts:
                if isinstance(t, ast.Attribute) and isinstance(t.value, ast.Name) and t.value.id == me:
                    if t.attr in compared:
                        writes.append(norm(node)[:60])
                    if t.attr == field and isinstance(getattr(node, "value", None), ast.Constant) and node.value.value is None:
                        resets = True
        if writes and not resets:
            return "%s assigns compared state in place (`%s`) and leaves the memoised hash .%s as it was: an object hashed before the call keeps a stale hash" % (fi.key, writes[0], field)
    return None


def rule_hash(ctx: Ctx, rule: str = "hash-fields") -> None:
    """C19 E3: wherever __eq__ is defined and instances are hashed, __hash__ is defined and reads only state that
    __eq__ compares (so equal objects hash equally)."""
    prog = ctx.prog
    for cname in ["Var", "PolyhedralTerm", "PolyhedralTermList", "IoContract"]:
        fi = prog.resolve_method(cname, "__hash__")
        construct = "%s defines __hash__ next to __eq__" % cname
        if fi is None or not fi.body or isinstance(fi.body[-1], ast.Expr):
            ctx.violation(rule, cname + ".__hash__", construct, "no concrete __hash__", where=prog.cls(cname).module.relpath)
            continue
        ctx.ok(rule, fi.key, construct, nontrivial=False)
        me = fi.params[0]
        used = set(attrs_on(fi.node, me))
        # str(self) pulls in what __str__ reads
        for nd in ast.walk(fi.node):
            if isinstance(nd, ast.Call) and isinstance(nd.func, ast.Name) and nd.func.id in ("str", "repr") and nd.args and isinstance(nd.args[0], ast.Name) and nd.args[0].id == me:
                sfi = prog.resolve_method(cname, "__str__" if nd.func.id == "str" else "__repr__")
                if sfi is not None:
                    used |= attrs_on(sfi.node, sfi.params[0])
        used = {property_field(prog, cname, a) for a in used}
        eqf = prog.resolve_method(cname, "__eq__")
        compared = {property_field(prog, cname, a) for a in attrs_on(eqf.node, eqf.params[0])} if eqf is not None else set()
        fields = set(state_fields(prog, cname))
        construct = "%s.__hash__ depends only on state that __eq__ compares" % cname
        extra = {u for u in used if u in fields and u not in compared}
        caches = const_initialised_fields(prog, cname)
        for u in sorted(extra & caches):
            why = cache_field_is_sound(prog, cname, u, compared)
            if why is None:
                extra.discard(u)
            else:
                ctx.violation(rule, fi.key, "%s.__hash__ memo field %s is only written by the constructor and by __hash__" % (cname, u), why, where=fi.where)
                extra.discard(u)
        ident = [nd for nd in ast.walk(fi.node) if isinstance(nd, ast.Call) and isinstance(nd.func, ast.Name) and nd.func.id == "id"]
        if extra or ident:
            ctx.violation(rule, fi.key, construct, "hash reads %s" % (sorted(extra) or "object identity"), where=fi.where)
        elif not (used & fields):
            ctx.violation(rule, fi.key, construct, "hash reads no state field at all (%s)" % sorted(used), where=fi.where)
        else:
            ctx.ok(rule, fi.key, construct)


def dict_fields(prog: Program, cname: str) -> Set[str]:
    """State fields the constructor fills with a dictionary (a dict display / dict() / a local built as one)."""
    init = prog.resolve_method(cname, "__init__")
    out: Set[str] = set()
    if init is None:
        return out
    me = init.params[0]
    fl = Flow(init.node)

    def is_dict(e: ast.AST, depth: int = 0) -> bool:
        if isinstance(e, (ast.Dict, ast.DictComp)):
            return True
        if isinstance(e, ast.Call) and isinstance(e.func, ast.Name) and e.func.id == "dict":
            return True
        if isinstance(e, ast.Name) and depth < 3:
            return any(is_dict(d, depth + 1) for d in fl.defs.get(e.id, []))
        if isinstance(e, ast.Call) and isinstance(e.func, ast.Name) and depth < 3:
            # a helper of the package that is declared to return a dictionary
            g = prog.resolve_name(init.module, e.func.id)
            if g is not None and g.__class__.__name__ == "FuncInfo" and getattr(g.node, "returns", None) is not None:
                t_ = norm(g.node.returns)
                return t_.startswith(("Dict", "dict", "typing.Dict", "Mapping", "MutableMapping"))
        return False

    for node in ast.walk(init.node):
        tg, val, ann = None, None, None
        if isinstance(node, ast.Assign):
            tg, val = node.targets[0], node.value
        elif isinstance(node, ast.AnnAssign):
            tg, val, ann = node.target, node.value, node.annotation
        if isinstance(tg, ast.Attribute) and isinstance(tg.value, ast.Name) and tg.value.id == me and val is not None:
            declared = ann is not None and norm(ann).startswith(("Dict", "dict", "typing.Dict"))
            if is_dict(val) or declared:
                out.add(tg.attr)
    return out


_ORDER_FREE = {"sorted", "frozenset", "set", "sum", "min", "max", "len", "any", "all", "dict", "Counter"}


def _ordered_dict_uses(fn: ast.AST, me: str, fields: Set[str]) -> List[ast.AST]:
    """Expressions in fn that expose the iteration (= insertion) order of self.<dict field> to what is computed:
    views / iterations not wrapped in an order-free consumer and not sorted afterwards."""
    parents: Dict[ast.AST, ast.AST] = {}
    for nd in ast.walk(fn):
        for ch in ast.iter_child_nodes(nd):
            parents[ch] = nd
    sorted_locals = {
        nd.func.value.id
        for nd in ast.walk(fn)
        if isinstance(nd, ast.Call) and isinstance(nd.func, ast.Attribute) and nd.func.attr == "sort" and isinstance(nd.func.value, ast.Name)
    }

    def is_field(e: ast.AST) -> bool:
        return isinstance(e, ast.Attribute) and isinstance(e.value, ast.Name) and e.value.id == me and e.attr in fields

    out = []
    for nd in ast.walk(fn):
        view = None
        if isinstance(nd, ast.Call) and isinstance(nd.func, ast.Attribute) and nd.func.attr in ("items", "keys", "values") and is_field(nd.func.value):
            view = nd
        elif is_field(nd):
            par = parents.get(nd)
            if isinstance(par, (ast.For, ast.comprehension)) and par.iter is nd:
                view = nd
            elif isinstance(par, ast.Call) and nd in par.args and isinstance(par.func, ast.Name) and par.func.id in ("list", "tuple", "str", "repr", "iter", "enumerate", "zip", "map", "hash"):
                view = nd
            elif isinstance(par, ast.Starred):
                view = nd
        if view is None:
            continue
        # climb: an order-free consumer anywhere above (within the statement) neutralises the order
        cur: ast.AST = view
        neutral = False
        stmt = None
        while cur in parents:
            par = parents[cur]
            if isinstance(par, ast.Call) and isinstance(par.func, ast.Name) and par.func.id in _ORDER_FREE and cur in par.args:
                neutral = True
                break
            if isinstance(par, ast.Compare) and isinstance(cur, ast.Call) and isinstance(cur.func, ast.Attribute) and cur.func.attr in ("keys", "items") and cur is view:
                neutral = True  # dict views compare as sets
                break
            if isinstance(par, (ast.DictComp, ast.SetComp)):
                neutral = True
                break
            if isinstance(par, ast.stmt):
                stmt = par
                break
            cur = par
        if neutral:
            continue
        if isinstance(stmt, ast.Assign) and len(stmt.targets) == 1 and isinstance(stmt.targets[0], ast.Name) and stmt.targets[0].id in sorted_locals:
            continue
        if isinstance(stmt, ast.AnnAssign) and isinstance(stmt.target, ast.Name) and stmt.target.id in sorted_locals:
            continue
        out.append(view)
    return out


def rule_hash_order(ctx: Ctx, rule: str = "hash-order") -> None:
    """C19: == on a dictionary field ignores insertion order, so __hash__ (and the __str__/__repr__ it hashes) must
    not expose the iteration order of that field: equal objects built in a different order would hash differently."""
    prog = ctx.prog
    n = 0
    for cname in ["PolyhedralTerm"]:
        fields = dict_fields(prog, cname)
        fi = prog.resolve_method(cname, "__hash__")
        eqf = prog.resolve_method(cname, "__eq__")
        construct = "%s.__hash__ does not depend on the insertion order of a dictionary field" % cname
        if fi is None or eqf is None:
            ctx.cannot_decide(rule, cname + ".__hash__", construct, "anchor vanished")
            continue
        if not fields:
            ctx.cannot_decide(rule, fi.key, construct, "no dictionary state field found in the constructor of %s" % cname)
            continue
        # is == itself order-insensitive on these fields?  (a list()/tuple() of a view compared with == would not be)
        eq_ordered = [
            nd
            for nd in ast.walk(eqf.node)
            if isinstance(nd, ast.Compare)
            for side in [nd.left] + list(nd.comparators)
            if isinstance(side, ast.Call) and isinstance(side.func, ast.Name) and side.func.id in ("list", "tuple", "str") and any(isinstance(x, ast.Attribute) and x.attr in fields for x in ast.walk(side))
        ]
        if eq_ordered:
            ctx.cannot_decide(rule, fi.key, construct, "__eq__ itself compares an ordered rendering of the field (%s)" % norm(eq_ordered[0])[:60])
            continue
        roots = [(fi, fi.params[0])]
        for nd in ast.walk(fi.node):
            if isinstance(nd, ast.Call) and isinstance(nd.func, ast.Name) and nd.func.id in ("str", "repr") and nd.args and isinstance(nd.args[0], ast.Name) and nd.args[0].id == fi.params[0]:
                sfi = prog.resolve_method(cname, "__str__" if nd.func.id == "str" else "__repr__")
                if sfi is not None:
                    roots.append((sfi, sfi.params[0]))
        bad = []
        for f, me in roots:
            n += 1
            for v in _ordered_dict_uses(f.node, me, fields):
                bad.append("%s in %s" % (norm(v)[:50], f.key))
        if bad:
            ctx.violation(rule, fi.key, construct, "the hash is computed from %s in iteration order, while == compares the dictionary as a mapping" % "; ".join(sorted(set(bad))), where=fi.where)
        else:
            ctx.ok(rule, fi.key, construct + " (%s)" % ", ".join(f.key for f, _ in roots))
    ctx.floor("hash-order functions inspected", n, 1)


def float_fields(prog: Program, cname: str) -> Set[str]:
    """State fields the constructor fills with float(<something>) without filtering zero: they can hold -0.0."""
    init = prog.resolve_method(cname, "__init__")
    out: Set[str] = set()
    if init is None:
        return out
    me = init.params[0]
    for node in ast.walk(init.node):
        tg, val = None, None
        if isinstance(node, ast.Assign):
            tg, val = node.targets[0], node.value
        elif isinstance(node, ast.AnnAssign):
            tg, val = node.target, node.value
        if isinstance(tg, ast.Attribute) and isinstance(tg.value, ast.Name) and tg.value.id == me and isinstance(val, ast.Call) and isinstance(val.func, ast.Name) and val.func.id == "float":
            out.add(tg.attr)
    return out


def _text_of_field(fn: ast.AST, me: str, fields: Set[str]) -> List[ast.AST]:
    """Places in fn where a float field of self is turned into text: str(self.f), '%s' % self.f, '{}'.format(self.f),
    f'{self.f}', repr(self.f)."""

    def is_field(e: ast.AST) -> bool:
        return isinstance(e, ast.Attribute) and isinstance(e.value, ast.Name) and e.value.id == me and e.attr in fields

    out: List[ast.AST] = []
    for nd in ast.walk(fn):
        if isinstance(nd, ast.Call) and isinstance(nd.func, ast.Name) and nd.func.id in ("str", "repr", "format") and nd.args and is_field(nd.args[0]):
            out.append(nd)
        elif isinstance(nd, ast.FormattedValue) and is_field(nd.value):
            out.append(nd)
        elif isinstance(nd, ast.Call) and isinstance(nd.func, ast.Attribute) and nd.func.attr == "format" and any(is_field(a) for a in nd.args):
            out.append(nd)
        elif isinstance(nd, ast.BinOp) and isinstance(nd.op, ast.Mod) and (is_field(nd.right) or (isinstance(nd.right, ast.Tuple) and any(is_field(a) for a in nd.right.elts))):
            out.append(nd)
    return out


def rule_hash_number_text(ctx: Ctx, rule: str = "hash-number-text") -> None:
    """C19: == compares a float field numerically (0.0 == -0.0), so __hash__ must hash the number, not its text
    ('0.0' != '-0.0'): a float field that the constructor stores unfiltered must not reach the hash through str()."""
    prog = ctx.prog
    n = 0
    for cname in ["PolyhedralTerm"]:
        fi = prog.resolve_method(cname, "__hash__")
        eqf = prog.resolve_method(cname, "__eq__")
        construct = "%s.__hash__ hashes numbers as numbers (equal constants 0.0 / -0.0 hash equally)" % cname
        if fi is None or eqf is None:
            ctx.cannot_decide(rule, cname + ".__hash__", construct, "anchor vanished")
            continue
        ff = float_fields(prog, cname)
        compared = {property_field(prog, cname, a) for a in attrs_on(eqf.node, eqf.params[0])}
        ff &= compared
        if not ff:
            ctx.cannot_decide(rule, fi.key, construct, "no float state field found that __eq__ compares")
            continue
        roots = [(fi, fi.params[0])]
        for nd in ast.walk(fi.node):
            via = None
            if isinstance(nd, ast.Call) and isinstance(nd.func, ast.Name) and nd.func.id in ("str", "repr") and nd.args and isinstance(nd.args[0], ast.Name) and nd.args[0].id == fi.params[0]:
                via = "__str__" if nd.func.id == "str" else "__repr__"
            if isinstance(nd, ast.FormattedValue) and isinstance(nd.value, ast.Name) and nd.value.id == fi.params[0]:
                via = "__str__"
            if via:
                sfi = prog.resolve_method(cname, via)
                if sfi is not None:
                    roots.append((sfi, sfi.params[0]))
        bad = []
        for f, me in roots:
            n += 1
            for site in _text_of_field(f.node, me, ff):
                bad.append("%s in %s" % (norm(site)[:40], f.key))
        if bad:
            ctx.violation(rule, fi.key, construct, "the hash is computed from the text of a float field (%s); a constant of -0.0 (e.g. from 'x >= 0' or multiply(-1)) equals 0.0 but prints differently" % "; ".join(sorted(set(bad))), where=fi.where)
        else:
            ctx.ok(rule, fi.key, construct)
    ctx.floor("hash-number-text functions inspected", n, 1)


def rule_default_simplification(ctx: Ctx, rule: str = "default-simplification") -> None:
    """C19: copy() rebuilds a contract with the default simplification, so a contract equals its copy only if it was
    itself built that way: no method that returns a contract may switch the constructor's simplification off on its own
    (forwarding the caller's `simplify` argument is the caller's choice)."""
    prog = ctx.prog
    n = 0
    for cname in ("IoContract", "PolyhedralIoContract"):
        ci = prog.cls(cname)
        for mname, fi in sorted(ci.methods.items()):
            if isinstance(fi.node, ast.Lambda) or mname == "__init__":
                continue
            for node in ast.walk(fi.node):
                if not isinstance(node, ast.Call):
                    continue
                f = node.func
                is_ctor = (isinstance(f, ast.Call) and isinstance(f.func, ast.Name) and f.func.id == "type") or (isinstance(f, ast.Name) and f.id in prog.classes and "IoContract" in f.id and "Compound" not in f.id)
                if not is_ctor:
                    continue
                n += 1
                construct = "%s builds its result with the default simplification (or the caller's flag)" % fi.key
                flag = None
                for kw in node.keywords:
                    if kw.arg == "simplify":
                        flag = kw.value
                if flag is None and len(node.args) >= 5:
                    flag = node.args[4]
                if flag is None or (isinstance(flag, ast.Constant) and flag.value is True) or (isinstance(flag, ast.Name) and flag.id in fi.params):
                    ctx.ok(rule, fi.key, construct, nontrivial=False)
                elif isinstance(flag, ast.Constant) and flag.value is False:
                    ctx.violation(rule, fi.key, construct, "`%s` switches the simplification off: the result differs from its own copy() (and from the same contract built from its parts) whenever a guarantee is redundant" % norm(node)[:80], where="%s:%d" % (fi.module.relpath, node.lineno))
                else:
                    ctx.cannot_decide(rule, fi.key, construct, "simplify=%s" % norm(flag))
    ctx.floor("constructor calls in contract methods", n, 5)


def rule_termlist_rename(ctx: Ctx, rule: str = "rename") -> None:
    """C16: TermList.rename_variable renames every term and keeps every term (a term whose variables cancel reads
    0 <= c and still means something when c < 0)."""
    from .rules_poly import _comp_element

    prog = ctx.prog
    fi = prog.func("TermList.rename_variable")
    construct = "TermList.rename_variable: every term is renamed and kept"
    ps = [p for p in Sim(prog, fi).paths() if p.terminal == "return"]
    if len(ps) != 1:
        ctx.cannot_decide(rule, fi.key, construct, "%d returning paths" % len(ps))
        return
    v = ps[0].value
    args = list(v[2]) + [x for _k, x in v[3]] if isinstance(v, tuple) and v and v[0] in ("call", "new") else []
    filt = [x for x in walk(v) if isinstance(x, tuple) and x and x[0] == "listcomp" and any(g[1] for g in x[2])]
    me = ("param", fi.params[0])
    if filt:
        conds = [show(c, 3) for x in filt for g in x[2] for c in g[1]]
        ctx.violation(rule, fi.key, construct, "renamed terms are filtered by %s: a term whose variables cancel (0 <= c) is dropped although it is unsatisfiable for c < 0" % conds, where=fi.where)
        return
    ce = _comp_element(args[0]) if args else None
    if ce is None:
        ctx.cannot_decide(rule, fi.key, construct, "result is %s" % show(v, 4))
        return
    elt, base = ce
    okc = base == ("attr", me, "terms") and isinstance(elt, tuple) and elt[0] == "mcall" and elt[1] == "rename_variable" and isinstance(elt[2], tuple) and elt[2][0] == "iter" and list(elt[3]) == [("param", fi.params[1]), ("param", fi.params[2])]
    (ctx.ok(rule, fi.key, construct) if okc else ctx.violation(rule, fi.key, construct, "element is %s over %s" % (show(elt, 4), show(base, 3)), where=fi.where))


def rule_copy(ctx: Ctx, rule: str = "copy-fields") -> None:
    """C19 E4: copy() hands a copy of every state field to the constructor in the right slot."""
    prog = ctx.prog
    # contracts: through the algebra interpreter
    from .algebra import operand
    from .rules_algebra import _strip
    from .symalg import Interp, Obj, TL, VS, explore

    for cname in ("IoContract", "PolyhedralIoContract"):
        fi = prog.resolve_method(cname, "copy")

        def setup(it: Interp, cname=cname, fi=fi):
            s = operand(it, cname, "self", "A1", "G1", "sI", "sO")
            return lambda: it.call_function(fi, [], {}, self_val=s)

        for p in explore(prog, setup):
            if p.terminal != "return":
                continue
            res = p.value
            A = p.atoms.masks
            construct = "%s.copy(): same interface and constraint lists, through the constructor" % cname
            okc = isinstance(res, Obj)
            if okc:
                iv, ov, a, g = (res.fields.get(k) for k in ("inputvars", "outputvars", "a", "g"))
                okc = (
                    isinstance(iv, VS)
                    and isinstance(ov, VS)
                    and isinstance(a, TL)
                    and isinstance(g, TL)
                    and not ((iv.tt ^ A["sI"]) & p.allowed)
                    and not ((ov.tt ^ A["sO"]) & p.allowed)
                    and _strip(p.prov, a.n) == ("leaf", "A1")
                    and _strip(p.prov, g.n) == ("leaf", "G1")
                )
            (ctx.ok(rule, fi.key, construct) if okc else ctx.violation(rule, fi.key, construct, "fields of the copy differ from the original", where=fi.where))
    # lists
    for key, attr in (("TermList.copy", "terms"), ("NestedTermList.copy", "nested_termlist")):
        fi = prog.func(key)
        ps = [p for p in Sim(prog, fi).paths() if p.terminal == "return"]
        construct = "%s builds a new list from copies of every element" % key
        okc = len(ps) == 1
        if okc:
            v = ps[0].value
            args = list(v[2] if v[0] == "call" else v[2]) if v[0] in ("call", "new") else []
            okc = bool(args) and args[0][0] == "listcomp"
            if okc:
                elt, gens = args[0][1], args[0][2]
                okc = len(gens) == 1 and gens[0][0] == ("attr", ("param", fi.params[0]), attr) and not gens[0][1] and elt[0] == "mcall" and elt[1] == "copy" and elt[2][0] == "iter"
        (ctx.ok(rule, key, construct) if okc else ctx.violation(rule, key, construct, "unexpected shape %s" % (show(ps[0].value, 4) if ps else "?"), where=fi.where))


# --------------------------------------------------------------------- C17
def _is_param_attr(v, param: str, attr: str) -> bool:
    return v == ("attr", ("param", param), attr)


def _iter_index(v, param: str, attr: str):
    """index i if v is the element of the i-th iteration over <param>.<attr>, else None."""
    if isinstance(v, tuple) and len(v) == 4 and v[0] == "iter" and _is_param_attr(v[1], param, attr):
        return v[3]
    return None


def _loop_counts(p: PPath) -> List[int]:
    return [c for (t, c) in p.decisions if t.startswith("loop@")]


def rule_nested_contains(ctx: Ctx, rule: str = "nested-exists") -> None:
    """C17: NestedTermList.contains_behavior is an existential over the alternatives (assumption-driven: every truth
    assignment to 'alternative i contains the behaviour', 0..2 alternatives)."""
    from itertools import product

    prog = ctx.prog
    fi = prog.func("NestedTermList.contains_behavior")
    me, beh = fi.params[0], fi.params[1]
    n = 0
    for answers in product([False, True], repeat=2):

        def extra(v, answers=answers):
            if isinstance(v, tuple) and v[0] == "mcall" and v[1] == "contains_behavior":
                i = _iter_index(v[2], me, "nested_termlist")
                if i is not None and i < 2 and list(v[3]) + [x for _k, x in v[4]] == [("param", beh)]:
                    return const(answers[i])
            return None

        ps = Sim(prog, fi, loop_iters=(0, 1, 2), assume=extra).paths()
        for p in ps:
            cnt = _loop_counts(p)
            k = cnt[0] if cnt else 0
            want = any(answers[:k])
            n += 1
            construct = "nested contains_behavior: True iff some alternative contains the behaviour"
            def settle(v, extra=extra):
                """the returned value with the assumed answers put in (bool(x) of a known x folded)"""
                r = extra(v) if isinstance(v, tuple) else None
                if r is not None:
                    return r
                if isinstance(v, tuple) and v and v[0] == "call" and v[1] == "bool" and len(v[2]) == 1:
                    x = settle(v[2][0])
                    return const(bool(x[1])) if is_const(x) else v
                return v

            if p.terminal == "return" and settle(p.value) == const(want):
                ctx.ok(rule, fi.key, construct + " @ %d alternatives %s" % (k, list(answers[:k])), nontrivial=k > 0)
            else:
                got = show(p.value, 2) if p.terminal == "return" else "raise " + str(p.exc_cls)
                ctx.violation(rule, fi.key, construct, "with %d alternative(s) answering %s the result is %s (path %s)" % (k, list(answers[:k]), got, p.label()[:80]), where=fi.where)
    # an unassigned variable (ValueError of an alternative) surfaces as ValueError
    ps = Sim(prog, fi, loop_iters=(1,), raises=lambda c, v: ["ValueError"] if c == ".contains_behavior" else []).paths()
    outs = {(p.terminal, p.exc_cls) for p in ps if any(e.get("raised") for e in p.events if e["kind"] == "call")}
    construct = "nested contains_behavior: an unassigned variable surfaces as ValueError"
    if outs == {("raise", "ValueError")}:
        ctx.ok(rule, fi.key, construct)
    else:
        ctx.violation(rule, fi.key, construct, "outcomes %s" % sorted(map(str, outs)), where=fi.where)
    ctx.floor("nested contains_behavior evaluations", n, 12)


def rule_nested_le(ctx: Ctx, rule: str = "nested-forall-exists") -> None:
    """C17: NestedTermList.__le__ answers True iff every left alternative is <= some right alternative.  Decided with
    the two lists' lengths fixed (0..2 each) and every truth assignment to 'left i <= right j': the run is then
    deterministic and its answer must be the specification's."""
    from itertools import product

    prog = ctx.prog
    fi = prog.func("NestedTermList.__le__")
    me, ot = fi.params[0], fi.params[1]
    L, R = ("attr", ("param", me), "nested_termlist"), ("attr", ("param", ot), "nested_termlist")
    n = 0
    bad_shape = set()
    construct = "nested <=: True iff every left alternative refines some right alternative"
    verdict = None
    for nl, nr in product(range(3), range(3)):
        for bits in product([False, True], repeat=nl * nr):
            T = [[bits[i * nr + j] for j in range(nr)] for i in range(nl)]

            def extra(v, T=T, nl=nl, nr=nr):
                if isinstance(v, tuple) and v[0] == "call" and v[1] == "isinstance":
                    return const(True)
                if isinstance(v, tuple) and v[0] == "call" and v[1] == "len" and len(v[2]) == 1 and v[2][0] in (L, R):
                    return const(nl if v[2][0] == L else nr)
                if v in (L, R):
                    return None
                if isinstance(v, tuple) and v[0] == "cmp" and v[1] in ("LtE", "GtE"):
                    l, r = (v[2], v[3]) if v[1] == "LtE" else (v[3], v[2])
                    i, j = _iter_index(l, me, "nested_termlist"), _iter_index(r, ot, "nested_termlist")
                    if i is not None and j is not None and i < nl and j < nr:
                        return const(T[i][j])
                    if _iter_index(l, ot, "nested_termlist") is not None or _iter_index(r, me, "nested_termlist") is not None:
                        bad_shape.add(show(v, 3))
                if isinstance(v, tuple) and v[0] == "mcall" and v[1] == "refines":
                    i, j = _iter_index(v[2], me, "nested_termlist"), _iter_index(v[3][0] if v[3] else None, ot, "nested_termlist")
                    if i is not None and j is not None and i < nl and j < nr:
                        return const(T[i][j])
                return None

            ps = Sim(prog, fi, assume=extra, seq_len={L: nl, R: nr}, max_paths=4000).paths()
            want = all(any(T[i][j] for j in range(nr)) for i in range(nl))
            for p in ps:
                if p.terminal != "return":
                    verdict = verdict or ("violation", "raises %s with %d left / %d right alternatives" % (p.exc_cls, nl, nr))
                    continue
                n += 1
                # truthiness tests of the lists themselves (`if not other.nested_termlist`) fork: keep the consistent branch
                consistent = True
                for e in p.events:
                    if e["kind"] == "branch" and e["test"] in (L, R):
                        if e["taken"] != ((nl if e["test"] == L else nr) > 0):
                            consistent = False
                    if e["kind"] == "branch" and e["test"] in (("un", "Not", L), ("un", "Not", R)):
                        if e["taken"] != ((nl if e["test"][2] == L else nr) == 0):
                            consistent = False
                if not consistent:
                    continue
                if not is_const(p.value):
                    verdict = verdict or ("undecided", "the answer %s is not decided by the comparisons (left=%d right=%d)" % (show(p.value, 3), nl, nr))
                elif p.value != const(want):
                    verdict = verdict or ("violation", "with %d left / %d right alternatives and answers left_i<=right_j = %s the result is %s (path %s)" % (nl, nr, T, show(p.value), p.label()[:100]))
    if bad_shape:
        ctx.violation(rule, fi.key, "nested <=: alternatives are compared left <= right", "compares %s" % sorted(bad_shape)[:2], where=fi.where)
    if verdict is None:
        ctx.ok(rule, fi.key, construct + " (%d deterministic runs: lengths 0..2 x 0..2, every answer table)" % n)
    elif verdict[0] == "undecided":
        ctx.cannot_decide(rule, fi.key, construct, verdict[1])
    else:
        ctx.violation(rule, fi.key, construct, verdict[1], where=fi.where)
    ctx.floor("nested <= evaluations", n, 25)


def _nested_intersect_semantic(ctx: Ctx, rule: str, construct: str) -> Optional[bool]:
    """The same question put to the kernel interpreter: two alternatives a side, `|` and is_empty stubbed so that
    the conjunction of alternatives i and j is a record that knows (i, j) and is empty as the scenario says, the
    nested-list constructor stubbed to capture what it is handed.  True / False = decided, None = not followed."""
    from itertools import product

    from .termalg import NONE, ListV, Raised, Rec, TermAlg
    from .termalg import Undecidable as _Und

    prog = ctx.prog
    fi = prog.func("NestedTermList.intersect")
    init = prog.resolve_method("NestedTermList", "__init__")
    orm = prog.resolve_method("PolyhedralTermList", "__or__")
    emp_m = prog.resolve_method("PolyhedralTermList", "is_empty")
    if init is None or orm is None or emp_m is None:
        return None
    allpairs = [(0, 0), (0, 1), (1, 0), (1, 1)]
    n = 0
    for fl in (True, False):
        for answers in product([False, True], repeat=4):
            emp = dict(zip(allpairs, answers))
            seen: Dict[str, Any] = {}

            def or_stub(ta, pos, kw):
                a, b = pos[0], pos[1]
                sa, sb = a.f.get("side"), b.f.get("side")
                if sa is None or sb is None:
                    raise AnalysisError("a conjunction of something that is not an alternative of either side")
                if {sa, sb} != {"self", "other"}:
                    # two alternatives of the same side: whatever becomes of it, it is not a pair of the intersection
                    return Rec("PolyhedralTermList", {"pair": ("two alternatives of %s" % sa, a.f["idx"], b.f["idx"]), "terms": ListV([])})
                i, j = (a.f["idx"], b.f["idx"]) if sa == "self" else (b.f["idx"], a.f["idx"])
                return Rec("PolyhedralTermList", {"pair": (i, j), "terms": ListV([])})

            def emp_stub(ta, pos, kw, emp=emp):
                pr = pos[0].f.get("pair")
                if pr is None:
                    raise AnalysisError("emptiness asked of something that is not the conjunction of one alternative of each side")
                return emp.get(pr, False)

            def init_stub(ta, pos, kw, seen=seen):
                seen["list"] = pos[1] if len(pos) > 1 else kw.get("nested_termlist")
                seen["flag"] = pos[2] if len(pos) > 2 else kw.get("force_empty_intersection")
                pos[0].f["nested_termlist"] = seen["list"]
                return NONE

            stubs = {orm.key: or_stub, emp_m.key: emp_stub, init.key: init_stub}
            for cname in prog.classes:
                if prog.is_subclass(cname, "NestedTermList"):
                    sub_init = prog.resolve_method(cname, "__init__")
                    if sub_init is not None:
                        stubs[sub_init.key] = init_stub
            ta = TermAlg(prog, stubs=stubs)

            def alts(side):
                return Rec("NestedPolyhedra", {"nested_termlist": ListV([Rec("PolyhedralTermList", {"side": side, "idx": k, "terms": ListV([])}) for k in range(2)])})

            try:
                ta.call(fi, [alts("other"), fl], {}, self_val=alts("self"))
            except Raised as r:
                ctx.violation(rule, fi.key, construct, "raises %s (flag %s, empty pairs %s)" % (r.cls, fl, sorted(k for k, x in emp.items() if x)), where=fi.where)
                return False
            except (AnalysisError, _Und, KeyError, AttributeError):
                return None
            n += 1
            lst = seen.get("list")
            kept = [x.f.get("pair") for x in lst.items] if isinstance(lst, ListV) and all(isinstance(x, Rec) for x in lst.items) else None
            want = {k for k, x in emp.items() if not x}
            if kept is None or None in kept or set(kept) != want or len(kept) != len(set(kept)):
                ctx.violation(rule, fi.key, construct, "with force_empty_intersection=%s and non-empty pairs %s the new list holds %s" % (fl, sorted(want), kept), where=fi.where)
                return False
            if seen.get("flag") is not fl:
                ctx.violation(rule, fi.key, construct, "the flag handed to the new list is %r for %r" % (seen.get("flag"), fl), where=fi.where)
                return False
    ctx.ok(rule, fi.key, construct + " (%d runs)" % n)
    return True


def rule_nested_intersect(ctx: Ctx, rule: str = "nested-intersect") -> None:
    """C17: intersect builds the conjunction of every pair (one alternative of each side) and keeps exactly the
    non-empty ones, whatever the flag (assumption-driven: two alternatives a side, every emptiness assignment)."""
    from itertools import product

    prog = ctx.prog
    fi = prog.func("NestedTermList.intersect")
    if _nested_intersect_semantic(ctx, rule, "intersect: the conjunction of each pair of alternatives is kept iff it is not empty") is not None:
        return
    me, ot, flag = fi.params[0], fi.params[1], fi.params[2]
    sides = {("attr", ("param", me), "nested_termlist"): "self", ("attr", ("param", ot), "nested_termlist"): "other"}

    def pair_of(v):
        if isinstance(v, tuple) and v and v[0] == "bin" and v[1] == "BitOr":
            x, y = v[2], v[3]
            if all(isinstance(z, tuple) and len(z) == 4 and z[0] == "iter" and z[1] in sides for z in (x, y)) and {sides[x[1]], sides[y[1]]} == {"self", "other"}:
                if sides[x[1]] == "other":
                    x, y = y, x
                return (x[3], y[3])
        return None

    allpairs = [(0, 0), (0, 1), (1, 0), (1, 1)]
    n = 0
    construct = "intersect: the conjunction of each pair of alternatives is kept iff it is not empty"
    verdict = None
    for fl in (True, False):
        for answers in product([False, True], repeat=4):
            emp = dict(zip(allpairs, answers))
            unknown: List[Any] = []

            def assume(v, emp=emp, fl=fl, unknown=unknown):
                if v == ("param", flag):
                    return const(fl)
                if isinstance(v, tuple) and v[0] == "mcall" and v[1] == "is_empty":
                    pr = pair_of(v[2])
                    if pr is None or pr not in emp:
                        unknown.append(v[2])
                        return None
                    return const(emp[pr])
                return None

            ps = Sim(prog, fi, loop_iters=(2,), assume=assume).paths()
            for p in ps:
                n += 1
                if unknown:
                    verdict = verdict or ("undecided", "an emptiness test is applied to %s, not to the conjunction (|) of one alternative of each side" % show(unknown[0], 4))
                    continue
                if p.terminal != "return":
                    verdict = verdict or ("violation", "raises %s (flag %s, empty pairs %s)" % (p.exc_cls, fl, sorted(k for k, x in emp.items() if x)))
                    continue
                apps = [e for e in p.events if e["kind"] == "call" and e["callee"] == ".append"]
                kept = [pair_of(a["args"][0]) for a in apps]
                want = {k for k, x in emp.items() if not x}
                if not apps and mentions(p.value, lambda x: isinstance(x, tuple) and x and x[0] in ("listcomp", "genexp")):
                    verdict = verdict or ("undecided", "the result list is built by a comprehension (%s), which this rule does not follow" % show(p.value, 3))
                    continue
                if None in kept or set(kept) != want or len(kept) != len(set(kept)):
                    miss = sorted(want - set(k for k in kept if k))
                    extra = sorted(set(k for k in kept if k) - want)
                    verdict = verdict or (
                        "violation",
                        "with force_empty_intersection=%s and non-empty pairs %s: kept %s%s%s"
                        % (fl, sorted(want), [k if k else "?" for k in kept], "; non-empty pair(s) %s dropped" % miss if miss else "", "; empty pair(s) %s kept" % extra if extra else ""),
                    )
                    continue
                v = p.value
                args = list(v[2]) + [x for _k, x in v[3]] if isinstance(v, tuple) and v[0] in ("call", "new") else []
                if not (len(args) == 2 and args[1] in (("param", flag), const(fl)) and (not apps or args[0] == apps[0]["recv"])):
                    verdict = verdict or ("violation", "result is %s" % show(v, 3))
    if verdict is None:
        ctx.ok(rule, fi.key, construct + " (%d runs)" % n)
    elif verdict[0] == "undecided":
        ctx.cannot_decide(rule, fi.key, construct, verdict[1])
    else:
        ctx.violation(rule, fi.key, construct, verdict[1], where=fi.where)
    ctx.floor("intersect paths", n, 32)


def rule_nested_ctor(ctx: Ctx, rule: str = "nested-disjoint") -> None:
    """C17: with force_empty_intersection every pair of distinct alternatives is tested (up to three alternatives are
    followed); a shared behaviour (non-empty conjunction) raises ValueError and nothing else does; without the flag
    nothing is tested; alternatives are stored as copies."""
    prog = ctx.prog
    fi = prog.func("NestedTermList.__init__")
    lst, flag = fi.params[1], fi.params[2]

    def elem_index(v):
        if isinstance(v, tuple) and len(v) == 4 and v[0] == "iter" and v[1] == ("param", lst):
            return v[3]
        if isinstance(v, tuple) and v and v[0] == "sub" and v[1] == ("param", lst) and is_const(v[2]):
            return v[2][1]
        return None

    def pair_of(v):
        """(i, j) if v is  alternative_i | alternative_j  (the conjunction), else None / 'bad'."""
        if isinstance(v, tuple) and v and v[0] == "bin":
            i, j = elem_index(v[2]), elem_index(v[3])
            if i is None or j is None:
                return None
            return ("pair", v[1], tuple(sorted((i, j))))
        return None

    def empties(p):
        out = []
        for e in p.events:
            if e["kind"] == "call" and e["callee"] == ".is_empty":
                out.append(pair_of(e["recv"]))
        return out

    N = 3
    want_pairs = {(0, 1), (0, 2), (1, 2)}

    def full_paths(ps):
        """paths on which every loop over the alternatives ran N times (the consistent 3-alternative run)."""
        out = []
        for p in ps:
            its = _loop_counts(p)
            if its and all(c == N for c in its):
                out.append(p)
        return out

    # 1. all pairs disjoint: every pair is tested, with the conjunction, nothing is raised
    def all_empty(v):
        if v == ("param", flag):
            return const(True)
        if isinstance(v, tuple) and v[0] == "mcall" and v[1] == "is_empty":
            return const(True)
        return None

    three = {("param", lst): N}
    ps = Sim(prog, fi, assume=all_empty, seq_len=three, max_paths=40000).paths()
    fps = [p for p in ps if p.terminal in ("return", "raise")]
    construct = "nested constructor: every pair of distinct alternatives is tested for a shared behaviour"
    if not fps:
        ctx.cannot_decide(rule, fi.key, construct, "no path on which three alternatives are traversed")
    for p in fps:
        tested = empties(p)
        if any(t is None for t in tested):
            ctx.cannot_decide(rule, fi.key, construct, "an emptiness test is applied to something that is not a pair of alternatives")
            continue
        ops = {t[1] for t in tested}
        pairs = {t[2] for t in tested}
        if ops - {"BitOr"}:
            ctx.violation(rule, fi.key, "nested constructor: the conjunction (|) of two alternatives is tested for emptiness", "pairs are combined with %s" % sorted(ops), where=fi.where)
        elif any(i == j for (i, j) in pairs):
            ctx.violation(rule, fi.key, construct, "an alternative is tested against itself (always overlapping)", where=fi.where)
        elif not want_pairs <= pairs:
            ctx.violation(rule, fi.key, construct, "with three alternatives only the pairs %s are tested; %s are not" % (sorted(pairs), sorted(want_pairs - pairs)), where=fi.where)
        elif p.terminal == "raise":
            ctx.violation(rule, fi.key, "nested constructor: disjoint alternatives are accepted", "raises %s although every tested conjunction is empty" % p.exc_cls, where=fi.where)
        else:
            ctx.ok(rule, fi.key, construct)
    # 2. exactly one overlapping pair: ValueError, whichever pair it is
    for bad in sorted(want_pairs):

        def one_overlap(v, bad=bad):
            if v == ("param", flag):
                return const(True)
            if isinstance(v, tuple) and v[0] == "mcall" and v[1] == "is_empty":
                t = pair_of(v[2])
                if t is not None:
                    return const(t[2] != bad)
            return None

        # a path that raises stops early, so the loop counts are fixed to N instead of filtered afterwards
        ps2 = [p for p in Sim(prog, fi, assume=one_overlap, seq_len=three, max_paths=40000).paths()]
        construct = "nested constructor: alternatives %d and %d sharing a behaviour raise ValueError" % bad
        outs = {(p.terminal, p.exc_cls) for p in ps2}
        if outs == {("raise", "ValueError")}:
            ctx.ok(rule, fi.key, construct)
        else:
            ctx.violation(rule, fi.key, construct, "outcomes: %s" % sorted(map(str, outs)), where=fi.where)
    # 3. without the flag nothing is tested or rejected
    ps3 = Sim(prog, fi, loop_iters=(0, 1, 2), assume=lambda v: const(False) if v == ("param", flag) else None).paths()
    construct = "nested constructor: without force_empty_intersection nothing is tested or rejected"
    bad3 = [p for p in ps3 if p.terminal == "raise" or empties(p)]
    (ctx.ok(rule, fi.key, construct) if not bad3 else ctx.violation(rule, fi.key, construct, "path %s tests / raises" % bad3[0].label(), where=fi.where))
    # 4. stored as copies, in order
    construct = "nested constructor stores copies of the alternatives"
    ps4 = [p for p in Sim(prog, fi, loop_iters=(2,), assume=lambda v: const(False) if v == ("param", flag) else None).paths() if p.terminal == "return"]
    okc = bool(ps4)
    why = "no returning path"
    for p in ps4:
        stored = None
        for e in p.events:
            if e["kind"] == "store" and e["target"][0] == "attr" and e["target"][2] == "nested_termlist":
                stored = e["value"]
        apps = [e["args"][0] for e in p.events if e["kind"] == "call" and e["callee"] == ".append"]
        items = None
        if stored is not None and stored[0] == "listcomp":
            elt, gens = stored[1], stored[2]
            if len(gens) == 1 and gens[0][0] == ("param", lst) and not gens[0][1] and elt[0] == "mcall" and elt[1] == "copy" and elem_index(elt[2]) is not None:
                items = "comprehension"
        if items is None and apps:
            if all(a[0] == "mcall" and a[1] == "copy" and elem_index(a[2]) is not None for a in apps) and [elem_index(a[2]) for a in apps] == list(range(len(apps))):
                items = "loop"
        if items is None:
            okc = False
            why = "stored value %s / appended %s" % (show(stored, 3) if stored is not None else None, [show(a, 2) for a in apps])
    (ctx.ok(rule, fi.key, construct) if okc else ctx.violation(rule, fi.key, construct, why, where=fi.where))


def _enumerate_indices(fi: FuncInfo) -> Dict[str, int]:
    out = {}
    k = 0
    for node in ast.walk(fi.node):
        if isinstance(node, ast.For) and isinstance(node.iter, ast.Call) and norm(node.iter.func) == "enumerate" and isinstance(node.target, ast.Tuple) and isinstance(node.target.elts[0], ast.Name):
            out[node.target.elts[0].id] = k
            k += 1
    return out


def rule_compound_merge(ctx: Ctx, rule: str = "compound-merge") -> None:
    """C17: compound merge intersects assumptions (forcing disjointness) and guarantees (not forcing), unions the
    interfaces; from_strings builds assumptions with the disjointness check and guarantees without."""
    prog = ctx.prog
    fi = prog.func("IoContractCompound.merge")
    me, ot = fi.params[0], fi.params[1]
    ps = [p for p in Sim(prog, fi).paths() if p.terminal == "return"]
    construct = "compound merge: intersect(a, force=True), intersect(g, force=False), interface unions"
    okc = len(ps) == 1
    why = "unexpected shape"
    if okc:
        v = ps[0].value
        args = list(v[2]) + [x for _k, x in v[3]] if v[0] in ("call", "new") else []
        if len(args) != 4:
            okc = False
        else:
            a, g, iv, ov = args

            def inter(x, field, force):
                if not (x[0] == "mcall" and x[1] == "intersect" and x[2] == ("attr", ("param", me), field)):
                    return False
                al = list(x[3]) + [y for _k, y in x[4]]
                return al == [("attr", ("param", ot), field), const(force)]

            def uni(x, field):
                return x[0] == "call" and x[1].endswith("list_union") and list(x[2]) == [("attr", ("param", me), field), ("attr", ("param", ot), field)]

            if not inter(a, "a", True):
                okc, why = False, "assumptions are %s" % show(a, 4)
            elif not inter(g, "g", False):
                okc, why = False, "guarantees are %s" % show(g, 4)
            elif not uni(iv, "inputvars") or not uni(ov, "outputvars"):
                okc, why = False, "interfaces are %s / %s" % (show(iv, 3), show(ov, 3))
    (ctx.ok(rule, fi.key, construct) if okc else ctx.violation(rule, fi.key, construct, why, where=fi.where))
    # (the flags from_strings passes are decided on its interpreted run by rule compound-from-strings)
    # compound constructor: copies with the same flags
    fi = prog.func("IoContractCompound.__init__")
    construct = "compound constructor: stores assumptions.copy(True) / guarantees.copy(False)"
    me = fi.params[0]
    n = 0
    for p in Sim(prog, fi).paths():
        if p.terminal != "return":
            continue
        n += 1
        st = {}
        for e in p.events:
            if e["kind"] == "store" and isinstance(e["target"], tuple) and e["target"][0] == "attr" and e["target"][1] == ("param", me) and e["target"][2] in ("a", "g"):
                st[e["target"][2]] = e["value"]

        def is_copy(v, par, flag):
            return isinstance(v, tuple) and v[0] == "mcall" and v[1] == "copy" and v[2] == ("param", par) and list(v[3]) + [y for _k, y in v[4]] == [const(flag)]

        if is_copy(st.get("a"), "assumptions", True) and is_copy(st.get("g"), "guarantees", False):
            ctx.ok(rule, fi.key, construct + " @ " + p.label()[:40])
        else:
            ctx.violation(rule, fi.key, construct, "stores %s" % {k: show(v, 3) for k, v in st.items()}, where=fi.where)
    ctx.floor("compound constructor returning paths", n, 1)


def rule_membership_tests(ctx: Ctx, rule: str = "membership-tests") -> None:
    """C03: the two derived tests of a contract are refinement tests on constraint lists -
    contains_environment(E) = E <= A   and   contains_implementation(M) = (M | A) <= (G | A)."""
    prog = ctx.prog
    UN = {"union"}

    def norm_side(v, me, comp):
        """a side of the comparison as a frozenset of atoms {'component','a','g'} joined by |, else None"""
        if v == ("param", comp):
            return frozenset({"component"})
        if v == ("attr", ("param", me), "a"):
            return frozenset({"a"})
        if v == ("attr", ("param", me), "g"):
            return frozenset({"g"})
        if isinstance(v, tuple) and v and v[0] == "bin" and v[1] == "BitOr":
            l, r = norm_side(v[2], me, comp), norm_side(v[3], me, comp)
            return None if l is None or r is None else l | r
        if isinstance(v, tuple) and v and v[0] == "mcall" and v[1] == "copy" and not v[3]:
            return norm_side(v[2], me, comp)
        return None

    def relation(v, me, comp):
        """(left, right) of  left <= right  whichever way it is written"""
        if isinstance(v, tuple) and v and v[0] == "cmp" and v[1] in ("LtE", "GtE"):
            l, r = norm_side(v[2], me, comp), norm_side(v[3], me, comp)
            return (l, r) if v[1] == "LtE" else (r, l)
        if isinstance(v, tuple) and v and v[0] == "mcall" and v[1] in ("refines", "__le__") and len(v[3]) == 1:
            return (norm_side(v[2], me, comp), norm_side(v[3][0], me, comp))
        return None

    _ = UN
    for name, want, text in (
        ("contains_environment", (frozenset({"component"}), frozenset({"a"})), "component <= assumptions"),
        ("contains_implementation", (frozenset({"component", "a"}), frozenset({"g", "a"})), "(component | assumptions) <= (guarantees | assumptions)"),
    ):
        fi = prog.func("IoContract." + name)
        me, comp = fi.params[0], fi.params[1]
        construct = "%s answers  %s" % (name, text)
        ps = list(Sim(prog, fi).paths())
        rets = [p for p in ps if p.terminal == "return"]
        if not rets or len(rets) != len(ps):
            ctx.violation(rule, fi.key, construct, "not every path returns an answer (%s)" % [p.terminal for p in ps], where=fi.where)
            continue
        bad = None
        for p in rets:
            rel = relation(p.value, me, comp)
            if rel is None or None in rel:
                bad = ("undecided", "returns %s" % show(p.value, 4)) if not is_const(p.value) else ("violation", "returns the constant %r" % (p.value[1],))
            elif rel != want:
                bad = ("violation", "tests %s <= %s" % (" | ".join(sorted(rel[0])), " | ".join(sorted(rel[1]))))
            elif p.value[0] == "cmp" and p.value[1] not in ("LtE", "GtE"):
                bad = ("violation", "compares with %s" % p.value[1])
        if bad is None:
            ctx.ok(rule, fi.key, construct)
        elif bad[0] == "violation":
            ctx.violation(rule, fi.key, construct, bad[1], where=fi.where)
        else:
            # a comparison operator the list class does not define is a definite error, anything else is not read here
            v = rets[0].value
            if isinstance(v, tuple) and v and v[0] == "cmp" and v[1] in ("Lt", "Gt") and prog.resolve_method("TermList", "__lt__") is None and prog.resolve_method("TermList", "__gt__") is None:
                ctx.violation(rule, fi.key, construct, "uses `%s`, which constraint lists do not define (TypeError)" % {"Lt": "<", "Gt": ">"}[v[1]], where=fi.where)
            else:
                ctx.cannot_decide(rule, fi.key, construct, bad[1])


def rule_compound_from_strings(ctx: Ctx, rule: str = "compound-from-strings") -> None:
    """C17: PolyhedralIoContractCompound.from_strings turns every alternative (a list of constraint strings) into one
    constraint list holding the terms of all its strings, keeps the alternatives in order, asks for pairwise-disjoint
    assumption alternatives (force_empty_intersection=True) and not for the guarantees, and wraps the variable names.
    Decided by the kernel interpreter with the parser and the three constructors stubbed out (what is checked is the
    wiring, not the parsing)."""
    from .termalg import DictV, Key, ListV, Raised, Rec, TermAlg, num
    from .termalg import Undecidable as _Und

    prog = ctx.prog
    fi = prog.func("PolyhedralIoContractCompound.from_strings")
    construct = "PolyhedralIoContractCompound.from_strings: one constraint list per alternative, all strings of it, in order"
    S = lambda s: ("str", s)  # noqa: E731
    seen: Dict[str, Any] = {}

    def parse_stub(ta, pos, kw):
        text = pos[0][1] if isinstance(pos[0], tuple) and pos[0][0] == "str" else "?"
        # two terms per string, as an equality would give
        return ListV([Rec("PolyhedralTerm", {"variables": DictV({Key(text + "#1"): num(1)}), "constant": num(0)}), Rec("PolyhedralTerm", {"variables": DictV({Key(text + "#2"): num(1)}), "constant": num(0)})])

    def tl_stub(ta, pos, kw):
        this = pos[0]
        this.f["terms"] = ListV(list(pos[1].items)) if len(pos) > 1 and isinstance(pos[1], ListV) else ListV([])
        return NONE_

    def nested_stub(ta, pos, kw):
        this = pos[0]
        this.f["nested_termlist"] = pos[1] if len(pos) > 1 else kw.get("nested_termlist")
        this.f["force"] = pos[2] if len(pos) > 2 else kw.get("force_empty_intersection")
        return NONE_

    def contract_stub(ta, pos, kw):
        seen["kw"] = dict(kw)
        seen["pos"] = pos
        return NONE_

    from .termalg import NONE as NONE_

    stubs = {"serializer.polyhedral_termlist_from_string": parse_stub}
    for cname, st in (("PolyhedralTermList", tl_stub), ("NestedPolyhedra", nested_stub), ("PolyhedralIoContractCompound", contract_stub)):
        init = prog.resolve_method(cname, "__init__")
        if init is None:
            ctx.cannot_decide(rule, fi.key, construct, "no constructor found for %s" % cname)
            return
        stubs[init.key] = st
    # NestedPolyhedra and the compound contract may share a constructor with their base: dispatch on the receiver's class
    by_key: Dict[str, List] = {}
    for cname, st in (("PolyhedralTermList", tl_stub), ("NestedPolyhedra", nested_stub), ("PolyhedralIoContractCompound", contract_stub)):
        by_key.setdefault(prog.resolve_method(cname, "__init__").key, []).append((cname, st))
    for k, lst in by_key.items():
        def dispatch(ta, pos, kw, lst=lst):
            this = pos[0]
            for cname, st in lst:
                if isinstance(this, Rec) and prog.is_subclass(this.cls, cname):
                    return st(ta, pos, kw)
            return lst[0][1](ta, pos, kw)
        stubs[k] = dispatch
    ta = TermAlg(prog, stubs=stubs)
    A = ListV([ListV([S("a1"), S("a2")]), ListV([S("a3")])])
    G = ListV([ListV([S("g1")]), ListV([S("g2"), S("g3")]), ListV([S("g4")])])
    try:
        ta.call(fi, [A, G, ListV([S("i")]), ListV([S("o")])])
    except Raised as r:
        ctx.violation(rule, fi.key, construct, "raises %s on well-formed arguments" % r.cls, where=fi.where)
        return
    except (AnalysisError, _Und) as ex:
        ctx.cannot_decide(rule, fi.key, construct, str(ex))
        return
    if "kw" not in seen:
        ctx.violation(rule, fi.key, construct, "no compound contract is constructed", where=fi.where)
        return
    kw = seen["kw"]
    names = ["self", "assumptions", "guarantees", "input_vars", "output_vars"]
    for i_, v_ in enumerate(seen["pos"]):
        if i_ < len(names):
            kw.setdefault(names[i_], v_)

    def shape(nested) -> Optional[List[List[str]]]:
        if not isinstance(nested, Rec) or "nested_termlist" not in nested.f or not isinstance(nested.f["nested_termlist"], ListV):
            return None
        out = []
        for tl in nested.f["nested_termlist"].items:
            if not isinstance(tl, Rec) or not isinstance(tl.f.get("terms"), ListV):
                return None
            out.append([k.name for t in tl.f["terms"].items for k in t.f["variables"].d])
        return out

    want_a = [["a1#1", "a1#2", "a2#1", "a2#2"], ["a3#1", "a3#2"]]
    want_g = [["g1#1", "g1#2"], ["g2#1", "g2#2", "g3#1", "g3#2"], ["g4#1", "g4#2"]]
    got_a, got_g = shape(kw.get("assumptions")), shape(kw.get("guarantees"))
    problems = []
    if got_a != want_a:
        problems.append("assumption alternatives [[a1, a2], [a3]] become %s" % got_a)
    if got_g != want_g:
        problems.append("guarantee alternatives [[g1], [g2, g3], [g4]] become %s" % got_g)
    fa = kw["assumptions"].f.get("force") if isinstance(kw.get("assumptions"), Rec) else None
    fg = kw["guarantees"].f.get("force") if isinstance(kw.get("guarantees"), Rec) else None
    if fa is not True:
        problems.append("the assumption alternatives are not required to be pairwise disjoint (force_empty_intersection=%r)" % (fa,))
    if fg is True:
        problems.append("the guarantee alternatives are required to be pairwise disjoint")
    for nm, want in (("input_vars", ["i"]), ("output_vars", ["o"])):
        v = kw.get(nm)
        got = [x.name if isinstance(x, Key) else x for x in v.items] if isinstance(v, ListV) else None
        if got != want:
            problems.append("%s %s become %s" % (nm, want, got))
    if problems:
        ctx.violation(rule, fi.key, construct, "; ".join(problems), where=fi.where)
    else:
        ctx.ok(rule, fi.key, construct)


def rule_no_stale_caches(ctx: Ctx, rule: str = "derived-cache") -> None:
    """C03/C13/C19: the constraint lists, terms and contracts are mutable objects with public fields (`.terms` is
    assigned by the library itself after construction); a value derived from those fields and cached on the instance
    (`functools.cached_property`, `lru_cache` / `cache` on a method) goes stale when the fields change, and whatever is
    computed from it afterwards - the matrix columns of a refinement test - silently ignores the change."""
    prog = ctx.prog
    data_classes = [c for c in prog.classes if c in ("Var",) or prog.is_subclass(c, "TermList") or prog.is_subclass(c, "IoContract") or c in ("PolyhedralTerm", "NestedTermList", "IoContractCompound") or prog.is_subclass(c, "NestedTermList") or prog.is_subclass(c, "IoContractCompound")]
    n = 0
    for cname in sorted(data_classes):
        ci = prog.classes[cname]
        for mname, fi in sorted(ci.methods.items()):
            if isinstance(fi.node, ast.Lambda):
                continue
            n += 1
            decos = [norm(d).split("(")[0].split(".")[-1] for d in fi.node.decorator_list]
            construct = "%s is recomputed from the object's current fields" % fi.key
            caching = [d for d in decos if d in ("cached_property", "lru_cache", "cache")]
            if caching and cname != "Var":
                ctx.violation(rule, fi.key, construct, "@%s keeps the first value for the life of the object, whose fields are assigned after construction: the value goes stale" % caching[0], where=fi.where)
            else:
                ctx.ok(rule, fi.key, construct, nontrivial=False)
    ctx.floor("methods of the data classes read for caching decorators", n, 60)
