"""Canonical rational normal form of arithmetic value trees (field axioms only, no evaluation).

A polynomial is {monomial: Fraction}, a monomial a sorted tuple of (atom, power); a rational function is a
pair (numerator, denominator).  Atoms are any non-arithmetic sub-tree (parameters, attribute reads,
subscripts, call results).  Equality of two rational functions is decided by cross multiplication.
"""
from __future__ import annotations

from fractions import Fraction
from typing import Any, Dict, Optional, Tuple

Poly = Dict[Tuple, Fraction]


def p_const(c) -> Poly:
    c = Fraction(c)
    return {(): c} if c != 0 else {}


def p_atom(a) -> Poly:
    return {((a, 1),): Fraction(1)}


def p_add(a: Poly, b: Poly) -> Poly:
    r = dict(a)
    for m, c in b.items():
        v = r.get(m, Fraction(0)) + c
        if v == 0:
            r.pop(m, None)
        else:
            r[m] = v
    return r


def p_neg(a: Poly) -> Poly:
    return {m: -c for m, c in a.items()}


def _mmul(m1, m2):
    d: Dict[Any, int] = {}
    for a, p in m1 + m2:
        d[a] = d.get(a, 0) + p
    return tuple(sorted(((a, p) for a, p in d.items() if p), key=lambda x: repr(x[0])))


def p_mul(a: Poly, b: Poly) -> Poly:
    r: Poly = {}
    for m1, c1 in a.items():
        for m2, c2 in b.items():
            m = _mmul(m1, m2)
            v = r.get(m, Fraction(0)) + c1 * c2
            if v == 0:
                r.pop(m, None)
            else:
                r[m] = v
    return r


class Rat:
    def __init__(self, num: Poly, den: Optional[Poly] = None):
        self.num = num
        self.den = den if den is not None else p_const(1)

    def __add__(self, o: "Rat") -> "Rat":
        if self.den == o.den:
            return Rat(p_add(self.num, o.num), self.den)
        return Rat(p_add(p_mul(self.num, o.den), p_mul(o.num, self.den)), p_mul(self.den, o.den))

    def __neg__(self) -> "Rat":
        return Rat(p_neg(self.num), self.den)

    def __sub__(self, o: "Rat") -> "Rat":
        return self + (-o)

    def __mul__(self, o: "Rat") -> "Rat":
        return Rat(p_mul(self.num, o.num), p_mul(self.den, o.den))

    def __truediv__(self, o: "Rat") -> "Rat":
        return Rat(p_mul(self.num, o.den), p_mul(self.den, o.num))

    def equals(self, o: "Rat") -> bool:
        return p_add(p_mul(self.num, o.den), p_neg(p_mul(o.num, self.den))) == {}

    def is_zero(self) -> bool:
        return self.num == {}

    def as_const(self) -> Optional[Fraction]:
        if self.num == {}:
            return Fraction(0)
        if set(self.num) == {()} and set(self.den) == {()}:
            return self.num[()] / self.den[()]
        return None

    def sign_const(self) -> Optional[int]:
        c = self.as_const()
        if c is None:
            return None
        return (c > 0) - (c < 0)

    def show(self) -> str:
        from .pathsim import show as vshow

        def ps(p: Poly) -> str:
            if not p:
                return "0"
            parts = []
            for m, c in sorted(p.items(), key=lambda x: repr(x[0])):
                ms = "*".join((vshow(a) if isinstance(a, tuple) else str(a)) + ("^%d" % k if k != 1 else "") for a, k in m)
                if ms:
                    parts.append(("%s*" % c if c != 1 else "") + ms if c != -1 else "-" + ms)
                else:
                    parts.append(str(c))
            return " + ".join(parts)

        if self.den == p_const(1):
            return ps(self.num)
        return "(%s)/(%s)" % (ps(self.num), ps(self.den))


def _poly_sign(p: Poly, signs: Dict[Any, int]) -> Optional[int]:
    """Sign of a polynomial when every atom has a known non-zero sign: determined iff all monomials agree."""
    if not p:
        return 0
    seen = set()
    for m, c in p.items():
        s = 1 if c > 0 else -1
        for a, k in m:
            sa = signs.get(a)
            if sa is None:
                return None
            if k % 2:
                s *= sa
        seen.add(s)
    return seen.pop() if len(seen) == 1 else None


def sign_under(r: "Rat", signs: Dict[Any, int]) -> Optional[int]:
    """Sign of a rational function under sign assumptions on its atoms (None if not determined)."""
    n = _poly_sign(r.num, signs)
    d = _poly_sign(r.den, signs)
    if n is None or d is None or d == 0:
        return None
    return n * d


def to_rat(v: Any, atom_map=None) -> Rat:
    """Value tree -> rational function.  `atom_map(v)` may rewrite a sub-tree to another value tree / Rat first."""
    if atom_map is not None:
        r = atom_map(v)
        if isinstance(r, Rat):
            return r
        if r is not None:
            v = r
    if isinstance(v, tuple) and v:
        k = v[0]
        if k == "const" and isinstance(v[1], (int, float)) and not isinstance(v[1], bool):
            return Rat(p_const(Fraction(v[1]).limit_denominator(10**12) if isinstance(v[1], float) else v[1]))
        if k == "bin":
            op = v[1]
            if op in ("Add", "Sub", "Mult", "Div"):
                l, r = to_rat(v[2], atom_map), to_rat(v[3], atom_map)
                if op == "Add":
                    return l + r
                if op == "Sub":
                    return l - r
                if op == "Mult":
                    return l * r
                return l / r
        if k == "un" and v[1] == "USub":
            return -to_rat(v[2], atom_map)
        if k == "un" and v[1] == "UAdd":
            return to_rat(v[2], atom_map)
        if k == "call" and v[1] in ("float", "int") and len(v[2]) == 1:
            return to_rat(v[2][0], atom_map)
    return Rat(p_atom(v))
