"""pv - static verification of pacti (stdlib ast only; nothing under /repo is imported or run)."""
