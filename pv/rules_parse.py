"""C09 (structural clauses): the arithmetic of the parser's data classes and of the translation to terms."""
from __future__ import annotations

import ast
from typing import Dict, List, Optional

from .loader import AnalysisError, Program, norm
from .pathsim import Sim, const
from .ratnf import Rat
from .report import Ctx
from .rules_kernels import _cmp_term, _eq, _run
from .termalg import NONE, DictV, Key, ListV, NoneT, Raised, Rec, TermAlg, TupV, Undecidable, num, sym

TL = "PolyhedralSyntaxTermList"
AT = "PolyhedralSyntaxAbsoluteTerm"
ATL = "PolyhedralSyntaxAbsoluteTermList"


def mk_tl(prefix: str, keys: List[Key], const_val: Optional[Rat] = None) -> Rec:
    return Rec(TL, {"constant": const_val if const_val is not None else sym(prefix + "_c"), "factors": DictV({k: sym("%s_%s" % (prefix, k.name)) for k in keys})})


def mk_at(tl: Rec, coef) -> Rec:
    return Rec(AT, {"term_list": tl, "coefficient": coef})


def mk_atl(tl: Rec, ats: List[Rec]) -> Rec:
    return Rec(ATL, {"term_list": tl, "absolute_term_list": ListV(ats)})


def cmp_tl(got, want_f: Dict[str, Rat], want_c: Rat) -> Optional[str]:
    if not isinstance(got, Rec) or "factors" not in got.f:
        return "result is not a syntactic term list"
    g = {k.name: v for k, v in got.f["factors"].d.items()}
    for n in sorted(set(g) | set(want_f)):
        a, b = g.get(n, num(0)), want_f.get(n, num(0))
        if not _eq(a, b):
            return "factor of %s is %s, expected %s" % (n, a.show(), b.show())
    if not _eq(got.f["constant"], want_c):
        return "constant is %s, expected %s" % (got.f["constant"].show(), want_c.show())
    return None


def rule_data_kernels(ctx: Ctx, rule: str = "parser-kernel-law") -> None:
    prog = ctx.prog
    x, y, z = Key("x"), Key("y"), Key("z")

    def k_negate():
        ta = TermAlg(prog)
        t = mk_tl("a", [x, y])
        r = ta.method(t, "negate", [])
        return cmp_tl(r, {"x": -sym("a_x"), "y": -sym("a_y")}, -sym("a_c"))

    _run(ctx, rule, TL + ".negate", "term list negate: every factor and the constant change sign", k_negate)

    def k_add():
        ta = TermAlg(prog)
        t, u = mk_tl("a", [x, y]), mk_tl("b", [y, z])
        r = ta.method(t, "add", [u])
        p = cmp_tl(r, {"x": sym("a_x"), "y": sym("a_y") + sym("b_y"), "z": sym("b_z")}, sym("a_c") + sym("b_c"))
        if p:
            return p
        if {k.name for k in t.f["factors"].d} != {"x", "y"} or r.f["factors"] is t.f["factors"]:
            return "add() modified / shares its left operand's factors"
        # cancelling factors disappear
        v = Rec(TL, {"constant": num(0), "factors": DictV({x: -sym("a_x")})})
        r2 = ta.method(t, "add", [v])
        return cmp_tl(r2, {"y": sym("a_y")}, sym("a_c"))

    _run(ctx, rule, TL + ".add", "term list add: factors add over the union of variables, constants add, operands untouched", k_add)

    def k_to_term():
        ta = TermAlg(prog)
        t = mk_tl("a", [x, y])
        r = ta.method(t, "to_polyhedral_term", [])
        # reading: sum f v + c <= 0  <=>  sum f v <= -c
        return _cmp_term(r, {"x": sym("a_x"), "y": sym("a_y")}, -sym("a_c"))

    _run(ctx, rule, TL + ".to_polyhedral_term", "to_polyhedral_term: 'expr <= 0' becomes 'factors <= -constant'", k_to_term)

    def k_at_negate():
        ta = TermAlg(prog)
        t = mk_tl("a", [x])
        r = ta.method(mk_at(t, NONE), "negate", [])
        if not _eq(r.f["coefficient"], num(-1)):
            c0 = r.f["coefficient"]
            return "negating an absolute term without coefficient gives coefficient %s" % (c0.show() if isinstance(c0, Rat) else c0)
        r = ta.method(mk_at(t, sym("m")), "negate", [])
        if not _eq(r.f["coefficient"], -sym("m")):
            return "negating coefficient m gives %s" % r.f["coefficient"].show()
        return None

    _run(ctx, rule, AT + ".negate", "absolute term negate: coefficient None -> -1, m -> -m", k_at_negate)

    def k_at_to_tl():
        ta = TermAlg(prog)
        t = mk_tl("a", [x, y])
        r = ta.method(mk_at(t, NONE), "to_term_list", [])
        p = cmp_tl(r, {"x": sym("a_x"), "y": sym("a_y")}, sym("a_c"))
        if p:
            return "no coefficient (=1): " + p
        # a coefficient that is exactly 0 (two equal absolute terms cancelled) is a number, not "no coefficient"
        r = ta.method(mk_at(t, num(0)), "to_term_list", [])
        p = cmp_tl(r, {}, num(0))
        if p:
            return "coefficient 0: " + p
        r = ta.method(mk_at(t, sym("m")), "to_term_list", [])
        return cmp_tl(r, {"x": sym("m") * sym("a_x"), "y": sym("m") * sym("a_y")}, sym("m") * sym("a_c"))

    _run(ctx, rule, AT + ".to_term_list", "absolute term to_term_list: multiplies by the coefficient, None standing for 1", k_at_to_tl)

    def k_is_positive():
        ta = TermAlg(prog)
        t = mk_tl("a", [x])
        got = [ta.method(mk_at(t, c), "is_positive", []) for c in (NONE, num(2), num(-2))]
        if got != [True, True, False]:
            return "is_positive for coefficients None, 2, -2 gives %s" % got
        return None

    _run(ctx, rule, AT + ".is_positive", "absolute term is_positive: None and positive coefficients are convex, negative ones are not", k_is_positive)

    def k_combine():
        ta = TermAlg(prog)
        fi = prog.func("data._combine_optional_floats")
        cases = [((NONE, NONE), num(2)), ((NONE, sym("k")), sym("k") + num(1)), ((sym("j"), NONE), sym("j") + num(1)), ((sym("j"), sym("k")), sym("j") + sym("k"))]
        # a coefficient that is exactly 0 (after cancellation) is a number, not 'missing'
        cases += [((num(0), NONE), num(1)), ((NONE, num(0)), num(1)), ((num(0), num(3)), num(3)), ((num(0), num(0)), num(0))]
        first_undecidable = None
        for (a, b), want in cases:
            try:
                r = ta.call(fi, [a, b], {})
            except Undecidable as e:
                first_undecidable = first_undecidable or e
                continue
            val = num(1) if isinstance(r, NoneT) else r
            if not isinstance(val, Rat) or not _eq(val, want):
                return "combining coefficients %s and %s gives %s (None = 1), expected %s" % (a if isinstance(a, NoneT) else a.show(), b if isinstance(b, NoneT) else b.show(), "None" if isinstance(r, NoneT) else r.show(), want.show())
        if first_undecidable is not None:
            raise first_undecidable
        return None

    _run(ctx, rule, "data._combine_optional_floats", "combining coefficients of equal absolute terms adds them, None standing for 1 in all four cases", k_combine)

    def k_combine_or_append():
        ta = TermAlg(prog)
        fi = prog.func("data._combine_or_append")
        t, u = mk_tl("a", [x]), mk_tl("b", [y])
        lst = ListV([mk_at(t, sym("j"))])
        r = ta.call(fi, [lst, mk_at(mk_tl("a", [x]), sym("k"))], {})
        if len(r.items) != 1 or not _eq(r.items[0].f["coefficient"], sym("j") + sym("k")):
            return "an equal absolute term is not merged by adding coefficients"
        r = ta.call(fi, [lst, mk_at(u, sym("k"))], {})
        if len(r.items) != 2:
            return "a different absolute term is not appended"
        if len(lst.items) != 1:
            return "the input list was modified"
        # same variable part, different constant inside the bars: a different term
        r = ta.call(fi, [lst, mk_at(mk_tl("a", [x], sym("other_c")), sym("k"))], {})
        if len(r.items) != 2:
            return "|a_x x + a_c| and |a_x x + other_c| are merged although their constants differ"
        return None

    _run(ctx, rule, "data._combine_or_append", "equal absolute terms merge (coefficients add), different ones are appended, input list untouched", k_combine_or_append)

    def k_combine_degenerate():
        # concrete numbers, with the degenerate bars a user can write: |3| and |x - x| (no variable left inside)
        ta = TermAlg(prog)
        fi = prog.func("data._combine_or_append")

        def ctl(c, fs):
            return Rec(TL, {"constant": num(c), "factors": DictV({k: num(v) for k, v in fs.items()})})

        three, zero, two_y = ctl(3, {}), ctl(0, {}), ctl(0, {y: 2})
        r = ta.call(fi, [ListV([mk_at(three, num(1))]), mk_at(ctl(3, {}), num(2))], {})
        if len(r.items) != 1 or not _eq(r.items[0].f["coefficient"], num(3)):
            return "|3| + 2|3| is not merged into 3|3|"
        r = ta.call(fi, [ListV([mk_at(zero, num(1))]), mk_at(two_y, num(1))], {})
        if len(r.items) != 2:
            return "|0| and |2y| are not kept apart"
        r = ta.call(fi, [ListV([mk_at(two_y, num(1))]), mk_at(ctl(0, {}), num(-1))], {})
        if len(r.items) != 2:
            return "|2y| and -|0| are not kept apart"
        r = ta.call(fi, [ListV([mk_at(two_y, num(1))]), mk_at(ctl(1, {y: 2}), num(1))], {})
        if len(r.items) != 2:
            return "|2y| and |2y + 1| are merged although they differ"
        # same variables, one coefficient of opposite sign: different terms (an identity test on the printed form must
        # print the sign)
        for a_, b_ in ((ctl(0, {x: 1, y: 1}), ctl(0, {x: -1, y: 1})), (ctl(0, {x: 1, y: 2}), ctl(0, {x: 1, y: -2})), (ctl(2, {x: 1}), ctl(-2, {x: 1}))):
            r = ta.call(fi, [ListV([mk_at(a_, num(1))]), mk_at(b_, num(1))], {})
            if len(r.items) != 2:
                return "two absolute terms that differ in a sign (e.g. |x + y| and |-x + y|) are merged"
        r = ta.call(fi, [ListV([mk_at(ctl(0, {x: 1, y: 1}), num(1))]), mk_at(ctl(0, {x: 1, y: 1}), num(2))], {})
        if len(r.items) != 1:
            return "|x + y| + 2|x + y| is not merged"
        return None

    _run(ctx, rule, "data._combine_or_append", "absolute terms without a variable inside the bars (|3|, |x - x|) combine like any other, without an error", k_combine_degenerate)

    def k_expand():
        ta = TermAlg(prog)
        base = mk_tl("a", [x])
        t1 = mk_tl("p", [y], num(0))
        t2 = mk_tl("q", [z], num(0))
        atl = mk_atl(base, [mk_at(t1, sym("m")), mk_at(t2, NONE)])
        r = ta.method(atl, "expand", [])
        if len(r.items) != 4:
            return "two absolute terms expand to %d combinations instead of 4" % len(r.items)
        want = []
        for s1 in (1, -1):
            for s2 in (1, -1):
                want.append(({"x": sym("a_x"), "y": num(s1) * sym("m") * sym("p_y"), "z": num(s2) * sym("q_z")}, sym("a_c")))
        for wf, wc in want:
            if not any(cmp_tl(g, wf, wc) is None for g in r.items):
                return "the sign combination %s is missing from the expansion" % {k: v.show() for k, v in wf.items()}
        # a sign combination in which every variable cancels is still a constraint (on the constants)
        same = Rec(TL, {"constant": sym("p_c"), "factors": DictV({x: sym("a_x")})})
        rc = ta.method(mk_atl(base, [mk_at(same, NONE)]), "expand", [])
        if len(rc.items) != 2:
            return "|a_x x + p_c| next to a_x x expands to %d term lists instead of 2: the combination without variables was dropped" % len(rc.items)
        if not any(cmp_tl(g, {}, sym("a_c") - sym("p_c")) is None for g in rc.items):
            return "the variable-free sign combination (a_c - p_c <= 0) is missing from the expansion"
        # the absolute value of a plain number still has two cases: |c| is c or -c, whichever is not negative
        konst = Rec(TL, {"constant": sym("k_c"), "factors": DictV({})})
        rk = ta.method(mk_atl(base, [mk_at(konst, NONE)]), "expand", [])
        if len(rk.items) != 2:
            return "|k_c| (an absolute value without variables) expands to %d term list(s) instead of 2: for a negative k_c the kept case is the wrong one" % len(rk.items)
        for sgn in (1, -1):
            if not any(cmp_tl(g, {"x": sym("a_x")}, sym("a_c") + num(sgn) * sym("k_c")) is None for g in rk.items):
                return "the case %s|k_c| is missing from the expansion of an absolute value without variables" % ("+" if sgn > 0 else "-")
        r0 = ta.method(mk_atl(base, []), "expand", [])
        if len(r0.items) != 1 or cmp_tl(r0.items[0], {"x": sym("a_x")}, sym("a_c")):
            return "without absolute terms expand() does not return the plain term list"
        return None

    _run(ctx, rule, ATL + ".expand", "expand: every +/- combination of the absolute terms, each scaled by its coefficient, added to the linear part", k_expand)

    def k_atl_negate_add():
        ta = TermAlg(prog)
        a = mk_atl(mk_tl("a", [x]), [mk_at(mk_tl("p", [y], num(0)), sym("m"))])
        r = ta.method(a, "negate", [])
        p = cmp_tl(r.f["term_list"], {"x": -sym("a_x")}, -sym("a_c"))
        if p:
            return "negate linear part: " + p
        if not _eq(r.f["absolute_term_list"].items[0].f["coefficient"], -sym("m")):
            return "negate does not negate the absolute terms"
        b = mk_atl(mk_tl("b", [x]), [mk_at(mk_tl("p", [y], num(0)), sym("n"))])
        r = ta.method(a, "add", [b])
        p = cmp_tl(r.f["term_list"], {"x": sym("a_x") + sym("b_x")}, sym("a_c") + sym("b_c"))
        if p:
            return "add linear part: " + p
        ats = r.f["absolute_term_list"].items
        if len(ats) != 1 or not _eq(ats[0].f["coefficient"], sym("m") + sym("n")):
            return "add does not merge equal absolute terms"
        return None

    _run(ctx, rule, ATL + ".add", "absolute term list negate/add: linear parts and absolute parts both follow the algebra", k_atl_negate_add)


def rule_translation(ctx: Ctx, rule: str = "relation-translation") -> None:
    """'a <= b' becomes a - b <= 0, 'a >= b' becomes b - a <= 0, 'a = b' both; a negative absolute term is rejected with
    the convexity error before any expansion."""
    prog = ctx.prog
    x, y = Key("x"), Key("y")

    def sides():
        a = mk_atl(mk_tl("a", [x, y]), [])
        b = mk_atl(mk_tl("b", [x]), [])
        return a, b

    def op(name: str):
        return ("enum", name)

    def ineq(opname: str) -> Rec:
        a, b = sides()
        return Rec("PolyhedralSyntaxIneqExpression", {"operator": op(opname), "sides": ListV([a, b])})

    def run_expr(e: Rec):
        ta = TermAlg(prog)
        fi = prog.func("serializer._expression_to_polyhedral_terms")
        return ta.call(fi, [("str", "src"), e], {})

    def k_leq():
        r = run_expr(ineq("leq"))
        if len(r.items) != 1:
            return "%d terms produced" % len(r.items)
        return _cmp_term(r.items[0], {"x": sym("a_x") - sym("b_x"), "y": sym("a_y")}, sym("b_c") - sym("a_c"))

    _run(ctx, rule, "serializer._leq_expression_to_polyhedral_terms", "'a <= b' is translated to (a - b) <= 0", k_leq)

    def k_geq():
        r = run_expr(ineq("geq"))
        if len(r.items) != 1:
            return "%d terms produced" % len(r.items)
        return _cmp_term(r.items[0], {"x": sym("b_x") - sym("a_x"), "y": -sym("a_y")}, sym("a_c") - sym("b_c"))

    _run(ctx, rule, "serializer._geq_expression_to_polyhedral_terms", "'a >= b' is translated to (b - a) <= 0", k_geq)

    def k_chain():
        a, b = sides()
        c = mk_atl(mk_tl("c", [y]), [])
        e = Rec("PolyhedralSyntaxIneqExpression", {"operator": op("leq"), "sides": ListV([a, b, c])})
        r = run_expr(e)
        if len(r.items) != 2:
            return "a chain of three sides gives %d terms instead of 2" % len(r.items)
        p = _cmp_term(r.items[1], {"x": sym("b_x"), "y": -sym("c_y")}, sym("c_c") - sym("b_c"))
        return ("second link: " + p) if p else None

    _run(ctx, rule, "serializer._leq_expression_to_polyhedral_terms", "'a <= b <= c' is translated link by link (a-b, b-c)", k_chain)

    def k_eql():
        l, r_ = mk_tl("a", [x, y]), mk_tl("b", [x])
        e = Rec("PolyhedralSyntaxEqlExpression", {"lhs": l, "rhs": r_, "operator": op("eql")})
        r = run_expr(e)
        if len(r.items) != 2:
            return "%d terms produced" % len(r.items)
        w1 = ({"x": sym("a_x") - sym("b_x"), "y": sym("a_y")}, sym("b_c") - sym("a_c"))
        w2 = ({"x": sym("b_x") - sym("a_x"), "y": -sym("a_y")}, sym("a_c") - sym("b_c"))
        for w in (w1, w2):
            if not any(_cmp_term(t, w[0], w[1]) is None for t in r.items):
                return "one of the two directions of the equality is missing or wrong"
        return None

    _run(ctx, rule, "serializer._eql_expression_to_polyhedral_terms", "'a = b' is translated to (a - b) <= 0 and (b - a) <= 0", k_eql)

    def k_convex():
        a = mk_atl(mk_tl("a", [x]), [])
        b = mk_atl(mk_tl("b", [x], num(0)), [mk_at(mk_tl("p", [y], num(0)), NONE)])
        # a <= |p|  ->  a - |p| <= 0 : negative absolute term -> not convex
        e = Rec("PolyhedralSyntaxIneqExpression", {"operator": op("leq"), "sides": ListV([a, b])})
        try:
            run_expr(e)
        except Raised as r:
            return None if r.cls == "PolyhedralSyntaxConvexException" else "raises %s instead of the convexity error" % r.cls
        return "a non-convex use of an absolute value (x <= |y|) is translated instead of rejected"

    _run(ctx, rule, "serializer._check_absolute_terms", "a relation with a negative absolute-value term is rejected with the convexity error", k_convex)

    def k_convex_geq():
        a = mk_atl(mk_tl("a", [x], num(0)), [mk_at(mk_tl("p", [y], num(0)), NONE)])
        b = mk_atl(mk_tl("b", [x]), [])
        # |p| >= b  ->  -|p| + b <= 0 : negative absolute term -> not convex
        e = Rec("PolyhedralSyntaxIneqExpression", {"operator": op("geq"), "sides": ListV([a, b])})
        try:
            run_expr(e)
        except Raised as r:
            return None if r.cls == "PolyhedralSyntaxConvexException" else "raises %s instead of the convexity error" % r.cls
        return "a non-convex use of an absolute value (|y| >= x) is translated instead of rejected"

    _run(ctx, rule, "serializer._geq_expression_to_polyhedral_terms", "a '>=' relation with a negative absolute-value term is rejected with the convexity error", k_convex_geq)

    def k_convex_ok():
        a = mk_atl(mk_tl("a", [x], num(0)), [mk_at(mk_tl("p", [y], num(0)), NONE)])
        b = mk_atl(mk_tl("b", [x]), [])
        e = Rec("PolyhedralSyntaxIneqExpression", {"operator": op("leq"), "sides": ListV([a, b])})
        r = run_expr(e)
        if len(r.items) != 2:
            return "|p| + a <= b expands to %d terms instead of 2" % len(r.items)
        return None

    _run(ctx, rule, "serializer._leq_expression_to_polyhedral_terms", "a convex absolute-value relation expands to both sign cases", k_convex_ok)


def rule_scaling_actions(ctx: Ctx, rule: str = "parse-action-scaling") -> None:
    """The parse actions that multiply a parsed payload by a leading number scale EVERY numeric field of it."""
    prog = ctx.prog
    x, y = Key("x"), Key("y")

    def k_number_and_variable():
        ta = TermAlg(prog)
        fi = prog.func("grammar._parse_number_and_variable")
        vt = Rec(TL, {"constant": num(0), "factors": DictV({x: sym("a_x")})})
        r = ta.call(fi, [ListV([sym("f"), ("str", "*"), vt])], {})
        return cmp_tl(r, {"x": sym("f") * sym("a_x")}, num(0))

    _run(ctx, rule, "grammar._parse_number_and_variable", "number * variable: the factor is scaled by the number", k_number_and_variable)

    def k_factor_paren():
        ta = TermAlg(prog)
        fi = prog.func("grammar._parse_factor_paren_terms")
        pt = mk_tl("a", [x, y])
        r = ta.call(fi, [ListV([ListV([sym("f"), ("str", "*"), pt])])], {})
        return cmp_tl(r, {"x": sym("f") * sym("a_x"), "y": sym("f") * sym("a_y")}, sym("f") * sym("a_c"))

    _run(ctx, rule, "grammar._parse_factor_paren_terms", "number * ( terms ): constant and every factor are scaled", k_factor_paren)

    def k_paren_abs():
        ta = TermAlg(prog)
        fi = prog.func("grammar._parse_paren_abs_or_terms")
        atl = mk_atl(mk_tl("a", [x]), [mk_at(mk_tl("p", [y], num(0)), NONE), mk_at(mk_tl("q", [x], num(0)), sym("m"))])
        r = ta.call(fi, [ListV([ListV([sym("f"), ("str", "*"), ("str", "("), atl, ("str", ")")])])], {})
        p = cmp_tl(r.f["term_list"], {"x": sym("f") * sym("a_x")}, sym("f") * sym("a_c"))
        if p:
            return "linear part: " + p
        cs = [a.f["coefficient"] for a in r.f["absolute_term_list"].items]
        if isinstance(cs[0], NoneT) or not _eq(cs[0], sym("f")):
            return "an absolute term without coefficient is not scaled to f"
        if not _eq(cs[1], sym("f") * sym("m")):
            return "an absolute term with coefficient m is scaled to %s" % cs[1].show()
        # without a factor: unchanged
        atl2 = mk_atl(mk_tl("a", [x]), [])
        r2 = ta.call(fi, [ListV([ListV([("str", "("), atl2, ("str", ")")])])], {})
        return cmp_tl(r2.f["term_list"], {"x": sym("a_x")}, sym("a_c"))

    _run(ctx, rule, "grammar._parse_paren_abs_or_terms", "number * ( abs-or-terms ): constant, factors and every absolute coefficient are scaled (None standing for 1)", k_paren_abs)


def rule_parse_entry(ctx: Ctx, rule: str = "parse-errors") -> None:
    """polyhedral_termlist_from_string: a pyparsing failure is wrapped into PolyhedralSyntaxException; the only other
    exits are the result of the translation or ValueError."""
    prog = ctx.prog
    key = "serializer.polyhedral_termlist_from_string"
    fi = prog.func(key)
    ps = Sim(prog, fi, raises=lambda c, v: ["ParseException"] if c.endswith(("parse_string", "parseString")) else []).paths()
    outs = set()
    for p in ps:
        if p.terminal == "raise":
            outs.add("raise " + str(p.exc_cls))
        else:
            v = p.value
            outs.add("translation" if isinstance(v, tuple) and v[0] == "call" and v[1].endswith("_expression_to_polyhedral_terms") else "return other")
    construct = "polyhedral_termlist_from_string: parse failure -> PolyhedralSyntaxException; otherwise translation or ValueError"
    want = {"raise PolyhedralSyntaxException", "translation", "raise ValueError"}
    if outs == want:
        ctx.ok(rule, key, construct)
    else:
        ctx.violation(rule, key, construct, "exits are %s" % sorted(outs), where=fi.where)
    # the grammar element used is the module-level `expression`, parsed with parse_all=True
    construct = "polyhedral_termlist_from_string parses the whole string (parse_all=True) with the grammar's `expression`"
    # read off the simulated paths (a helper extracted later is followed): every path that parses does so once, with
    # the grammar's `expression` and parse_all=True
    evs = []
    for p in ps:
        cs = [e for e in p.events if e["kind"] == "call" and str(e["callee"]).split(".")[-1] in ("parse_string", "parseString")]
        if cs:
            evs.append(cs)
    okc = bool(evs)
    shown = "missing"
    for cs in evs:
        c = cs[0]
        shown = norm(c["node"])
        recv = c["recv"]
        is_expr = (isinstance(recv, tuple) and ((recv[0] == "global" and recv[-1] == "expression") or (recv[0] == "ext" and str(recv[1]).split(".")[-1] == "expression"))) or str(c["callee"]).split(".")[-2:-1] == ["expression"]
        whole = any(k in ("parse_all", "parseAll") and v == const(True) for k, v in c["kws"]) or (len(c["args"]) >= 2 and c["args"][1] == const(True))
        if len(cs) != 1 or not is_expr or not whole:
            okc = False
            break
    (ctx.ok(rule, key, construct) if okc else ctx.violation(rule, key, construct, "call is %s" % shown, where=fi.where))


def rule_infix_chain(ctx: Ctx, rule: str = "constant-arithmetic") -> None:
    """Constant arithmetic in parentheses: pyparsing's infixNotation hands a LEFT-associative binary level the whole
    flat chain [a, op, b, op, c, ...]; the level's action must fold every operand (left to right)."""
    prog = ctx.prog
    m = prog.module("grammar")
    # operator literal names:  plus, minus, mult, div = map(pp.Literal, "+-*/")
    lit: Dict[str, str] = {}
    for node in ast.walk(m.tree):
        if isinstance(node, ast.Assign) and isinstance(node.targets[0], ast.Tuple) and isinstance(node.value, ast.Call) and norm(node.value.func) == "map":
            args = node.value.args
            if len(args) == 2 and isinstance(args[1], ast.Constant) and isinstance(args[1].value, str):
                for t, ch in zip(node.targets[0].elts, args[1].value):
                    if isinstance(t, ast.Name):
                        lit[t.id] = ch
        if isinstance(node, ast.Assign) and isinstance(node.targets[0], ast.Name) and isinstance(node.value, ast.Call) and norm(node.value.func).endswith("Literal") and node.value.args and isinstance(node.value.args[0], ast.Constant):
            lit[node.targets[0].id] = node.value.args[0].value
    calls = [n for n in ast.walk(m.tree) if isinstance(n, ast.Call) and norm(n.func).split(".")[-1] in ("infixNotation", "infix_notation")]
    if not calls:
        ctx.cannot_decide(rule, "grammar", "infixNotation", "no infixNotation call found (constant arithmetic is built differently)")
        return
    n = 0
    for call in calls:
        if len(call.args) < 2 or not isinstance(call.args[1], (ast.List, ast.Tuple)):
            continue
        for spec in call.args[1].elts:
            if not isinstance(spec, ast.Tuple) or len(spec.elts) < 4:
                continue
            ops_e, arity, assoc, action = spec.elts[0], spec.elts[1], spec.elts[2], spec.elts[3]
            if not (isinstance(arity, ast.Constant) and arity.value == 2 and norm(assoc).endswith("LEFT")):
                continue
            ops = [lit[x.id] for x in ast.walk(ops_e) if isinstance(x, ast.Name) and x.id in lit]
            fi = None
            if isinstance(action, ast.Lambda):
                for lf in prog.lambdas:
                    if lf.node is action:
                        fi = lf
            elif isinstance(action, ast.Name) and action.id in m.functions:
                fi = m.functions[action.id]
            if fi is None or not ops:
                ctx.cannot_decide(rule, "grammar", "level %s" % norm(ops_e), "cannot resolve the action or the operator literals")
                continue
            for op1 in ops:
                for op2 in ops:
                    n += 1
                    construct = "constant arithmetic: a %s b %s c is folded over all three operands, left to right" % (op1, op2)

                    def thunk(op1=op1, op2=op2, fi=fi):
                        ta = TermAlg(prog)
                        a, b, c = sym("a"), sym("b"), sym("c")
                        chain = ListV([a, ("str", op1), b, ("str", op2), c])
                        nparams = len(fi.params)
                        args = [ListV([chain])] if nparams == 1 else [("str", "src"), num(0), ListV([chain])][-nparams:]
                        r = ta.call(fi, args, {})

                        def ap(o, u, v):
                            return {"+": u + v, "-": u - v, "*": u * v, "/": u / v}[o]

                        want = ap(op2, ap(op1, a, b), c)
                        if not isinstance(r, Rat) or not r.equals(want):
                            return "the action yields %s for the chain a %s b %s c, expected %s" % (r.show() if isinstance(r, Rat) else r, op1, op2, want.show())
                        return None

                    _run(ctx, rule, fi.key, construct, thunk)
    ctx.floor("operator chains checked", n, 8)


# ---------------------------------------------------------------------------
# The number token (C09: "regardless of how a number is spelled")
# ---------------------------------------------------------------------------
_NUMBER_REFERENCE = r"(?:[0-9]+(?:\.[0-9]*)?|\.[0-9]+)(?:[eE][+-]?[0-9]+)?"


def _pp_to_regex(e: ast.AST) -> str:
    """Regular expression of a pyparsing element built from the constructs the number token uses; raises
    AnalysisError for anything else."""
    import re as _re

    if isinstance(e, ast.Constant) and isinstance(e.value, str):
        return _re.escape(e.value)
    if isinstance(e, ast.BinOp) and isinstance(e.op, ast.Add):
        return _pp_to_regex(e.left) + _pp_to_regex(e.right)
    if isinstance(e, ast.BinOp) and isinstance(e.op, (ast.BitOr, ast.BitXor)):
        return "(?:%s|%s)" % (_pp_to_regex(e.left), _pp_to_regex(e.right))
    if isinstance(e, ast.Call):
        f = norm(e.func).split(".")[-1]
        a = e.args
        if f == "Combine" and len(a) >= 1:
            return _pp_to_regex(a[0])
        if f in ("Or", "MatchFirst") and len(a) == 1 and isinstance(a[0], (ast.List, ast.Tuple)):
            return "(?:%s)" % "|".join(_pp_to_regex(x) for x in a[0].elts)
        if f in ("Optional", "Opt") and len(a) == 1:
            return "(?:%s)?" % _pp_to_regex(a[0])
        if f == "Word" and len(a) == 1 and norm(a[0]).endswith("nums"):
            return "[0-9]+"
        if f == "Literal" and len(a) == 1 and isinstance(a[0], ast.Constant):
            return _re.escape(a[0].value)
        if f == "CaselessLiteral" and len(a) == 1 and isinstance(a[0], ast.Constant) and len(a[0].value) == 1:
            c = a[0].value
            return "[%s%s]" % (_re.escape(c.lower()), _re.escape(c.upper()))
        if f in ("oneOf", "one_of") and len(a) >= 1 and isinstance(a[0], ast.Constant):
            return "(?:%s)" % "|".join(_re.escape(x) for x in a[0].value.split())
        if f == "Regex" and len(a) >= 1 and isinstance(a[0], ast.Constant) and isinstance(a[0].value, str):
            return "(?:%s)" % a[0].value
    raise AnalysisError("number token uses a construct outside the known fragment: %s" % norm(e)[:60])


def rule_number_token(ctx: Ctx, rule: str = "number-token") -> None:
    """C09: the token that reads a number accepts the same prefix of every candidate spelling as the documented
    number syntax (digits with optional fraction, or a leading dot, each with an optional exponent) - decided by
    turning the token's definition into a regular expression and comparing it with the reference on every string
    over the alphabet {1 . e E + -} up to length 7 (longest-prefix semantics, as the parser uses the token)."""
    import itertools
    import re as _re

    prog = ctx.prog
    mod = next((m for m in prog.modules.values() if m.relpath.endswith("syntax/grammar.py")), None)
    construct = "floating_point_number reads exactly the documented number spellings"
    if mod is None or "floating_point_number" not in mod.assigns:
        ctx.cannot_decide(rule, "grammar.floating_point_number", construct, "anchor vanished")
        return
    e = mod.assigns["floating_point_number"]
    action = None
    # strip .set_parse_action(...) / .set_name(...) / .setName(...) wrappers
    while isinstance(e, ast.Call) and isinstance(e.func, ast.Attribute) and e.func.attr in ("set_parse_action", "setParseAction", "set_name", "setName", "add_parse_action"):
        if e.func.attr in ("set_parse_action", "setParseAction", "add_parse_action") and e.args:
            action = e.args[0]
        e = e.func.value
    try:
        rx = _re.compile(_pp_to_regex(e))
    except (AnalysisError, _re.error) as ex:
        ctx.cannot_decide(rule, "grammar.floating_point_number", construct, str(ex))
        return
    ref = _re.compile(_NUMBER_REFERENCE)
    bad = None
    n = 0
    for k in range(1, 8):
        for tup in itertools.product("1.eE+-", repeat=k):
            s = "".join(tup)
            n += 1
            a, b = rx.match(s), ref.match(s)
            ea, eb = (a.end() if a else None), (b.end() if b else None)
            if ea != eb:
                bad = (s, s[:ea] if ea else None, s[:eb] if eb else None)
                break
        if bad:
            break
    where = "%s:%d" % (mod.relpath, mod.assign_nodes["floating_point_number"].lineno)
    if bad:
        ctx.violation(rule, "grammar.floating_point_number", construct, "in %r the token reads %r where the number is %r (what is left over is then parsed as something else, e.g. a variable)" % bad, where=where)
    else:
        ctx.ok(rule, "grammar.floating_point_number", construct + " (%d strings compared)" % n)
    # the token's value is float(text)
    construct = "floating_point_number yields float(<matched text>)"
    okc = isinstance(action, ast.Lambda) and norm(action.body).replace(" ", "") in ("float(t[0])", "float(tokens[0])", "float(toks[0])")
    if action is None:
        ctx.cannot_decide(rule, "grammar.floating_point_number", construct, "no parse action found")
    elif okc or (isinstance(action, ast.Lambda) and isinstance(action.body, ast.Call) and norm(action.body.func) == "float" and len(action.body.args) == 1 and isinstance(action.body.args[0], ast.Subscript) and norm(action.body.args[0].slice) == "0"):
        ctx.ok(rule, "grammar.floating_point_number", construct)
    else:
        ctx.cannot_decide(rule, "grammar.floating_point_number", construct, "parse action is %s" % norm(action)[:60])


# ------------------------------------------------------------------ memoised parsing and parse actions that mutate (C09)
def rule_parser_memoisation(ctx: Ctx, rule: str = "parser-memoisation") -> None:
    """pyparsing's packrat cache hands the SAME result object to every alternative that re-parses a position.  The
    parse actions of this grammar scale their payload in place; that is harmless as long as each action works on a
    fresh object, i.e. as long as no operation of the syntax data classes hands one of its operands back.  The three
    together - memoised results, in-place scaling, an operation that returns its operand - apply a factor twice
    ('2(x) <= 3' read as 4x <= 3).  The rule reads all three from the source and fires only on the conjunction."""
    prog = ctx.prog
    construct = "grammar: no memoised parse result is scaled in place twice"
    # A: memoisation switched on anywhere in the package
    memo = []
    for mi in prog.modules.values():
        for node in ast.walk(mi.tree):
            if isinstance(node, ast.Call) and isinstance(node.func, ast.Attribute) and node.func.attr in ("enable_packrat", "enablePackrat", "enable_left_recursion"):
                memo.append("%s:%d" % (mi.relpath, node.lineno))
    # C: parse actions (functions of the grammar module taking the token list) that store into an attribute /
    #    item of something they did not create
    gram = [fi for fi in prog.funcs.values() if fi.module.base == "grammar" and not isinstance(fi.node, ast.Lambda)]
    mutators = []
    for fi in gram:
        created = set()
        for node in ast.walk(fi.node):
            if isinstance(node, ast.Assign) and len(node.targets) == 1 and isinstance(node.targets[0], ast.Name) and isinstance(node.value, (ast.Call, ast.Dict, ast.List)) :
                f = node.value.func if isinstance(node.value, ast.Call) else None
                nm = (f.id if isinstance(f, ast.Name) else f.attr if isinstance(f, ast.Attribute) else None) if f is not None else "display"
                if nm == "display" or (nm and (nm in prog.classes or nm in ("copy", "deepcopy", "dict", "list"))):
                    created.add(node.targets[0].id)
        for node in ast.walk(fi.node):
            tgt = None
            if isinstance(node, ast.AugAssign):
                tgt = node.target
            elif isinstance(node, ast.Assign):
                tgt = node.targets[0]
            if isinstance(tgt, (ast.Attribute, ast.Subscript)):
                root = tgt
                while isinstance(root, (ast.Attribute, ast.Subscript)):
                    root = root.value
                if isinstance(root, ast.Name) and root.id not in created:
                    mutators.append(fi.key)
                    break
    # B: an operation of the syntax data classes that returns one of its operands
    aliasing = []
    for fi in prog.funcs.values():
        if isinstance(fi.node, ast.Lambda) or fi.module.base != "data" or fi.cls is None or fi.kind not in ("method",):
            continue
        params = set(fi.params)
        rebound = {t.id for node in ast.walk(fi.node) if isinstance(node, (ast.Assign, ast.AugAssign, ast.AnnAssign)) for t in ([node.target] if not isinstance(node, ast.Assign) else node.targets) if isinstance(t, ast.Name)}
        for node in ast.walk(fi.node):
            if isinstance(node, ast.Return) and isinstance(node.value, ast.Name) and node.value.id in params and node.value.id not in rebound:
                aliasing.append("%s returns its operand `%s` (line %d)" % (fi.key, node.value.id, node.lineno))
    # B': a fold over the payload without a starting value hands back the payload itself when there is one item
    #     (`reduce(add, group)` for a one-term list): the fresh sum the in-place actions rely on is not created
    for fi in gram:
        for node in ast.walk(fi.node):
            if isinstance(node, ast.Call) and norm(node.func).split(".")[-1] == "reduce" and len(node.args) == 2 and not any(k.arg in ("initial", "initializer") for k in node.keywords):
                aliasing.append("%s folds its payload without a starting value (line %d): a single item is returned as it is" % (fi.key, node.lineno))
    ctx.extra["parse_actions_scaling_in_place"] = len(mutators)
    if memo and mutators and aliasing:
        ctx.violation(rule, "grammar", construct, "memoisation is enabled (%s), %d parse actions scale their payload in place (e.g. %s) and %s: an alternative that re-parses a position receives the already scaled object and scales it again" % (memo[0], len(mutators), sorted(mutators)[0], aliasing[0]), where=memo[0])
    else:
        ctx.ok(rule, "grammar", construct + " (memoisation %s; %d in-place actions; %d operand-returning operations)" % ("on" if memo else "off", len(mutators), len(aliasing)), nontrivial=bool(mutators))
