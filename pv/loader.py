"""Loader / indexer / resolver for the pacti source tree.

Every engine reads modules through `Program.load()`, which parses the *current
working tree* under $PV_REPO (default /repo) on every run.  A self-test
variant is the same program with the text of one module replaced in memory
(`overrides`), so no scratch copy of the repository is needed.
"""
from __future__ import annotations

import ast
import hashlib
import os
from typing import Dict, Iterator, List, Optional, Tuple

REPO = os.environ.get("PV_REPO", "/repo")
PKG_REL = "src/pacti"

# the module set confirmed by hand on the pinned tree; a missing one is an
# analysis error (cover what the build covers), extra ones are analysed too.
EXPECTED_MODULES = {
    "pacti",
    "pacti.__version__",
    "pacti.contracts",
    "pacti.contracts.polyhedral_iocontract",
    "pacti.iocontract",
    "pacti.iocontract.compundiocontract",
    "pacti.iocontract.iocontract",
    "pacti.terms",
    "pacti.terms.polyhedra",
    "pacti.terms.polyhedra.polyhedra",
    "pacti.terms.polyhedra.serializer",
    "pacti.terms.polyhedra.syntax",
    "pacti.terms.polyhedra.syntax.data",
    "pacti.terms.polyhedra.syntax.grammar",
    "pacti.utils",
    "pacti.utils.errors",
    "pacti.utils.fileio",
    "pacti.utils.lists",
    "pacti.utils.plots",
}


class AnalysisError(Exception):
    """The analysis cannot decide (anchor vanished, construct outside the fragment, ...).

    Always reported as exit status 2, never as a VIOLATION.
    """


def norm(node: ast.AST) -> str:
    """Normalised text of a construct (position independent)."""
    try:
        return ast.unparse(node)
    except Exception:  # pragma: no cover
        return ast.dump(node)


class FuncInfo:
    def __init__(self, key: str, name: str, node: ast.AST, module: "ModInfo", cls: Optional["ClassInfo"], kind: str):
        self.key = key  # e.g. "IoContract.compose_tactics" or "lists.list_union"
        self.name = name
        self.node = node
        self.module = module
        self.cls = cls
        self.kind = kind  # method | static | property | function | lambda | classmethod

    @property
    def params(self) -> List[str]:
        a = self.node.args
        return [x.arg for x in list(a.posonlyargs) + list(a.args)]

    @property
    def body(self) -> List[ast.stmt]:
        if isinstance(self.node, ast.Lambda):
            return [ast.Return(value=self.node.body)]
        return self.node.body

    @property
    def where(self) -> str:
        return "%s:%s" % (self.module.relpath, getattr(self.node, "lineno", 0))

    def defaults(self) -> Dict[str, ast.AST]:
        a = self.node.args
        pos = list(a.posonlyargs) + list(a.args)
        out = {}
        for p, d in zip(pos[len(pos) - len(a.defaults):], a.defaults):
            out[p.arg] = d
        for p, d in zip(a.kwonlyargs, a.kw_defaults):
            if d is not None:
                out[p.arg] = d
        return out

    def __repr__(self) -> str:
        return "<Func %s>" % self.key


class ClassInfo:
    def __init__(self, name: str, node: ast.ClassDef, module: "ModInfo"):
        self.name = name
        self.node = node
        self.module = module
        self.base_names: List[str] = []
        for b in node.bases:
            if isinstance(b, ast.Name):
                self.base_names.append(b.id)
            elif isinstance(b, ast.Attribute):
                self.base_names.append(b.attr)
            elif isinstance(b, ast.Subscript):  # Generic[...]
                v = b.value
                self.base_names.append(v.id if isinstance(v, ast.Name) else getattr(v, "attr", "?"))
        self.methods: Dict[str, FuncInfo] = {}
        self.class_assigns: Dict[str, ast.AST] = {}
        self.is_dataclass = any("dataclass" in norm(d) for d in node.decorator_list)
        self.fields: List[Tuple[str, Optional[ast.AST]]] = []  # dataclass fields (name, default)

    def __repr__(self) -> str:
        return "<Class %s>" % self.name


def canonicalise(tree: ast.AST) -> ast.AST:
    """Behaviour-preserving normal form applied to every module before any rule looks at it, so that the rules that
    read the syntax tree do not depend on three spellings a maintainer may choose freely:
      * `tmp = E; return tmp` (tmp used nowhere else)            ->  `return E`
      * `if not C: B else: A` (a real else, not an elif chain)   ->  `if C: A else: B`
      * `K <op> X` with a literal K on the left                  ->  `X <flipped op> K`
      * `with contextlib.suppress(E): B`                          ->  `try: B / except E: pass`
    Line numbers of the surviving nodes are kept."""

    def only_return_temp(fn: ast.AST, name: str) -> bool:
        """every occurrence of `name` in fn is the target of an assignment directly followed by `return name`"""
        paired = 0
        for node in ast.walk(fn):
            for fld in ("body", "orelse", "finalbody"):
                blk = getattr(node, fld, None)
                if not (isinstance(blk, list) and blk and isinstance(blk[0], ast.stmt)):
                    continue
                for a, b in zip(blk, blk[1:]):
                    if isinstance(a, ast.Assign) and len(a.targets) == 1 and isinstance(a.targets[0], ast.Name) and a.targets[0].id == name and isinstance(b, ast.Return) and isinstance(b.value, ast.Name) and b.value.id == name:
                        if not any(isinstance(x, ast.Name) and x.id == name for x in ast.walk(a.value)):
                            paired += 1
        total = sum(1 for n in ast.walk(fn) if isinstance(n, ast.Name) and n.id == name)
        return paired > 0 and total == 2 * paired

    def fix_block(stmts, fn):
        out = []
        i = 0
        while i < len(stmts):
            st = stmts[i]
            nxt = stmts[i + 1] if i + 1 < len(stmts) else None
            if (
                isinstance(st, ast.Assign)
                and len(st.targets) == 1
                and isinstance(st.targets[0], ast.Name)
                and isinstance(nxt, ast.Return)
                and isinstance(nxt.value, ast.Name)
                and nxt.value.id == st.targets[0].id
                and fn is not None
                and only_return_temp(fn, st.targets[0].id)
            ):
                r = ast.Return(value=st.value)
                ast.copy_location(r, st)
                out.append(r)
                i += 2
                continue
            out.append(st)
            i += 1
        return out

    _flip = {ast.Lt: ast.Gt, ast.Gt: ast.Lt, ast.LtE: ast.GtE, ast.GtE: ast.LtE, ast.Eq: ast.Eq, ast.NotEq: ast.NotEq}

    class N(ast.NodeTransformer):
        def __init__(self):
            self.fn = None

        def visit_FunctionDef(self, n):
            prev, self.fn = self.fn, n
            self.generic_visit(n)
            self.fn = prev
            return n

        def generic_visit(self, node):
            super().generic_visit(node)
            for fld in ("body", "orelse", "finalbody"):
                blk = getattr(node, fld, None)
                if isinstance(blk, list) and blk and isinstance(blk[0], ast.stmt):
                    setattr(node, fld, fix_block(blk, self.fn if not isinstance(node, ast.FunctionDef) else node))
            return node

        def visit_With(self, n):
            self.generic_visit(n)
            # with contextlib.suppress(E, ...): body   ->   try: body / except (E, ...): pass
            if len(n.items) == 1 and n.items[0].optional_vars is None and isinstance(n.items[0].context_expr, ast.Call):
                c = n.items[0].context_expr
                if norm(c.func) in ("contextlib.suppress", "suppress") and c.args and not c.keywords and not any(isinstance(a, ast.Starred) for a in c.args):
                    typ = c.args[0] if len(c.args) == 1 else ast.Tuple(elts=list(c.args), ctx=ast.Load())
                    h = ast.ExceptHandler(type=typ, name=None, body=[ast.Pass()])
                    t = ast.Try(body=n.body, handlers=[h], orelse=[], finalbody=[])
                    ast.copy_location(t, n)
                    ast.copy_location(h, n)
                    ast.copy_location(h.body[0], n)
                    return t
            return n

        def visit_If(self, n):
            self.generic_visit(n)
            if isinstance(n.test, ast.UnaryOp) and isinstance(n.test.op, ast.Not) and n.orelse and not (len(n.orelse) == 1 and isinstance(n.orelse[0], ast.If)):
                n.test, n.body, n.orelse = n.test.operand, n.orelse, n.body
            return n

        def visit_Compare(self, n):
            self.generic_visit(n)
            if len(n.ops) == 1 and type(n.ops[0]) in _flip and isinstance(n.left, ast.Constant) and isinstance(n.left.value, (int, float)) and not isinstance(n.left.value, bool) and not isinstance(n.comparators[0], ast.Constant):
                n.left, n.comparators, n.ops = n.comparators[0], [n.left], [_flip[type(n.ops[0])]()]
            return n

    return ast.fix_missing_locations(N().visit(tree))


class ModInfo:
    def __init__(self, name: str, relpath: str, text: str):
        self.name = name
        self.base = name.split(".")[-1]
        self.relpath = relpath
        self.text = text
        self.tree = canonicalise(ast.parse(text, filename=relpath))
        self.imports: Dict[str, str] = {}  # local name -> dotted target
        self.functions: Dict[str, FuncInfo] = {}
        self.classes: Dict[str, ClassInfo] = {}
        self.assigns: Dict[str, ast.AST] = {}  # module-level NAME = value
        self.assign_nodes: Dict[str, ast.stmt] = {}


def _decorator_kind(fn: ast.FunctionDef) -> str:
    for d in fn.decorator_list:
        t = norm(d)
        if t == "staticmethod":
            return "static"
        if t == "classmethod":
            return "classmethod"
        if t == "property":
            return "property"
    return "method"


class Program:
    def __init__(self) -> None:
        self.modules: Dict[str, ModInfo] = {}
        self.classes: Dict[str, ClassInfo] = {}
        self.funcs: Dict[str, FuncInfo] = {}
        self.lambdas: List[FuncInfo] = []
        self.digest = ""

    # ------------------------------------------------------------------ load
    @staticmethod
    def load(overrides: Optional[Dict[str, str]] = None, repo: Optional[str] = None) -> "Program":
        repo = repo or REPO
        root = os.path.join(repo, PKG_REL)
        if not os.path.isdir(root):
            raise AnalysisError("source root %s not found" % root)
        prog = Program()
        h = hashlib.sha256()
        paths = []
        for d, _dirs, files in os.walk(root):
            for f in files:
                if f.endswith(".py"):
                    paths.append(os.path.join(d, f))
        for rel in sorted(overrides or {}):
            # a module that exists only in the override set (a patch that adds a file)
            p = os.path.join(repo, rel)
            if rel.endswith(".py") and p.startswith(root + os.sep) and p not in paths:
                paths.append(p)
        for p in sorted(paths):
            rel = os.path.relpath(p, repo)
            if overrides and rel in overrides:
                text = overrides[rel]
            else:
                with open(p, encoding="utf-8") as fh:
                    text = fh.read()
            h.update(rel.encode())
            h.update(text.encode())
            modname = os.path.relpath(p, os.path.join(repo, "src"))[:-3].replace(os.sep, ".")
            if modname.endswith(".__init__"):
                modname = modname[: -len(".__init__")]
            try:
                mi = ModInfo(modname, rel, text)
            except SyntaxError as e:
                raise AnalysisError("cannot parse %s: %s" % (rel, e))
            prog.modules[modname] = mi
        prog.digest = h.hexdigest()
        missing = EXPECTED_MODULES - set(prog.modules)
        if missing:
            raise AnalysisError("modules vanished: %s" % sorted(missing))
        for _round in range(3):
            # (a helper that hands the class on to another helper is specialised first, the inner one in the next round)
            if not prog._specialise_exception_params():
                break
        for mi in prog.modules.values():
            prog._index_module(mi)
        prog._index_exception_factories()
        prog._index_forwarders()
        return prog

    def _specialise_exception_params(self) -> bool:
        """A module-level function that raises the class it receives as a parameter (`def check(..., error): ... raise
        error(...)`, a validation shared by two constructors that report with different classes) is replaced, before
        anything is indexed, by one copy per class its call sites pass (`check__ValueError`), the parameter substituted
        and the call sites redirected: what each caller can raise is then read off the copy it calls.  Done only when
        every reference to the function is a direct call that names the class."""
        import builtins
        import copy as _copy

        def is_exc_name(n: str) -> bool:
            b = getattr(builtins, n, None)
            if isinstance(b, type) and issubclass(b, BaseException):
                return True
            return n.endswith("Error") or n.endswith("Exception")

        changed = False
        for mi in list(self.modules.values()):
            for fn in [st for st in mi.tree.body if isinstance(st, ast.FunctionDef)]:
                a = fn.args
                if a.vararg or a.kwarg or a.posonlyargs:
                    continue
                names = [x.arg for x in a.args] + [x.arg for x in a.kwonlyargs]
                raised = set()
                for node in ast.walk(fn):
                    if isinstance(node, ast.Raise) and node.exc is not None:
                        e = node.exc.func if isinstance(node.exc, ast.Call) else node.exc
                        if isinstance(e, ast.Name) and e.id in names:
                            raised.add(e.id)
                stored = {n.id for n in ast.walk(fn) if isinstance(n, ast.Name) and isinstance(n.ctx, (ast.Store, ast.Del))}
                raised -= stored
                if len(raised) != 1:
                    continue
                par = next(iter(raised))
                # every reference to the function
                sites = []  # (module, call node, local name)
                ok = True
                for mj in self.modules.values():
                    local = None
                    imp_stmt = None
                    if mj is mi:
                        local = fn.name
                    for st in ast.walk(mj.tree):
                        if isinstance(st, ast.ImportFrom) and st.level == 0 and st.module == mi.name:
                            for al in st.names:
                                if al.name == fn.name:
                                    local, imp_stmt = al.asname or al.name, st
                    if local is None:
                        if any(isinstance(n, ast.Attribute) and n.attr == fn.name for n in ast.walk(mj.tree)):
                            ok = False  # reached through a module object: not followed
                        continue
                    calls = {id(n.func): n for n in ast.walk(mj.tree) if isinstance(n, ast.Call) and isinstance(n.func, ast.Name) and n.func.id == local}
                    for n in ast.walk(mj.tree):
                        if isinstance(n, ast.Name) and n.id == local and isinstance(n.ctx, ast.Load) and id(n) not in calls:
                            ok = False  # passed around as a value
                    for c in calls.values():
                        sites.append((mj, c, local, imp_stmt))
                if not ok or not sites:
                    continue
                defaults = dict(zip([x.arg for x in a.args][len(a.args) - len(a.defaults):], a.defaults))
                defaults.update({x.arg: d for x, d in zip(a.kwonlyargs, a.kw_defaults) if d is not None})
                plan = []
                for mj, c, local, imp_stmt in sites:
                    if any(isinstance(x, ast.Starred) for x in c.args) or any(k.arg is None for k in c.keywords):
                        ok = False
                        break
                    pos = [x.arg for x in a.args]
                    expr = None
                    where = None
                    for k in c.keywords:
                        if k.arg == par:
                            expr, where = k.value, ("kw", k)
                    if expr is None and par in pos and pos.index(par) < len(c.args):
                        expr, where = c.args[pos.index(par)], ("pos", pos.index(par))
                    if expr is None:
                        expr = defaults.get(par)
                    cname = expr.id if isinstance(expr, ast.Name) else expr.attr if isinstance(expr, ast.Attribute) else None
                    if cname is None or not is_exc_name(cname):
                        ok = False
                        break
                    plan.append((mj, c, local, imp_stmt, where, cname))
                if not ok:
                    continue
                made: Dict[str, str] = {}
                at = mi.tree.body.index(fn)
                for cname in sorted({x[5] for x in plan}):
                    clone = _copy.deepcopy(fn)
                    clone.name = "%s__%s" % (fn.name, cname)
                    ca = clone.args
                    if par in [x.arg for x in ca.args]:
                        i = [x.arg for x in ca.args].index(par)
                        nd = len(ca.defaults)
                        first_default = len(ca.args) - nd
                        if i >= first_default:
                            del ca.defaults[i - first_default]
                        del ca.args[i]
                    else:
                        i = [x.arg for x in ca.kwonlyargs].index(par)
                        del ca.kwonlyargs[i]
                        del ca.kw_defaults[i]
                    for n in ast.walk(clone):
                        if isinstance(n, ast.Name) and n.id == par:
                            n.id = cname
                    made[cname] = clone.name
                    at += 1
                    mi.tree.body.insert(at, clone)
                    # the class must be a name of the module the copy lives in: bring the caller's import along
                    bound = getattr(builtins, cname, None) is not None or any(
                        (isinstance(st, (ast.ClassDef, ast.FunctionDef)) and st.name == cname)
                        or (isinstance(st, (ast.Import, ast.ImportFrom)) and any((al.asname or al.name) == cname for al in st.names))
                        for st in mi.tree.body
                    )
                    if not bound:
                        src = None
                        for mj, _c, _l, _i, _w, cn in plan:
                            if cn != cname:
                                continue
                            for st in mj.tree.body:
                                if isinstance(st, ast.ImportFrom) and st.level == 0 and any((al.asname or al.name) == cname for al in st.names):
                                    al = [x for x in st.names if (x.asname or x.name) == cname][0]
                                    src = ast.ImportFrom(module=st.module, names=[ast.alias(name=al.name, asname=al.asname)], level=0)
                                elif isinstance(st, ast.ClassDef) and st.name == cname:
                                    src = ast.ImportFrom(module=mj.name, names=[ast.alias(name=cname, asname=None)], level=0)
                            if src is not None:
                                break
                        if src is not None:
                            ast.copy_location(src, fn)
                            ast.fix_missing_locations(src)
                            k = 0
                            while k < len(mi.tree.body) and (isinstance(mi.tree.body[k], (ast.Import, ast.ImportFrom)) or (isinstance(mi.tree.body[k], ast.Expr) and isinstance(mi.tree.body[k].value, ast.Constant))):
                                k += 1
                            mi.tree.body.insert(k, src)
                            at += 1
                mi.tree.body.remove(fn)
                changed = True
                for mj, c, local, imp_stmt, where, cname in plan:
                    new_local = made[cname] if mj is mi else "%s__%s" % (local, cname)
                    c.func.id = new_local
                    if where is not None and where[0] == "kw":
                        c.keywords.remove(where[1])
                    elif where is not None:
                        del c.args[where[1]]
                    if imp_stmt is not None and not any((al.asname or al.name) == new_local for al in imp_stmt.names):
                        imp_stmt.names.append(ast.alias(name=made[cname], asname=new_local if new_local != made[cname] else None))
        return changed

    def _index_forwarders(self) -> None:
        """F is a forwarder of G when F's whole body is `return G(<F's own parameters, in order>)` (a method body moved
        into a module-level function, the method kept as a thin wrapper): a call of G is then a call of F.
        self.forwarded: G.key -> F.key (only when exactly one F forwards to G)."""
        fw: Dict[str, List[str]] = {}
        for fi in self.funcs.values():
            if isinstance(fi.node, ast.Lambda) or fi.kind not in ("function", "static"):
                continue
            body = [st for st in fi.node.body if not (isinstance(st, ast.Expr) and isinstance(st.value, ast.Constant))]
            if len(body) != 1 or not isinstance(body[0], ast.Return) or not isinstance(body[0].value, ast.Call):
                continue
            c = body[0].value
            if not isinstance(c.func, ast.Name) or any(isinstance(a, ast.Starred) for a in c.args):
                continue
            g = self.resolve_name(fi.module, c.func.id)
            if g.__class__.__name__ != "FuncInfo" or g.kind != "function":
                continue
            passed = [a.id if isinstance(a, ast.Name) else None for a in c.args]
            bykw = {k.arg: (k.value.id if isinstance(k.value, ast.Name) else None) for k in c.keywords}
            if passed != fi.params[: len(passed)] or any(k != v for k, v in bykw.items()):
                continue
            if len(passed) + len(bykw) != len(fi.params) or g.params[: len(passed)] != fi.params[: len(passed)] and len(g.params) != len(fi.params):
                continue
            fw.setdefault(g.key, []).append(fi.key)
        self.forwarded = {g: fs[0] for g, fs in fw.items() if len(fs) == 1}

    def _index_exception_factories(self) -> None:
        """Helpers that only build and return an error object (`raise self._failure(...)`): name -> class raised.
        Published to pv.cfg so that every reader of a `raise` statement sees the class, not the helper's name."""
        import builtins

        def is_exc(name: str, seen=()) -> bool:
            b = getattr(builtins, name, None)
            if isinstance(b, type) and issubclass(b, BaseException):
                return True
            ci = self.classes.get(name)
            if ci is None or name in seen:
                return name.endswith(("Error", "Exception"))
            return any(is_exc(norm(x).split(".")[-1], seen + (name,)) for x in ci.node.bases)

        table: Dict[str, Optional[str]] = {}

        def consider(name: str, node: ast.AST) -> None:
            if isinstance(node, ast.Lambda):
                values = [node.body]
            else:
                own = [n for n in ast.walk(node) if isinstance(n, ast.Return)]
                nested = {id(r) for sub in ast.walk(node) if sub is not node and isinstance(sub, (ast.FunctionDef, ast.Lambda)) for r in ast.walk(sub) if isinstance(r, ast.Return)}
                values = [r.value for r in own if id(r) not in nested]
            if not values:
                return
            classes = set()
            for v in values:
                if v is None or (isinstance(v, ast.Constant) and v.value is None):
                    continue  # "no error": the caller tests for None before raising
                f = v.func if isinstance(v, ast.Call) else None
                nm = f.id if isinstance(f, ast.Name) else (f.attr if isinstance(f, ast.Attribute) else None)
                classes.add(nm if nm and is_exc(nm) and nm not in table else None)
            if len(classes) == 1 and None not in classes:
                c = classes.pop()
                # two helpers of the same simple name that build different classes: ambiguous, keep neither
                table[name] = c if table.get(name, c) == c else None

        for fi in self.funcs.values():
            if isinstance(fi.node, ast.Lambda):
                continue
            consider(fi.name, fi.node)
            # local factories: a nested `def` or a lambda bound to a name inside the function
            for sub in ast.walk(fi.node):
                if sub is not fi.node and isinstance(sub, ast.FunctionDef):
                    consider(sub.name, sub)
                elif isinstance(sub, ast.Assign) and len(sub.targets) == 1 and isinstance(sub.targets[0], ast.Name) and isinstance(sub.value, ast.Lambda):
                    consider(sub.targets[0].id, sub.value)
        self.exc_factories = {k: v for k, v in table.items() if v}
        from . import cfg as _cfg

        _cfg.EXC_FACTORIES = dict(self.exc_factories)
        # `err = SomeError(...)` / `err = factory(...)` ... `raise err`: the class travels with the name
        for fi in self.funcs.values():
            if isinstance(fi.node, ast.Lambda):
                continue
            binds: Dict[str, List[ast.AST]] = {}
            for n in ast.walk(fi.node):
                if isinstance(n, ast.Assign) and len(n.targets) == 1 and isinstance(n.targets[0], ast.Name):
                    binds.setdefault(n.targets[0].id, []).append(n.value)
                elif isinstance(n, (ast.AugAssign, ast.AnnAssign, ast.For, ast.NamedExpr)) and isinstance(getattr(n, "target", None), ast.Name):
                    binds.setdefault(n.target.id, []).append(getattr(n, "value", None))
                elif isinstance(n, ast.ExceptHandler) and n.name:
                    binds.setdefault(n.name, []).append(None)
            for n in ast.walk(fi.node):
                if isinstance(n, ast.Raise) and isinstance(n.exc, ast.Name):
                    vals = binds.get(n.exc.id, [])
                    classes = set()
                    for v in vals:
                        if isinstance(v, ast.Constant) and v.value is None:
                            continue  # a `None` sentinel before the real binding
                        c = _cfg.exc_class_of(v) if isinstance(v, ast.Call) else None
                        classes.add(c if c and is_exc(c) else None)
                    if len(classes) == 1 and None not in classes:
                        n.exc._exc_class = classes.pop()

    def _index_module(self, mi: ModInfo) -> None:
        for st in mi.tree.body:
            if isinstance(st, (ast.Import, ast.ImportFrom)):
                self._index_import(mi, st)
            elif isinstance(st, ast.FunctionDef):
                fi = FuncInfo("%s.%s" % (mi.base, st.name), st.name, st, mi, None, "function")
                mi.functions[st.name] = fi
                self.funcs[fi.key] = fi
            elif isinstance(st, ast.ClassDef):
                ci = ClassInfo(st.name, st, mi)
                mi.classes[st.name] = ci
                self.classes[st.name] = ci
                for cs in st.body:
                    if isinstance(cs, ast.FunctionDef):
                        fi = FuncInfo("%s.%s" % (st.name, cs.name), cs.name, cs, mi, ci, _decorator_kind(cs))
                        ci.methods[cs.name] = fi
                        self.funcs[fi.key] = fi
                    elif isinstance(cs, ast.Assign) and len(cs.targets) == 1 and isinstance(cs.targets[0], ast.Name):
                        ci.class_assigns[cs.targets[0].id] = cs.value
                    elif isinstance(cs, ast.AnnAssign) and isinstance(cs.target, ast.Name):
                        ci.fields.append((cs.target.id, cs.value))
                        if cs.value is not None:
                            ci.class_assigns[cs.target.id] = cs.value
            elif isinstance(st, ast.Assign) and len(st.targets) == 1 and isinstance(st.targets[0], ast.Name):
                mi.assigns[st.targets[0].id] = st.value
                mi.assign_nodes[st.targets[0].id] = st
            elif isinstance(st, ast.AnnAssign) and isinstance(st.target, ast.Name) and st.value is not None:
                mi.assigns[st.target.id] = st.value
                mi.assign_nodes[st.target.id] = st
            elif isinstance(st, ast.AugAssign) and isinstance(st.target, ast.Name):
                # e.g. grammar's  only_variable |= paren_terms
                mi.assign_nodes.setdefault(st.target.id, st)
        # lambdas anywhere in the module
        n = 0
        for node in ast.walk(mi.tree):
            if isinstance(node, ast.Lambda):
                n += 1
                fi = FuncInfo("%s.<lambda#%d>" % (mi.base, n), "<lambda>", node, mi, None, "lambda")
                self.lambdas.append(fi)

    def _index_import(self, mi: ModInfo, st: ast.stmt) -> None:
        if isinstance(st, ast.Import):
            for a in st.names:
                mi.imports[a.asname or a.name.split(".")[0]] = a.name if a.asname else a.name.split(".")[0]
        else:
            base = st.module or ""
            if st.level:
                parts = mi.name.split(".")
                # a package __init__ is the package itself
                is_pkg = mi.relpath.endswith("__init__.py")
                pkg = parts if is_pkg else parts[:-1]
                pkg = pkg[: len(pkg) - (st.level - 1)]
                base = ".".join(pkg + ([base] if base else []))
            for a in st.names:
                mi.imports[a.asname or a.name] = "%s.%s" % (base, a.name)

    # --------------------------------------------------------------- lookups
    def func(self, key: str) -> FuncInfo:
        fi = self.funcs.get(key)
        if fi is None:
            raise AnalysisError("anchor vanished: function %s not found in the source tree" % key)
        return fi

    def has_func(self, key: str) -> bool:
        return key in self.funcs

    def cls(self, name: str) -> ClassInfo:
        ci = self.classes.get(name)
        if ci is None:
            raise AnalysisError("anchor vanished: class %s not found in the source tree" % name)
        return ci

    def module(self, base: str) -> ModInfo:
        for m in self.modules.values():
            if m.base == base and not m.relpath.endswith("__init__.py"):
                return m
        raise AnalysisError("anchor vanished: module %s" % base)

    def mro(self, cname: str) -> List[ClassInfo]:
        out: List[ClassInfo] = []
        seen = set()

        def rec(n: str) -> None:
            if n in seen or n not in self.classes:
                return
            seen.add(n)
            ci = self.classes[n]
            out.append(ci)
            for b in ci.base_names:
                rec(b)

        rec(cname)
        return out

    def is_subclass(self, c: str, base: str) -> bool:
        return any(ci.name == base for ci in self.mro(c))

    def subclasses(self, cname: str) -> List[ClassInfo]:
        return [ci for ci in self.classes.values() if ci.name != cname and self.is_subclass(ci.name, cname)]

    def resolve_method(self, cname: str, meth: str) -> Optional[FuncInfo]:
        for ci in self.mro(cname):
            if meth in ci.methods:
                return ci.methods[meth]
        return None

    def resolve_super(self, cname: str, meth: str) -> Optional[FuncInfo]:
        for ci in self.mro(cname)[1:]:
            if meth in ci.methods:
                return ci.methods[meth]
        return None

    def all_functions(self) -> Iterator[FuncInfo]:
        for k in sorted(self.funcs):
            yield self.funcs[k]
        for fi in self.lambdas:
            yield fi

    def resolve_name(self, mi: ModInfo, name: str) -> Optional[object]:
        """Resolve a module-level name to FuncInfo / ClassInfo / ModInfo if it is package-internal."""
        if name in mi.functions:
            return mi.functions[name]
        if name in mi.classes:
            return mi.classes[name]
        tgt = mi.imports.get(name)
        if tgt is None:
            return None
        return self.resolve_dotted(tgt)

    def resolve_constant(self, mi: ModInfo, name: str, _depth: int = 0):
        """A module-level name (own or imported from a module of the package) that is bound once to an int / bool / str
        literal and never rebound: (True, value); otherwise (False, None).  Floats are left symbolic on purpose: the
        tolerance rules reason about the name, not the number."""
        if _depth > 4:
            return (False, None)
        if name in mi.assigns:
            binds = 0
            for st in ast.walk(mi.tree):
                if isinstance(st, (ast.Assign, ast.AnnAssign, ast.AugAssign)):
                    tg = st.targets if isinstance(st, ast.Assign) else [st.target]
                    binds += sum(1 for t in tg for x in ast.walk(t) if isinstance(x, ast.Name) and x.id == name)
                elif isinstance(st, ast.Global) and name in st.names:
                    return (False, None)
            v = mi.assigns[name]
            if binds == 1 and isinstance(v, ast.Constant) and isinstance(v.value, (int, bool, str)) and not isinstance(v.value, float):
                return (True, v.value)
            return (False, None)
        tgt = mi.imports.get(name)
        if tgt and "." in tgt:
            modname, _, attr = tgt.rpartition(".")
            m = self.modules.get(modname)
            if m is not None:
                return self.resolve_constant(m, attr, _depth + 1)
        return (False, None)

    def resolve_table(self, mi: ModInfo, name: str):
        """A module-level name of this module bound once to a tuple display (a constant table): its AST, else None."""
        v = mi.assigns.get(name)
        if not isinstance(v, ast.Tuple):
            return None
        binds = 0
        for st in ast.walk(mi.tree):
            if isinstance(st, (ast.Assign, ast.AnnAssign, ast.AugAssign)):
                tg = st.targets if isinstance(st, ast.Assign) else [st.target]
                binds += sum(1 for t in tg for x in ast.walk(t) if isinstance(x, ast.Name) and x.id == name)
            elif isinstance(st, ast.Global) and name in st.names:
                return None
        return v if binds == 1 else None

    def resolve_table2(self, mi: ModInfo, name: str, _depth: int = 0):
        """A module-level name (own, or imported from a module of the package) bound once to a constant table - a tuple,
        set or dict display, or frozenset/tuple/set/dict(<display>) - that nothing in the package writes to:
        (its AST, the module it lives in), else None."""
        if _depth > 4:
            return None
        if name in mi.assigns:
            v = mi.assigns[name]
            if isinstance(v, ast.Call) and isinstance(v.func, ast.Name) and v.func.id in ("frozenset", "tuple") and len(v.args) == 1 and not v.keywords and isinstance(v.args[0], (ast.Tuple, ast.List, ast.Set)):
                v = ast.Tuple(elts=list(v.args[0].elts), ctx=ast.Load())

            def joined(e, depth=0):
                """A + B of two tuple tables (names or displays): the display of all their items"""
                if isinstance(e, ast.Tuple):
                    return list(e.elts)
                if isinstance(e, ast.Name) and depth < 4:
                    r_ = self.resolve_table2(mi, e.id, _depth + 1)
                    if r_ is not None and isinstance(r_[0], ast.Tuple) and r_[1] is mi:
                        return list(r_[0].elts)
                    return None
                if isinstance(e, ast.BinOp) and isinstance(e.op, ast.Add) and depth < 4:
                    l_, r_ = joined(e.left, depth + 1), joined(e.right, depth + 1)
                    return None if l_ is None or r_ is None else l_ + r_
                return None

            if isinstance(v, ast.BinOp):
                items = joined(v)
                if items is not None:
                    v = ast.Tuple(elts=items, ctx=ast.Load())
            if not isinstance(v, (ast.Tuple, ast.Dict, ast.Set)):
                return None
            binds = 0
            for st in ast.walk(mi.tree):
                if isinstance(st, (ast.Assign, ast.AnnAssign, ast.AugAssign)):
                    tg = st.targets if isinstance(st, ast.Assign) else [st.target]
                    binds += sum(1 for t in tg for x in ast.walk(t) if isinstance(x, ast.Name) and x.id == name)
                elif isinstance(st, ast.Global) and name in st.names:
                    return None
            if binds != 1:
                return None
            if isinstance(v, (ast.Dict, ast.Set)):
                # a mutable table counts as constant only if nothing writes into it (item store, del, mutating method)
                for m in self.modules.values():
                    for node in ast.walk(m.tree):
                        tgt = None
                        if isinstance(node, (ast.Assign, ast.AugAssign, ast.Delete)):
                            for t in (node.targets if isinstance(node, (ast.Assign, ast.Delete)) else [node.target]):
                                if isinstance(t, ast.Subscript):
                                    tgt = t.value
                        elif isinstance(node, ast.Call) and isinstance(node.func, ast.Attribute) and node.func.attr in ("update", "pop", "popitem", "clear", "setdefault", "add", "remove", "discard", "__setitem__", "__delitem__"):
                            tgt = node.func.value
                        if tgt is not None:
                            last = tgt.attr if isinstance(tgt, ast.Attribute) else tgt.id if isinstance(tgt, ast.Name) else None
                            if last == name:
                                return None
            return (v, mi)
        tgt = mi.imports.get(name)
        if tgt and "." in tgt:
            modname, _, attr = tgt.rpartition(".")
            m = self.modules.get(modname)
            if m is not None:
                return self.resolve_table2(m, attr, _depth + 1)
        return None

    def resolve_dotted(self, dotted: str, _depth: int = 0) -> Optional[object]:
        if _depth > 6:
            return None
        if dotted in self.modules:
            return self.modules[dotted]
        if "." not in dotted:
            return None
        modname, _, attr = dotted.rpartition(".")
        m = self.modules.get(modname)
        if m is None:
            return None
        if attr in m.functions:
            return m.functions[attr]
        if attr in m.classes:
            return m.classes[attr]
        if attr in m.imports:
            return self.resolve_dotted(m.imports[attr], _depth + 1)
        return None
