"""Per-function statement control-flow graph (hand built, stdlib only).

Nodes are simple statements and the tests of compound statements.  Exception
edges: an explicit `raise`/`assert` goes to the first enclosing handler whose
class catches it (subclass table from utils/errors.py + builtins), otherwise to
the RAISE exit; every statement inside a `try` body additionally has a
may-raise edge to each handler of every enclosing try.  Calls outside a try
have no implicit exception edge (they would only go to the RAISE exit, which
no dominance / must-pass-through query here needs).
"""
from __future__ import annotations

import ast
from typing import Dict, Iterable, List, Optional, Set, Tuple

from .loader import AnalysisError, norm

BUILTIN_EXC_PARENTS = {
    "BaseException": None,
    "Exception": "BaseException",
    "ValueError": "Exception",
    "TypeError": "Exception",
    "KeyError": "LookupError",
    "IndexError": "LookupError",
    "LookupError": "Exception",
    "AssertionError": "Exception",
    "ArithmeticError": "Exception",
    "ZeroDivisionError": "ArithmeticError",
    "AttributeError": "Exception",
    "RuntimeError": "Exception",
    "NotImplementedError": "RuntimeError",
    "StopIteration": "Exception",
    "OSError": "Exception",
    "FileNotFoundError": "OSError",
    # third party roots used by the repo
    "ParseBaseException": "Exception",
    "ParseException": "ParseBaseException",
    "QhullError": "RuntimeError",
    "JSONDecodeError": "ValueError",
    "LinAlgError": "ValueError",
    "ParseFatalException": "ParseBaseException",
    "ParseSyntaxException": "ParseFatalException",
}


class ExcTable:
    """Exception class hierarchy: builtins + classes defined in the package."""

    def __init__(self, prog=None):
        self.parent: Dict[str, Optional[str]] = dict(BUILTIN_EXC_PARENTS)
        if prog is not None:
            for ci in prog.classes.values():
                for b in ci.base_names:
                    if b in self.parent or b in prog.classes:
                        # only record exception-ish classes
                        if b in self.parent or self._is_exc(prog, b):
                            self.parent[ci.name] = b
                            break

    def _is_exc(self, prog, name: str, depth: int = 0) -> bool:
        if name in self.parent:
            return True
        if depth > 5 or name not in prog.classes:
            return False
        return any(self._is_exc(prog, b, depth + 1) for b in prog.classes[name].base_names)

    def is_sub(self, c: str, base: str) -> bool:
        seen = 0
        while c is not None and seen < 20:
            if c == base:
                return True
            c = self.parent.get(c)
            seen += 1
        return False

    def known(self, c: str) -> bool:
        return c in self.parent


# helpers that only build and return an error object, for the program loaded last (set by pv.loader)
EXC_FACTORIES: Dict[str, str] = {}


def exc_class_of(expr: Optional[ast.AST]) -> Optional[str]:
    """Class name of `raise X(...)` / `raise X` / `raise mod.X(...)`; None if unknown (e.g. re-raise of a variable)."""
    if expr is None:
        return None
    if getattr(expr, "_exc_class", None):
        return expr._exc_class  # a name bound once to an error object in this function (annotated by pv.loader)
    called = isinstance(expr, ast.Call)
    if called:
        expr = expr.func
    name = expr.id if isinstance(expr, ast.Name) else (expr.attr if isinstance(expr, ast.Attribute) else None)
    if called and name in EXC_FACTORIES:
        return EXC_FACTORIES[name]  # `raise helper(...)`, the helper only building the error object
    return name


def handler_classes(h: ast.ExceptHandler) -> List[str]:
    if h.type is None:
        return ["BaseException"]
    t = h.type
    elts = t.elts if isinstance(t, ast.Tuple) else [t]
    out = []
    for e in elts:
        if isinstance(e, ast.Name):
            out.append(e.id)
        elif isinstance(e, ast.Attribute):
            out.append(e.attr)
        else:
            out.append("?")
    return out


class Node:
    __slots__ = ("id", "kind", "ast", "owner")

    def __init__(self, nid: int, kind: str, a: Optional[ast.AST], owner: Optional[ast.AST] = None):
        self.id = nid
        self.kind = kind  # entry | stmt | test | for | handler | return | raise | assert | exit_return | exit_raise
        self.ast = a
        self.owner = owner  # the compound statement for tests

    def __repr__(self) -> str:
        t = norm(self.ast)[:60] if self.ast is not None else ""
        return "<%d %s %s>" % (self.id, self.kind, t)


class CFG:
    def __init__(self, fn: ast.AST, exc: Optional[ExcTable] = None):
        self.fn = fn
        self.exc = exc or ExcTable()
        self.nodes: List[Node] = []
        self.succ: Dict[int, List[Tuple[int, str]]] = {}
        self.pred: Dict[int, List[Tuple[int, str]]] = {}
        self.entry = self._new("entry", None).id
        self.exit_return = self._new("exit_return", None).id
        self.exit_raise = self._new("exit_raise", None).id
        self._loops: List[dict] = []
        self._tries: List[List[Tuple[int, List[str]]]] = []  # stack of handler lists [(node id, classes)]
        self.by_ast: Dict[int, int] = {}
        body = fn.body if not isinstance(fn, ast.Lambda) else [ast.Return(value=fn.body)]
        fr = self._seq(body, [(self.entry, "next")])
        for (n, lab) in fr:
            self._edge(n, self.exit_return, lab)  # implicit return None
        self._dom: Optional[Dict[int, Set[int]]] = None

    # -- construction ------------------------------------------------------
    def _new(self, kind: str, a: Optional[ast.AST], owner: Optional[ast.AST] = None) -> Node:
        n = Node(len(self.nodes), kind, a, owner)
        self.nodes.append(n)
        self.succ[n.id] = []
        self.pred[n.id] = []
        if a is not None:
            self.by_ast.setdefault(id(a), n.id)
        if owner is not None:
            self.by_ast.setdefault(id(owner), n.id)
        # may-raise edges to every enclosing handler
        if kind in ("stmt", "test", "for", "return", "assert") and self._tries:
            for hl in self._tries:
                for (hid, _cls) in hl:
                    self._edge(n.id, hid, "exc")
        return n

    def _edge(self, a: int, b: int, label: str) -> None:
        if (b, label) not in self.succ[a]:
            self.succ[a].append((b, label))
            self.pred[b].append((a, label))

    def _connect(self, frontier: Iterable[Tuple[int, str]], to: int) -> None:
        for (n, lab) in frontier:
            self._edge(n, to, lab)

    def _seq(self, stmts: List[ast.stmt], frontier: List[Tuple[int, str]]) -> List[Tuple[int, str]]:
        for s in stmts:
            frontier = self._stmt(s, frontier)
        return frontier

    def _raise_target(self, cls: Optional[str]) -> List[int]:
        """Where does an explicit raise of class `cls` go from the current try nesting?"""
        unknown = cls is None or not self.exc.known(cls)
        maybe: List[int] = []
        for hl in reversed(self._tries):
            for (hid, hcls) in hl:
                if unknown:
                    # unknown class: may or may not be caught -> conservatively both
                    maybe.append(hid)
                elif any(self.exc.is_sub(cls, hc) for hc in hcls):
                    return [hid]
        return maybe + [self.exit_raise]

    def _stmt(self, s: ast.stmt, frontier: List[Tuple[int, str]]) -> List[Tuple[int, str]]:
        if isinstance(s, ast.If):
            t = self._new("test", s.test, s)
            self._connect(frontier, t.id)
            f1 = self._seq(s.body, [(t.id, "true")])
            f2 = self._seq(s.orelse, [(t.id, "false")])
            return f1 + f2
        if isinstance(s, ast.While):
            t = self._new("test", s.test, s)
            self._connect(frontier, t.id)
            ctx = {"head": t.id, "breaks": []}
            self._loops.append(ctx)
            bf = self._seq(s.body, [(t.id, "true")])
            self._connect(bf, t.id)
            self._loops.pop()
            const_true = isinstance(s.test, ast.Constant) and bool(s.test.value)
            ef = [] if const_true else self._seq(s.orelse, [(t.id, "false")])
            return ef + ctx["breaks"]
        if isinstance(s, ast.For):
            h = self._new("for", s.iter, s)
            self._connect(frontier, h.id)
            ctx = {"head": h.id, "breaks": []}
            self._loops.append(ctx)
            bf = self._seq(s.body, [(h.id, "iter")])
            self._connect(bf, h.id)
            self._loops.pop()
            ef = self._seq(s.orelse, [(h.id, "done")])
            return ef + ctx["breaks"]
        if isinstance(s, ast.Try):
            hl = []
            for h in s.handlers:
                hn = self._new_handler(h)
                hl.append((hn.id, handler_classes(h)))
            self._tries.append(hl)
            bf = self._seq(s.body, frontier)
            self._tries.pop()
            ef = self._seq(s.orelse, bf)
            out = list(ef)
            for h, (hid, _c) in zip(s.handlers, hl):
                out += self._seq(h.body, [(hid, "next")])
            if s.finalbody:
                out = self._seq(s.finalbody, out)
            return out
        if isinstance(s, ast.With):
            n = self._new("stmt", s, None)
            self._connect(frontier, n.id)
            return self._seq(s.body, [(n.id, "next")])
        if isinstance(s, ast.Return):
            n = self._new("return", s)
            self._connect(frontier, n.id)
            self._edge(n.id, self.exit_return, "return")
            return []
        if isinstance(s, ast.Raise):
            n = self._new("raise", s)
            self._connect(frontier, n.id)
            cls = exc_class_of(s.exc)
            for t in self._raise_target(cls):
                self._edge(n.id, t, "raise")
            return []
        if isinstance(s, ast.Assert):
            n = self._new("assert", s)
            self._connect(frontier, n.id)
            for t in self._raise_target("AssertionError"):
                self._edge(n.id, t, "assert_fail")
            return [(n.id, "next")]
        if isinstance(s, ast.Break):
            if not self._loops:
                raise AnalysisError("break outside loop")
            n = self._new("stmt", s)
            self._connect(frontier, n.id)
            self._loops[-1]["breaks"].append((n.id, "break"))
            return []
        if isinstance(s, ast.Continue):
            n = self._new("stmt", s)
            self._connect(frontier, n.id)
            self._edge(n.id, self._loops[-1]["head"], "continue")
            return []
        if isinstance(s, (ast.Match, ast.AsyncFor, ast.AsyncWith, ast.AsyncFunctionDef)):
            raise AnalysisError("statement kind %s is outside the CFG fragment" % type(s).__name__)
        n = self._new("stmt", s)
        self._connect(frontier, n.id)
        return [(n.id, "next")]

    def _new_handler(self, h: ast.ExceptHandler) -> Node:
        # handler nodes are created outside the try ctx they belong to, but inside enclosing ones
        n = Node(len(self.nodes), "handler", h, None)
        self.nodes.append(n)
        self.succ[n.id] = []
        self.pred[n.id] = []
        self.by_ast[id(h)] = n.id
        return n

    # -- queries -----------------------------------------------------------
    def node_of(self, a: ast.AST) -> Optional[int]:
        return self.by_ast.get(id(a))

    def reachable(self, start: Optional[int] = None, avoid: Iterable[int] = ()) -> Set[int]:
        start = self.entry if start is None else start
        avoid = set(avoid)
        seen: Set[int] = set()
        st = [start]
        while st:
            x = st.pop()
            if x in seen or x in avoid:
                continue
            seen.add(x)
            for (y, _l) in self.succ[x]:
                st.append(y)
        return seen

    def dominators(self) -> Dict[int, Set[int]]:
        if self._dom is not None:
            return self._dom
        reach = self.reachable()
        allr = set(reach)
        dom = {n: set(allr) for n in reach}
        dom[self.entry] = {self.entry}
        changed = True
        order = sorted(reach)
        while changed:
            changed = False
            for n in order:
                if n == self.entry:
                    continue
                ps = [p for (p, _l) in self.pred[n] if p in reach]
                if not ps:
                    continue
                new = set.intersection(*(dom[p] for p in ps)) | {n}
                if new != dom[n]:
                    dom[n] = new
                    changed = True
        self._dom = dom
        return dom

    def dominates(self, a: int, b: int) -> bool:
        d = self.dominators()
        return b in d and a in d[b]

    def can_reach_avoiding(self, start: int, targets: Iterable[int], avoid: Iterable[int]) -> bool:
        """Is some target reachable from start without passing a node in avoid (start itself exempt)?"""
        targets = set(targets)
        avoid = set(avoid)
        seen: Set[int] = set()
        st = [y for (y, _l) in self.succ[start]]
        while st:
            x = st.pop()
            if x in seen:
                continue
            seen.add(x)
            if x in avoid:
                continue
            if x in targets:
                return True
            for (y, _l) in self.succ[x]:
                st.append(y)
        return False

    def stmts(self, kinds=("stmt", "return", "raise", "assert", "test", "for")) -> List[Node]:
        r = self.reachable()
        return [n for n in self.nodes if n.id in r and n.kind in kinds]

    def edge_targets(self, nid: int, label: str) -> List[int]:
        return [y for (y, l) in self.succ[nid] if l == label]
