"""Membership truth tables and existential/universal conditions over them.

The interface bookkeeping of the algebra layer uses only list_union / list_diff /
list_intersection, which act pointwise on membership.  A list-of-variables
expression is therefore a Boolean function of a few membership atoms per variable
("v in self.inputvars", ...).  A function is stored as a bit mask over all 2^N
rows (N <= MAXATOMS); equality under a path condition is equality on the allowed
rows.  This is a complete decision procedure for the fragment, for any number of
variables.

Conditions such as `len(list_intersection(a, b)) > 0` are existential: E(f) =
"some variable lies in f".  Several E-atoms are decided together by enumerating
which of the (few) non-empty cells of the partition they induce are inhabited.
"""
from __future__ import annotations

from itertools import product
from typing import Dict, Iterable, List, Optional, Sequence, Tuple

from .loader import AnalysisError

MAXATOMS = 16
NROWS = 1 << MAXATOMS
ONES = (1 << NROWS) - 1


_MASKS: List[int] = []


def _atom_mask(i: int) -> int:
    while len(_MASKS) <= i:
        j = len(_MASKS)
        _MASKS.append(ONES ^ (ONES // ((1 << (1 << j)) + 1)))
    return _MASKS[i]


class Atoms:
    """Atom registry for one analysis run."""

    def __init__(self) -> None:
        self.names: List[str] = []
        self.masks: Dict[str, int] = {}

    def atom(self, name: str) -> int:
        if name not in self.masks:
            if len(self.names) >= MAXATOMS:
                raise AnalysisError("more than %d membership atoms needed" % MAXATOMS)
            self.masks[name] = _atom_mask(len(self.names))
            self.names.append(name)
        return self.masks[name]

    def has(self, name: str) -> bool:
        return name in self.masks

    def describe(self, tt: int, allowed: int = ONES, maxatoms: Optional[Sequence[str]] = None) -> str:
        """A readable DNF-ish description restricted to the atoms the function depends on."""
        tt &= allowed
        if tt == 0:
            return "{}"
        dep = [n for n in self.names if self.depends(tt, n, allowed)]
        if not dep:
            return "ALL"
        rows = []
        for bits in product([0, 1], repeat=len(dep)):
            m = allowed
            for n, b in zip(dep, bits):
                m &= self.masks[n] if b else (ONES ^ self.masks[n])
            if m == 0:
                continue
            if m & tt == m:
                rows.append("&".join(("" if b else "!") + n for n, b in zip(dep, bits)))
            elif m & tt:
                rows.append("~(" + "&".join(("" if b else "!") + n for n, b in zip(dep, bits)) + ")")
        return " | ".join(rows)

    def depends(self, tt: int, name: str, allowed: int = ONES) -> bool:
        i = self.names.index(name)
        sh = 1 << i
        m = self.masks[name]
        # compare cofactors on allowed rows: rows with bit i = 1 shifted down vs rows with bit 0
        hi = (tt & m) >> sh
        lo = tt & (ONES ^ m)
        ahi = (allowed & m) >> sh
        alo = allowed & (ONES ^ m)
        both = ahi & alo
        return ((hi ^ lo) & both) != 0


def neg(tt: int) -> int:
    return ONES ^ tt


# ---------------------------------------------------------------------------
# Conditions: tuples
#   ("const", bool) | ("E", tt) | ("op", name) | ("not", c) | ("and", [c..]) | ("or", [c..])
# ---------------------------------------------------------------------------
TRUE = ("const", True)
FALSE = ("const", False)


def c_not(c):
    if c[0] == "const":
        return ("const", not c[1])
    if c[0] == "not":
        return c[1]
    return ("not", c)


def c_and(cs):
    out = []
    for c in cs:
        if c[0] == "const":
            if not c[1]:
                return FALSE
            continue
        out.append(c)
    if not out:
        return TRUE
    if len(out) == 1:
        return out[0]
    return ("and", tuple(out))


def c_or(cs):
    out = []
    for c in cs:
        if c[0] == "const":
            if c[1]:
                return TRUE
            continue
        out.append(c)
    if not out:
        return FALSE
    if len(out) == 1:
        return out[0]
    return ("or", tuple(out))


def c_atoms(c, acc=None):
    if acc is None:
        acc = {"E": [], "op": []}
    if c[0] == "E":
        if c[1] not in acc["E"]:
            acc["E"].append(c[1])
    elif c[0] == "op":
        if c[1] not in acc["op"]:
            acc["op"].append(c[1])
    elif c[0] == "not":
        c_atoms(c[1], acc)
    elif c[0] in ("and", "or"):
        for x in c[1]:
            c_atoms(x, acc)
    return acc


def c_eval(c, evals: Dict[int, bool], ops: Dict[str, bool]) -> bool:
    k = c[0]
    if k == "const":
        return c[1]
    if k == "E":
        return evals[c[1]]
    if k == "op":
        return ops[c[1]]
    if k == "not":
        return not c_eval(c[1], evals, ops)
    if k == "and":
        return all(c_eval(x, evals, ops) for x in c[1])
    if k == "or":
        return any(c_eval(x, evals, ops) for x in c[1])
    raise AnalysisError("bad condition %r" % (c,))


def models(conds: Sequence, allowed: int, max_cells: int = 18) -> Iterable[Tuple[Dict[int, bool], Dict[str, bool]]]:
    """Enumerate all 'topology models' relevant to the given conditions.

    The E-atoms f1..fk partition the allowed rows into cells; any subset of the
    non-empty cells may be inhabited.  Yields (value of each E-atom, value of each
    opaque atom) for every subset x every opaque assignment.
    """
    acc = {"E": [], "op": []}
    for c in conds:
        c_atoms(c, acc)
    fs = acc["E"]
    ops = acc["op"]
    cells: Dict[Tuple[bool, ...], int] = {}
    # enumerate sign vectors lazily
    work = [((), allowed)]
    for f in fs:
        nxt = []
        for (sig, m) in work:
            a = m & f
            b = m & neg(f)
            if a:
                nxt.append((sig + (True,), a))
            if b:
                nxt.append((sig + (False,), b))
        work = nxt
        if len(work) > 4096:
            raise AnalysisError("too many membership cells")
    # cells in which no E-atom is true are irrelevant
    rel = [sig for (sig, _m) in work if any(sig)]
    if len(rel) > max_cells:
        raise AnalysisError("condition needs %d inhabited-cell atoms (> %d)" % (len(rel), max_cells))
    for inh in product([False, True], repeat=len(rel)):
        evals = {}
        for i, f in enumerate(fs):
            evals[f] = any(on and sig[i] for sig, on in zip(rel, inh))
        for opv in product([False, True], repeat=len(ops)):
            yield evals, dict(zip(ops, opv))


_SAT_CACHE: Dict[Tuple, bool] = {}


def _restrict(c, allowed: int):
    k = c[0]
    if k == "E":
        t = c[1] & allowed
        return ("E", t) if t else FALSE
    if k == "not":
        return c_not(_restrict(c[1], allowed))
    if k == "and":
        return c_and([_restrict(x, allowed) for x in c[1]])
    if k == "or":
        return c_or([_restrict(x, allowed) for x in c[1]])
    return c


def satisfiable(conds: Sequence, allowed: int) -> bool:
    """Is the conjunction of the conditions satisfiable by some topology?"""
    conds = [_restrict(c, allowed) for c in conds]
    conds = [c for c in conds if c != TRUE]
    if any(c == FALSE for c in conds):
        return False
    if not conds:
        return True
    key = (frozenset(conds), allowed)
    r = _SAT_CACHE.get(key)
    if r is not None:
        return r
    r = False
    for evals, ops in models(conds, allowed):
        if all(c_eval(c, evals, ops) for c in conds):
            r = True
            break
    if len(_SAT_CACHE) > 200000:
        _SAT_CACHE.clear()
    _SAT_CACHE[key] = r
    return r


def implies(hyps: Sequence, concl, allowed: int) -> bool:
    return not satisfiable(list(hyps) + [c_not(concl)], allowed)


def equivalent(c1, c2, allowed: int, hyps: Sequence = ()) -> bool:
    for evals, ops in models(list(hyps) + [c1, c2], allowed):
        if all(c_eval(h, evals, ops) for h in hyps):
            if c_eval(c1, evals, ops) != c_eval(c2, evals, ops):
                return False
    return True


def c_show(c, atoms: Atoms, allowed: int = ONES) -> str:
    k = c[0]
    if k == "const":
        return str(c[1])
    if k == "E":
        return "EXISTS v in {%s}" % atoms.describe(c[1], allowed)
    if k == "op":
        return str(c[1])
    if k == "not":
        return "not(%s)" % c_show(c[1], atoms, allowed)
    return "(" + (" %s " % k).join(c_show(x, atoms, allowed) for x in c[1]) + ")"
