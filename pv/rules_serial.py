"""C10 (structural clauses): writer/reader table agreement, exactness of the machine form, printer shape."""
from __future__ import annotations

import ast
from typing import Dict, List, Optional, Set, Tuple

from .flow import Flow
from .loader import AnalysisError, FuncInfo, Program, norm
from .pathsim import PPath, Sim, const, is_const, mentions, show, walk
from .report import Ctx

PIC = "PolyhedralIoContract."


def _dict_literal_keys(fn: ast.AST) -> List[Tuple[str, ast.AST]]:
    out = []
    for node in ast.walk(fn):
        if isinstance(node, ast.Dict):
            for k, v in zip(node.keys, node.values):
                if isinstance(k, ast.Constant) and isinstance(k.value, str):
                    out.append((k.value, v))
    return out


def _subscript_store_keys(fn: ast.AST) -> List[Tuple[str, str, ast.AST]]:
    """(base name, key, value) for  base["key"] = value."""
    out = []
    for node in ast.walk(fn):
        if isinstance(node, ast.Assign) and isinstance(node.targets[0], ast.Subscript):
            t = node.targets[0]
            if isinstance(t.value, ast.Name) and isinstance(t.slice, ast.Constant) and isinstance(t.slice.value, str):
                out.append((t.value.id, t.slice.value, node.value))
    return out


def _subscript_read_keys(fn: ast.AST, exclude_stores: bool = True) -> List[Tuple[str, str]]:
    out = []
    for node in ast.walk(fn):
        if isinstance(node, ast.Subscript) and isinstance(node.ctx, ast.Load) and isinstance(node.value, ast.Name) and isinstance(node.slice, ast.Constant) and isinstance(node.slice.value, str):
            out.append((node.value.id, node.slice.value))
    return out


FIELD_OF_KEY = {"assumptions": "a", "guarantees": "g", "input_vars": "inputvars", "output_vars": "outputvars"}


def rule_dict_tables(ctx: Ctx, rule: str = "writer-reader-tables") -> None:
    prog = ctx.prog
    from .rules_exc import _required_keys

    tm = prog.func(PIC + "to_machine_dict")
    fd = prog.func(PIC + "from_dict")
    td = prog.func(PIC + "to_dict")
    fs = prog.func(PIC + "from_strings")
    val = prog.func("serializer.validate_contract_dict")
    chk = prog.func("serializer._check_clause")
    # --- machine form
    if ctx.extra.get("machine_roundtrip_decided"):
        # the symbolic round trip (rule machine-roundtrip, run before this one) went through writer, validator and
        # reader: the agreement of their key tables, which this block reads off the syntax, is implied
        ctx.ok(rule, tm.key, "machine form: writer / validator / reader key tables agree (decided by the symbolic round trip)", nontrivial=False)
        _string_form_tables(ctx, rule, prog, td, fs, val)
        return
    fl = Flow(tm.node)
    rets = [n for n in ast.walk(tm.node) if isinstance(n, ast.Return) and isinstance(n.value, ast.Dict)]
    if len(rets) != 1:
        ctx.cannot_decide(rule, tm.key, "returned dictionary", "to_machine_dict does not return one dict literal")
        return
    top = {k.value: v for k, v in zip(rets[0].value.keys, rets[0].value.values) if isinstance(k, ast.Constant)}
    from .rules_exc import with_new_helpers

    clause_keys: Set[str] = set()
    for root in with_new_helpers(prog, tm):
        for k, v in _dict_literal_keys(root):
            if root is not tm.node or k not in top:
                clause_keys.add(k)

    read_top = {k for b, k in _subscript_read_keys(fd.node) if b == fd.params[0]}
    read_clause = {k for root in with_new_helpers(prog, fd) for b, k in _subscript_read_keys(root) if not (root is fd.node and b == fd.params[0])}
    req_top = _required_keys(val, prog)
    req_clause = _required_keys(chk, prog)
    for name, a, b in (
        ("top-level keys written by to_machine_dict = keys read by from_dict", set(top), read_top),
        ("top-level keys written by to_machine_dict = keys required by validate_contract_dict", set(top), req_top),
        ("clause keys written by to_machine_dict = keys read by from_dict", clause_keys, read_clause),
        ("clause keys written by to_machine_dict = keys required by _check_clause", clause_keys, req_clause),
    ):
        if a == b and a:
            ctx.ok(rule, tm.key, name + ": %s" % sorted(a))
        else:
            ctx.violation(rule, tm.key, name, "written %s vs %s" % (sorted(a), sorted(b)), where=tm.where)
    # each key carries the matching field
    me = tm.params[0]
    for k, v in sorted(top.items()):
        fld = FIELD_OF_KEY.get(k)
        if fld is None:
            continue
        src = fl.sources(v)
        want = "%s.%s" % (me, fld)
        others = {"%s.%s" % (me, f) for f in FIELD_OF_KEY.values()} - {want}
        construct = "to_machine_dict['%s'] is built from self.%s" % (k, fld)
        if want in src and not (src & others):
            ctx.ok(rule, tm.key, construct)
        else:
            ctx.violation(rule, tm.key, construct, "sources: %s" % sorted(s for s in src if s.startswith(me + ".")), where=tm.where)
    # reader: constructor receives each field from the matching key
    flr = Flow(fd.node)
    ctor = [n for n in ast.walk(fd.node) if isinstance(n, ast.Return) and isinstance(n.value, ast.Call)]
    for r in ctor:
        for kw in r.value.keywords:
            if kw.arg in FIELD_OF_KEY:
                keys = _keys_in(flr, kw.value, fd.params[0])
                construct = "from_dict passes %s from contract['%s']" % (kw.arg, kw.arg)
                if keys == {kw.arg}:
                    ctx.ok(rule, fd.key, construct)
                else:
                    ctx.violation(rule, fd.key, construct, "built from keys %s" % sorted(keys), where=fd.where)
    _string_form_tables(ctx, rule, prog, td, fs, val)


def returned_dicts(prog: Program, fi: FuncInfo, inline=None) -> List[Dict[str, object]]:
    """For each returning path of `fi`: {key: value} of the dictionary it returns - the entries of the display it was
    created from, those of the dict(...) keywords, and the stores d[key] = value made into it on the path.  Helpers the
    reference tree does not have are inlined, so a dictionary built by a new helper is seen as well."""
    out: List[Dict[str, object]] = []
    for p in Sim(prog, fi, loop_iters=(1,), inline=inline).paths():
        if p.terminal != "return":
            continue
        val = p.value
        items: Dict[str, object] = {}
        if isinstance(val, tuple) and val and val[0] == "dict":
            for k, v in val[1]:
                if k is None:
                    raise AnalysisError("%s returns a dictionary with a ** entry" % fi.key)
                if not (is_const(k) and isinstance(k[1], str)):
                    raise AnalysisError("%s returns a dictionary with the computed key %s" % (fi.key, show(k, 2)))
                items[k[1]] = v
        elif isinstance(val, tuple) and val and val[0] == "call" and val[1] == "dict" and not val[2]:
            items.update({k: v for k, v in val[3]})
        else:
            raise AnalysisError("%s does not return a dictionary display: %s" % (fi.key, show(val, 2)))
        for e in p.events:
            if e["kind"] == "store" and isinstance(e["target"], tuple) and e["target"][0] == "sub" and e["target"][1] == val:
                k = e["target"][2]
                if not (is_const(k) and isinstance(k[1], str)):
                    raise AnalysisError("%s stores the computed key %s" % (fi.key, show(k, 2)))
                items[k[1]] = e["value"]
        out.append(items)
    if not out:
        raise AnalysisError("%s has no returning path" % fi.key)
    return out


def _string_form_tables(ctx: Ctx, rule: str, prog: Program, td: FuncInfo, fs: FuncInfo, val: FuncInfo) -> None:
    from .rules_exc import _required_keys

    # --- string form: what to_dict returns, read off its simulated paths
    inl = None  # the default: helpers the reference tree does not have are inlined
    dicts = returned_dicts(prog, td, inl)
    params = set(fs.params) - {"simplify"}
    req_plain = _required_keys(val, prog)
    me = td.params[0]
    for written in dicts:
        for name, a, b in (
            ("keys written by to_dict = parameters of from_strings (the reader splats the dictionary)", set(written), params),
            ("keys written by to_dict = keys required by validate_contract_dict", set(written), req_plain),
        ):
            if a == b and a:
                ctx.ok(rule, td.key, name + ": %s" % sorted(a))
            else:
                ctx.violation(rule, td.key, name, "written %s vs %s" % (sorted(a), sorted(b)), where=td.where)
        for k, v in sorted(written.items()):
            fld = FIELD_OF_KEY.get(k)
            if fld is None:
                continue
            src = {f for f in FIELD_OF_KEY.values() if mentions(v, lambda y, f=f: y == ("attr", ("param", me), f))}
            construct = "to_dict['%s'] is built from self.%s" % (k, fld)
            if src == {fld}:
                ctx.ok(rule, td.key, construct)
            else:
                ctx.violation(rule, td.key, construct, "sources: %s" % sorted("%s.%s" % (me, f) for f in src), where=td.where)
    # from_strings: each constructor field from the same-named parameter
    fl3 = Flow(fs.node)
    for r in [n for n in ast.walk(fs.node) if isinstance(n, ast.Return) and isinstance(n.value, ast.Call)]:
        for kw in r.value.keywords:
            if kw.arg in FIELD_OF_KEY:
                src = {s.split(".")[0] for s in fl3.sources(kw.value) if not s.startswith("call:")} & set(fs.params)
                construct = "from_strings passes %s from its parameter %s" % (kw.arg, kw.arg)
                if src == {kw.arg}:
                    ctx.ok(rule, fs.key, construct)
                else:
                    ctx.violation(rule, fs.key, construct, "built from %s" % sorted(src), where=fs.where)
    # compound pair
    ctd = prog.func("PolyhedralIoContractCompound.to_dict")
    cfs = prog.func("PolyhedralIoContractCompound.from_strings")
    b = set(cfs.params)
    construct = "keys written by the compound to_dict = parameters of the compound from_strings"
    for written in returned_dicts(prog, ctd, inl):
        a = set(written)
        (ctx.ok(rule, ctd.key, construct + ": %s" % sorted(a)) if a == b and a else ctx.violation(rule, ctd.key, construct, "written %s vs %s" % (sorted(a), sorted(b)), where=ctd.where))


def _keys_in(fl: Flow, e: ast.AST, dname: str, seen: Optional[Set[str]] = None) -> Set[str]:
    seen = set() if seen is None else seen
    out: Set[str] = set()
    for x in ast.walk(e):
        if isinstance(x, ast.Subscript) and isinstance(x.value, ast.Name) and x.value.id == dname and isinstance(x.slice, ast.Constant):
            out.add(x.slice.value)
        if isinstance(x, ast.Name) and x.id in fl.defs and x.id not in seen:
            seen.add(x.id)
            for rhs in fl.defs[x.id]:
                out |= _keys_in(fl, rhs, dname, seen)
    return out


def rule_machine_exact(ctx: Ctx, rule: str = "machine-form-exact") -> None:
    """to_machine_dict / from_dict apply no formatting or rounding: numbers pass through float() only."""
    prog = ctx.prog
    for key in (PIC + "to_machine_dict", PIC + "from_dict"):
        fi = prog.func(key)
        bad = []
        n = 0
        from .rules_exc import with_new_helpers

        roots = with_new_helpers(prog, fi)
        in_message = {id(x) for root in roots for r in ast.walk(root) if isinstance(r, ast.Raise) for x in ast.walk(r)}
        for node in (x for root in roots for x in ast.walk(root)):
            if id(node) in in_message:
                continue  # the text of an error message is not a number that is written or read
            if isinstance(node, ast.Call):
                t = norm(node.func)
                n += 1
                if t in ("round", "format", "np.round", "np.around", "int") or t.endswith(".format") or t.endswith("_number_to_string"):
                    bad.append(norm(node)[:60])
            if isinstance(node, ast.FormattedValue) and node.format_spec is not None:
                bad.append(norm(node)[:60])
        construct = "%s passes numbers through unchanged (float() only)" % key
        (ctx.ok(rule, key, construct) if not bad else ctx.violation(rule, key, construct, "formats / rounds: %s" % bad[:2], where=fi.where))
    # every clause of either side is written as {"constant": c, "coefficients": {name: coefficient}} of that very term
    fi = prog.func(PIC + "to_machine_dict")
    me = fi.params[0]
    if ctx.extra.get("machine_roundtrip_decided"):
        # the symbolic round trip (rule machine-roundtrip) followed writer and reader term by term, coefficient by
        # coefficient: the shape of the clauses, which this block reads off the writer's paths, is implied
        ctx.ok(rule, fi.key, "to_machine_dict: one {constant, coefficients} clause per term (decided by the symbolic round trip)", nontrivial=False)
    defer = bool(ctx.extra.get("machine_roundtrip_decided"))

    def cannot(construct_, why_):
        # a shape this block does not recognise is no obstacle when the round trip has been followed symbolically
        if defer:
            ctx.ok(rule, fi.key, construct_ + " (shape not read: " + why_[:60] + "; decided by the symbolic round trip)", nontrivial=False)
        else:
            ctx.cannot_decide(rule, fi.key, construct_, why_)
    paths = [p for p in Sim(prog, fi, loop_iters=(2,)).paths() if p.terminal == "return"]
    n = 0

    def unfloat(v, fn="float"):
        return v[2][0] if isinstance(v, tuple) and v[0] == "call" and v[1] == fn and len(v[2]) == 1 else v

    def elem_of(v, coll):
        return isinstance(v, tuple) and len(v) == 4 and v[0] == "iter" and v[1] == coll

    for p in paths:
        val = p.value
        if not (isinstance(val, tuple) and val[0] == "dict"):
            cannot("machine clause fields", "to_machine_dict does not return a dictionary display: %s" % show(val, 2))
            continue
        top = {k[1]: v for k, v in val[1] if is_const(k)}
        for key, fld in (("assumptions", "a"), ("guarantees", "g")):
            construct = "to_machine_dict['%s']: one {constant, coefficients} clause per term of self.%s, numbers through float() only" % (key, fld)
            v = top.get(key)
            coll = ("attr", ("attr", ("param", me), fld), "terms")
            if v is None:
                ctx.violation(rule, fi.key, construct, "key not written", where=fi.where)
                continue
            if not (isinstance(v, tuple) and v[0] == "listcomp"):
                cannot(construct, "clause list is not a comprehension: %s" % show(v, 2))
                continue
            elt, gens = v[1], v[2]
            n += 1
            if len(gens) != 1 or gens[0][0] != coll:
                ctx.violation(rule, fi.key, construct, "iterates over %s" % [show(g[0], 3) for g in gens], where=fi.where)
                continue
            if gens[0][1]:
                ctx.violation(rule, fi.key, construct, "terms are filtered: %s" % [show(c, 3) for c in gens[0][1]], where=fi.where)
                continue
            if not (isinstance(elt, tuple) and elt[0] == "dict"):
                cannot(construct, "clause is not a dictionary display: %s" % show(elt, 2))
                continue
            d = {k[1]: x for k, x in elt[1] if is_const(k)}
            why = None
            c = unfloat(d.get("constant"))
            if not (isinstance(c, tuple) and c[0] == "attr" and c[2] == "constant" and elem_of(c[1], coll)):
                why = "constant is %s" % show(d.get("constant"), 4)
            co = d.get("coefficients")
            if why is None:
                if not (isinstance(co, tuple) and co[0] == "dictcomp"):
                    why = "coefficients is %s" % show(co, 3)
                else:
                    (kx, vx), g2 = co[1], co[2]
                    src = g2[0][0] if len(g2) == 1 else None
                    okg = (
                        src is not None
                        and not g2[0][1]
                        and src[0] == "mcall"
                        and src[1] == "items"
                        and src[2][0] == "attr"
                        and src[2][2] == "variables"
                        and elem_of(src[2][1], coll)
                    )
                    if src is not None and g2[0][1]:
                        cannot(construct, "coefficient entries are filtered by %s: whether the dropped entries matter is not decided" % [show(c, 3) for c in g2[0][1]])
                        continue
                    if not okg:
                        why = "coefficients iterate over %s" % ([show(g[0], 4) for g in g2] + [show(c, 3) for g in g2 for c in g[1]])
                    else:
                        kk, vv = unfloat(kx, "str"), unfloat(vx)
                        if isinstance(kk, tuple) and kk[0] == "attr" and kk[2] == "name":
                            kk = kk[1]
                        okk = isinstance(kk, tuple) and kk[0] == "item" and elem_of(kk[1], src) and kk[2] == 0
                        okv = isinstance(vv, tuple) and vv[0] == "item" and elem_of(vv[1], src) and vv[2] == 1
                        if not (okk and okv):
                            why = "coefficient entry is %s: %s" % (show(kx, 4), show(vx, 4))
            (ctx.ok(rule, fi.key, construct) if why is None else ctx.violation(rule, fi.key, construct, why, where=fi.where))
    if not defer:
        ctx.floor("machine clause fields", n, 2)


def rule_file_tags(ctx: Ctx, rule: str = "file-tags") -> None:
    """The type tags the writer emits are exactly those the reader dispatches on, and for each tag the reader calls
    the inverse of the writer; entry keys name/type/data agree."""
    prog = ctx.prog
    from .rules_exc import reader_dispatch, with_new_helpers, written_tags

    w = prog.func("fileio.write_contracts_to_file")
    r = prog.func("fileio.read_contracts_from_file")
    written = written_tags(prog)
    r_roots = with_new_helpers(prog, r)
    # what the reader does with an entry of each written tag (simulated on a well-formed one-entry document)
    read: Dict[str, str] = {}
    refused: Dict[str, str] = {}
    for tag in sorted(written):
        try:
            paths = reader_dispatch(prog, tag)
        except AnalysisError as ex:
            ctx.cannot_decide(rule, r.key, "tag %s: what the reader does with it" % tag, str(ex))
            continue
        for term, cls, names, _evs in paths:
            made = [c for c in names if c.endswith(".from_dict") or c.endswith(".from_strings")]
            if term == "return" and len(made) == 1:
                read.setdefault(tag, made[0].lstrip("."))
                if read[tag] != made[0].lstrip("."):
                    read[tag] = "%s or %s" % (read[tag], made[0].lstrip("."))
            else:
                refused[tag] = "raises %s" % cls if term != "return" else "returns after %d constructions" % len(made)
    construct = "type tags written = type tags read"
    if written and set(read) == set(written) and not refused:
        ctx.ok(rule, w.key, construct + ": %s" % sorted(written))
    else:
        ctx.violation(rule, w.key, construct, "written %s, read %s%s" % (sorted(written), sorted(read), "; the reader %s" % "; ".join("%s on %s" % (v, k) for k, v in sorted(refused.items())) if refused else ""), where=w.where)
    # a tag nobody writes is refused, not mistaken for one of the known kinds
    construct = "an entry of an unknown type is refused"
    try:
        paths = reader_dispatch(prog, "<some other tag>")
        okr = bool(paths) and all(term != "return" for term, _c, _n, _e in paths)
        (ctx.ok(rule, r.key, construct) if okr else ctx.violation(rule, r.key, construct, "an entry whose type is none of %s is accepted (%s)" % (sorted(written), [n for t, _c, n, _e in paths if t == "return"][0][-3:]), where=r.where))
    except AnalysisError as ex:
        ctx.cannot_decide(rule, r.key, construct, str(ex))
    inverse = {"to_machine_dict": "from_dict", "to_dict": "from_strings"}
    for tag in sorted(set(written) & set(read)):
        construct = "tag %s: the reader applies the inverse of the writer" % tag
        wr, rd = written[tag], read[tag]
        cls_ok = ("Compound" in tag) == ("Compound" in rd)
        if inverse.get(wr) == rd.split(".")[-1] and cls_ok:
            ctx.ok(rule, r.key, construct + " (%s / %s)" % (wr, rd))
        else:
            ctx.violation(rule, r.key, construct, "written with %s, read with %s" % (wr, rd), where=r.where)
    from .rules_exc import written_entries

    try:
        wk = {k for it in written_entries(prog) for k in it}
    except AnalysisError:
        wk = set()
    wk = wk or {k for b, k, v in _subscript_store_keys(w.node)}
    from .rules_exc import reader_key_discipline

    try:
        rk = set(reader_key_discipline(prog)[0])
    except AnalysisError:
        rk = {k for root in r_roots for b, k in _subscript_read_keys(root)}
    construct = "entry keys written = entry keys read"
    (ctx.ok(rule, w.key, construct + ": %s" % sorted(wk)) if wk == rk and wk else ctx.violation(rule, w.key, construct, "written %s, read %s" % (sorted(wk), sorted(rk)), where=w.where))


def rule_number_format(ctx: Ctx, rule: str = "number-format") -> None:
    """_number_to_string formats every float branch with the same 4-significant-digit spec."""
    prog = ctx.prog
    fi = prog.func("serializer._number_to_string")
    # asked of the function itself first: its text for a few floats is the four-significant-digit one
    try:
        from .termalg import Raised, TermAlg, num

        probes = [1234.5678, 0.000123456, 2.5, -7.0, 12345678.9, -0.00098765, 1.0, 100000.0]
        bad = None
        for v in probes:
            r = TermAlg(prog).call(fi, [num(_F(v).limit_denominator(10**12))])
            if not (isinstance(r, tuple) and r and r[0] == "str") or "?" in r[1]:
                raise AnalysisError("text not followed")
            if r[1] != format(float(_F(v).limit_denominator(10**12)), ".4g"):
                bad = "%r is written %r, four significant digits give %r" % (v, r[1], format(v, ".4g"))
                break
        construct = "_number_to_string writes floats with four significant digits (.4g)"
        (ctx.ok(rule, fi.key, construct) if bad is None else ctx.violation(rule, fi.key, construct, bad, where=fi.where))
        # the branch for sympy numbers is not reached by plain floats: its format specification, where one is written
        # out, has to be the same
        lit = [norm(n_.format_spec) for n_ in ast.walk(fi.node) if isinstance(n_, ast.FormattedValue) and n_.format_spec is not None]
        lit += [norm(c_.args[1]) for c_ in ast.walk(fi.node) if isinstance(c_, ast.Call) and isinstance(c_.func, ast.Name) and c_.func.id == "format" and len(c_.args) == 2 and isinstance(c_.args[1], ast.Constant)]
        if bad is None and lit and not all(".4g" in x for x in lit):
            ctx.violation(rule, fi.key, "_number_to_string uses one format spec (.4g) on all float branches", "format specs: %s" % lit, where=fi.where)
        return
    except (AnalysisError, Raised):
        pass
    specs = []
    for node in ast.walk(fi.node):
        if isinstance(node, ast.FormattedValue) and node.format_spec is not None:
            specs.append(norm(node.format_spec))
    construct = "_number_to_string uses one format spec (.4g) on all float branches"
    if len(specs) >= 2 and len(set(specs)) == 1 and ".4g" in specs[0]:
        ctx.ok(rule, fi.key, construct)
    else:
        ctx.violation(rule, fi.key, construct, "format specs: %s" % specs, where=fi.where)


def rule_printer_shape(ctx: Ctx, rule: str = "printer-folding") -> None:
    """polyhedral_term_list_to_strings consumes the head term and at most one partner; a pair is folded only when the
    two terms are opposite and their constants stand in the relation the emitted form denotes."""
    prog = ctx.prog
    key = "serializer.polyhedral_term_list_to_strings"
    fi = prog.func(key)
    ps = [p for p in Sim(prog, fi, loop_iters=(0, 1)).paths() if p.terminal == "return"]
    n = 0
    for p in ps:
        v = p.value
        if v[0] != "tuple" or len(v[1]) != 2:
            ctx.cannot_decide(rule, key, "returned pair", "does not return (string, rest)")
            continue
        sval, rest = v[1]
        removes = [e for e in p.events if e["kind"] == "call" and e["callee"] == ".remove"]
        empty_in = any(t == "not terms" and c for (t, c) in p.decisions)
        if empty_in:
            continue
        n += 1
        construct = "printer: the rest is the input without its head (and without at most one folded partner)"
        okc = rest[0] == "sub" and rest[1] == ("param", "terms") and rest[2][0] == "slice" and rest[2][1] == const(1) and rest[2][2] is None
        if okc and len(removes) > 1:
            okc = False
        if okc and removes:
            a0 = removes[0]["args"][0]
            partner_ok = a0[0] == "iter" and (a0[1] == rest or (a0[1] == ("param", "terms") and a0[3] >= 1))
            if not (removes[0]["recv"] == rest and partner_ok):
                okc = False
        (ctx.ok(rule, key, construct + " @ " + p.label()[:40], nontrivial=False) if okc else ctx.violation(rule, key, construct, "rest=%s removes=%d" % (show(rest, 3), len(removes)), where=fi.where))
        # folding conditions
        text = _string_template(sval)
        conds = _taken_conditions(p)
        tp = ("sub", ("param", "terms"), const(0))
        if removes:
            tn = removes[0]["args"][0]
            opp = conds.get(("opposite", tp, tn))
            construct = "printer: a pair is folded only if the two terms are opposite"
            if opp is True:
                ctx.ok(rule, key, construct + " @ " + text)
            else:
                ctx.violation(rule, key, construct, "folds to '%s' without that test being true" % text, where=fi.where)
            c_tp, c_tn = ("attr", tp, "constant"), ("attr", tn, "constant")
            if text.endswith("| = 0"):
                need = [("approx", c_tp, "zero"), ("approx", c_tn, "zero")]
                construct = "printer: '|LHS| = 0' only when both constants are (approximately) zero"
            elif "| <= " in text:
                need = [("approx", c_tp, c_tn)]
                construct = "printer: '|LHS| <= c' only when both constants are (approximately) equal"
            elif " = " in text:
                need = [("approx", c_tp, ("un", "USub", c_tn))]
                construct = "printer: 'LHS = c' only when the constants are (approximately) opposite"
            else:
                need = None
                construct = "printer: folded form"
            if need is None:
                ctx.violation(rule, key, construct, "a partner is consumed but the emitted form '%s' is not one of the three folded forms" % text, where=fi.where)
            else:
                have = all(_cond_true(conds, c) for c in need)
                (ctx.ok(rule, key, construct) if have else ctx.violation(rule, key, construct, "emitted '%s' with conditions %s" % (text, _show_conds(conds)), where=fi.where))
            # printed constant is the head's constant, LHS is the head's
            construct = "printer: the folded string shows the head term's left side and constant"
            uses_tp = mentions(sval, lambda x: x == tp) and not mentions(sval, lambda x: x == tn)
            (ctx.ok(rule, key, construct, nontrivial=False) if uses_tp else ctx.violation(rule, key, construct, "string built from %s" % show(sval, 4), where=fi.where))
        else:
            construct = "printer: an unfolded term is printed as 'LHS <= c'"
            (ctx.ok(rule, key, construct, nontrivial=False) if " <= " in text and "|" not in text else ctx.violation(rule, key, construct, "emits '%s'" % text, where=fi.where))
    ctx.floor("printer paths", n, 4)
    # to_str_list: loop until empty, threading the rest
    fi2 = prog.func("PolyhedralTermList.to_str_list")
    sem = _to_str_list_by_run(prog, fi2)
    construct = "to_str_list: prints from a copy of the terms, one printer call per round, continuing with the returned rest"
    if sem is True:
        ctx.ok(rule, fi2.key, construct)
        return
    if isinstance(sem, str):
        ctx.violation(rule, fi2.key, construct, sem, where=fi2.where)
        return
    ps = [p for p in Sim(prog, fi2, loop_iters=(1,)).paths() if p.terminal == "return"]
    construct = "to_str_list: prints from a copy of the terms, one printer call per round, continuing with the returned rest"
    okc = bool(ps)
    for p in ps:
        calls = p.calls("polyhedral_term_list_to_strings")
        apps = [e for e in p.events if e["kind"] == "call" and e["callee"] == ".append"]
        if len(calls) != 1 or len(apps) != 1:
            okc = False
            continue
        arg = calls[0]["args"][0]
        if not (arg[0] in ("mcall", "call") and mentions(arg, lambda x: x == ("attr", ("param", "self"), "terms")) and arg != ("attr", ("param", "self"), "terms")):
            okc = False
        if apps[0]["args"][0] != ("item", calls[0]["result"], 0):
            okc = False
        if p.env.get("ts") is not None and p.env.get("ts") != ("item", calls[0]["result"], 1):
            okc = False
    (ctx.ok(rule, fi2.key, construct) if okc else ctx.violation(rule, fi2.key, construct, "unexpected loop shape", where=fi2.where))


def _to_str_list_by_run(prog: Program, fi2: FuncInfo):
    """to_str_list run by the kernel interpreter with the printer replaced by one that consumes the head of what it is
    given: every term is printed once, in order, from a copy (the list itself is left alone).  True / text / None."""
    from .termalg import DictV, Key, ListV, Raised, Rec, TermAlg, TupV, num
    from .termalg import Undecidable as _Und

    terms = [Rec("PolyhedralTerm", {"variables": DictV({Key("x%d" % k): num(1)}), "constant": num(k)}) for k in range(3)]
    own = ListV(list(terms))
    me = Rec("PolyhedralTermList", {"terms": own})
    seen = {"same_object": False, "calls": 0}

    def printer(ta, pos, kw):
        arg = pos[0]
        seen["calls"] += 1
        if arg is own:
            seen["same_object"] = True
        if not isinstance(arg, ListV) or not arg.items:
            raise Raised("IndexError")
        head = arg.items[0]
        k = int(head.f["constant"].as_const())
        # like the real printer: works on the list it is given and hands back what is left of it
        rest = ListV(list(arg.items[1:]))
        return TupV([("str", "T%d" % k), rest])

    try:
        ta = TermAlg(prog, stubs={"serializer.polyhedral_term_list_to_strings": printer})
        r = ta.call(fi2, [], {}, self_val=me)
        texts = [x[1] if isinstance(x, tuple) and x and x[0] == "str" else "?" for x in ta.iterate(r, fi2.node)]
    except Raised as ex:
        return "raises %s on a list of three terms" % ex.cls
    except (AnalysisError, _Und, KeyError, AttributeError):
        return None
    if texts != ["T0", "T1", "T2"]:
        return "three terms are printed as %s" % texts
    if len(own.items) != 3 or any(a is not b for a, b in zip(own.items, terms)):
        return "the list's own terms are consumed by printing"
    if seen["same_object"]:
        return "the printer is handed the list's own terms, not a copy"
    return True


def _string_template(v) -> str:
    """Concatenate the literal pieces of a string-building expression."""
    if isinstance(v, tuple) and v:
        if v[0] == "const" and isinstance(v[1], str):
            return v[1]
        if v[0] == "bin" and v[1] == "Add":
            return _string_template(v[2]) + _string_template(v[3])
        if v[0] in ("call", "mcall"):
            return "#"
    return "#"


def _taken_conditions(p: PPath) -> Dict:
    out = {}

    def visit(t, val):
        if not isinstance(t, tuple):
            return
        if t[0] == "un" and t[1] == "Not":
            visit(t[2], not val)
            return
        if t[0] == "boolop":
            if (t[1] == "And" and val) or (t[1] == "Or" and not val):
                for x in t[2]:
                    visit(x, val)
            return
        if t[0] == "call":
            name = t[1].split(".")[-1]
            args = t[2]
            if name == "_are_polyhedral_terms_opposite" and len(args) == 2:
                out[("opposite", args[0], args[1])] = val
            if name == "_are_numbers_approximatively_equal" and len(args) == 2:
                a, b = args
                za = _is_zero(a)
                zb = _is_zero(b)
                if zb:
                    out[("approx", a, "zero")] = val
                elif za:
                    out[("approx", b, "zero")] = val
                else:
                    out[("approx", a, b)] = val
                    out[("approx", b, a)] = val

    for e in p.events:
        if e["kind"] == "branch":
            visit(e["test"], e["taken"])
    # values bound to names (condition = ... and ...) are folded by the simulator into the branch test already
    return out


def _is_zero(v) -> bool:
    return (is_const(v) and v[1] == 0) or (isinstance(v, tuple) and v[0] == "call" and v[1] == "float" and v[2] and is_const(v[2][0]) and v[2][0][1] == 0)


def _cond_true(conds: Dict, c) -> bool:
    if conds.get(c) is True:
        return True
    # -a ~ b  is the same test as  a ~ -b
    if c[0] == "approx" and isinstance(c[2], tuple) and c[2][0] == "un" and c[2][1] == "USub":
        alt = ("approx", ("un", "USub", c[1]), c[2][2])
        return conds.get(alt) is True or conds.get(("approx", alt[2], alt[1])) is True
    return False


def _show_conds(conds: Dict) -> str:
    return ", ".join("%s(%s, %s)=%s" % (k[0], show(k[1], 2), show(k[2], 2) if isinstance(k[2], tuple) else k[2], v) for k, v in conds.items())


def rule_opposite_predicate(ctx: Ctx, rule: str = "opposite-terms") -> None:
    """The printer's pairing test: two terms are 'opposite' iff they have the same variables and negated
    coefficients - in BOTH directions (a term with extra variables is not the opposite of a shorter one)."""
    from .ratnf import Rat
    from .rules_kernels import _run
    from .termalg import DictV, Key, Rec, TermAlg, num, sym

    prog = ctx.prog
    key = "serializer._are_polyhedral_terms_opposite"
    x, y = Key("x"), Key("y")

    def approx(ta, pos, kw):
        a, b = pos[0], pos[1]
        if isinstance(a, Rat) and isinstance(b, Rat):
            return (a - b).is_zero()
        return False

    def term(d, c):
        return Rec("PolyhedralTerm", {"variables": DictV(d), "constant": c})

    def thunk():
        fi = prog.func(key)
        stubs = {"serializer._are_numbers_approximatively_equal": approx}
        a = term({x: sym("a")}, sym("c"))
        cases = [
            ("exact opposite", a, term({x: -sym("a")}, sym("d")), True),
            ("same term", a, term({x: sym("a")}, sym("d")), False),
            ("partner has an extra variable", a, term({x: -sym("a"), y: sym("b")}, sym("d")), False),
            ("head has an extra variable", term({x: sym("a"), y: sym("b")}, sym("c")), term({x: -sym("a")}, sym("d")), False),
            ("different variables", a, term({y: -sym("a")}, sym("d")), False),
            ("same variables listed in another order, truly opposite", term({x: sym("a"), y: sym("b")}, sym("c")), term({y: -sym("b"), x: -sym("a")}, sym("d")), True),
            ("same variables, coefficients negated crosswise", term({x: sym("a"), y: sym("b")}, sym("c")), term({y: -sym("a"), x: -sym("b")}, sym("d")), False),
        ]
        for label, t1, t2, want in cases:
            got = TermAlg(prog, stubs).call(fi, [t1, t2], {})
            if got is not want:
                return "%s: answered %s, expected %s" % (label, got, want)
        return None

    _run(ctx, rule, key, "_are_polyhedral_terms_opposite: same variables in both directions and negated coefficients", thunk)


# ------------------------------------------------------- independent reading of emitted text
import re as _re
from fractions import Fraction as _F

_TOK = _re.compile(r"\s*(<=|>=|==|=|\||\+|-|\*|\(|\)|[0-9]*\.?[0-9]+(?:[eE][+-]?[0-9]+)?|[A-Za-z_][A-Za-z0-9_]*)")


def read_relation(text: str):
    """A tiny reader of 'linear (<=|=) number' with optional |...| around the left side - deliberately independent of
    the library's grammar.  Returns (abs: bool, {var: coef}, op, constant) or None."""
    toks = []
    pos = 0
    text = text.strip()
    while pos < len(text):
        m = _TOK.match(text, pos)
        if not m:
            return None
        toks.append(m.group(1))
        pos = m.end()
    if not toks:
        return None
    ops = [i for i, t in enumerate(toks) if t in ("<=", "=", "==", ">=")]
    if len(ops) != 1:
        return None
    lhs, op, rhs = toks[: ops[0]], toks[ops[0]], toks[ops[0] + 1:]
    is_abs = False
    if lhs and lhs[0] == "|" and lhs[-1] == "|":
        is_abs = True
        lhs = lhs[1:-1]

    def linear(ts):
        coefs: Dict[str, _F] = {}
        const = _F(0)
        i = 0
        sign = 1
        first = True
        while i < len(ts):
            t = ts[i]
            if t in ("+", "-"):
                sign = 1 if t == "+" else -1
                if not first and i + 1 < len(ts) and ts[i + 1] in ("+", "-"):
                    return None
                i += 1
                first = False
                continue
            first = False
            num = None
            if _re.match(r"^[0-9.]", t):
                num = _F(t)
                i += 1
                if i < len(ts) and ts[i] == "*":
                    i += 1
                t = ts[i] if i < len(ts) else None
            if t is not None and _re.match(r"^[A-Za-z_]", t):
                coefs[t] = coefs.get(t, _F(0)) + sign * (num if num is not None else 1)
                i += 1
            elif num is not None:
                const += sign * num
            else:
                return None
            sign = 1
        return coefs, const

    L = linear(lhs)
    R = linear(rhs)
    if L is None or R is None or R[0]:
        return None
    return is_abs, L[0], op, R[1] - L[1]


def rule_printer_reading(ctx: Ctx, rule: str = "printer-meaning") -> None:
    """What the printer emits, read back by an independent mini-reader, denotes the printed term(s) with every number
    at four significant digits: sign handling, +/-1 coefficients, first-term sign, folded forms."""
    from .ratnf import Rat
    from .rules_kernels import _run
    from .termalg import DictV, Key, ListV, Rec, TermAlg, TupV, num

    prog = ctx.prog
    keys = {n: Key(n) for n in ("w", "x", "y", "z", "e1", "e2", "E3x")}

    def approx(ta, pos, kw):
        a, b = pos[0], pos[1]
        if isinstance(a, Rat) and isinstance(b, Rat):
            ca, cb = a.as_const(), b.as_const()
            if ca is not None and cb is not None:
                return abs(ca - cb) <= _F(1, 10**8) + _F(1, 10**5) * abs(cb)
            return (a - b).is_zero()
        return False

    stubs = {"serializer._are_numbers_approximatively_equal": approx}

    def term(coefs: Dict[str, float], c: float) -> Rec:
        return Rec("PolyhedralTerm", {"variables": DictV({keys[k]: num(_F(v).limit_denominator(10**6)) for k, v in coefs.items()}), "constant": num(_F(c).limit_denominator(10**6))})

    def fmt4(v) -> _F:
        return _F(format(float(v), ".4g"))

    def same(read: Dict[str, _F], want: Dict[str, float], sgn: int = 1) -> bool:
        ks = set(read) | set(want)
        return all(read.get(k, _F(0)) == sgn * fmt4(want.get(k, 0)) for k in ks)

    fi = prog.func("serializer.polyhedral_term_list_to_strings")
    cases = [
        ("single term, mixed signs and unit coefficients", [({"x": 2, "y": -3, "z": 1, "w": -1}, 4)], ("le", 0)),
        ("leading negative non-unit coefficient", [({"x": -2.5, "y": 1}, -7)], ("le", 0)),
        ("coefficients between 0 and 1, in first and in later positions", [({"w": 0.5, "x": 0.25, "y": -0.75, "z": 0.125}, 0.5)], ("le", 0)),
        ("coefficients just above 1 and just below -1 in later positions", [({"w": 3, "x": 1.5, "y": -1.5}, -0.25)], ("le", 0)),
        ("variable names that look like exponents (e1, e2, E3x)", [({"e1": 1, "e2": 2, "E3x": -4}, 4)], ("le", 0)),
        ("rounding to four significant digits", [({"x": 1.23456, "y": -0.000123456}, 1234.56)], ("le", 0)),
        ("opposite pair, equal constants -> |LHS| <= c", [({"x": 2, "y": -1}, 3), ({"x": -2, "y": 1}, 3)], ("abs", 3)),
        ("opposite pair, opposite constants -> LHS = c", [({"x": 2, "y": -1}, 3), ({"x": -2, "y": 1}, -3)], ("eq", 3)),
        ("opposite pair, zero constants -> |LHS| = 0 (or LHS = 0)", [({"x": 2, "y": -1}, 0), ({"x": -2, "y": 1}, 0)], ("zero", 0)),
        ("opposite pair, unrelated constants -> not folded", [({"x": 2, "y": -1}, 3), ({"x": -2, "y": 1}, 5)], ("le", 0)),
    ]
    for label, terms, (kind, cst) in cases:
        def thunk(terms=terms, kind=kind, cst=cst):
            ta = TermAlg(prog, stubs)
            ts = ListV([term(c, k) for c, k in terms])
            r = ta.call(fi, [ts], {})
            if not isinstance(r, TupV) or len(r.items) != 2 or not (isinstance(r.items[0], tuple) and r.items[0][0] == "str"):
                return "does not return (string, rest)"
            text = r.items[0][1]
            rest = r.items[1]
            if "?" in text:
                return "the emitted text could not be followed (%r)" % text
            rd = read_relation(text)
            if rd is None:
                return "emitted %r, which the independent reader cannot read as 'linear <= / = number'" % text
            is_abs, coefs, op, c = rd
            head_c, head_k = terms[0]
            n_rest = len(rest.items) if isinstance(rest, ListV) else -1
            if kind == "le":
                okc = (not is_abs) and op == "<=" and same(coefs, head_c) and c == fmt4(head_k) and n_rest == len(terms) - 1
            elif kind == "abs":
                okc = is_abs and op == "<=" and (same(coefs, head_c) or same(coefs, head_c, -1)) and c == fmt4(cst) and n_rest == 0
            elif kind == "eq":
                okc = (not is_abs) and op in ("=", "==") and ((same(coefs, head_c) and c == fmt4(cst)) or (same(coefs, head_c, -1) and c == -fmt4(cst))) and n_rest == 0
            else:
                okc = op in ("=", "==") and (same(coefs, head_c) or same(coefs, head_c, -1)) and c == 0 and n_rest == 0
            if not okc:
                return "terms %s were printed as %r (read back: abs=%s %s %s %s, %d term(s) left)" % (terms, text, is_abs, {k: str(v) for k, v in coefs.items()}, op, c, n_rest)
            return None

        _run(ctx, rule, fi.key, "printer meaning: " + label, thunk)


def rule_machine_roundtrip(ctx: Ctx, rule: str = "machine-roundtrip") -> None:
    """C10, machine representation, decided by the kernel interpreter on symbolic data: a contract record with
    symbolic coefficients and constants is written by to_machine_dict, the dictionary passes validate_contract_dict,
    and from_dict hands the constructor the very same interface lists, terms (coefficient by coefficient) and
    constants.  Whatever way the three functions are written (helpers, tables, comprehensions or loops)."""
    from .rules_kernels import _eq, coefs
    from .termalg import NONE, DictV, Key, ListV, Raised, Rec, TermAlg, sym
    from .termalg import Undecidable as _Und

    prog = ctx.prog
    tm = prog.func(PIC + "to_machine_dict")
    fd = prog.func(PIC + "from_dict")
    val = prog.func("serializer.validate_contract_dict")
    construct = "to_machine_dict -> validate_contract_dict -> from_dict gives back the interface, every coefficient and every constant"
    x, y, z = Key("x"), Key("y"), Key("z")

    def term(prefix, keys):
        return Rec("PolyhedralTerm", {"variables": DictV({k: sym("%s_%s" % (prefix, k.name)) for k in keys}), "constant": sym(prefix + "_c")})

    A = [term("a", [x])]
    G = [term("g", [x, y]), term("h", [y, z])]
    contract = Rec("PolyhedralIoContract", {"a": Rec("PolyhedralTermList", {"terms": ListV(A)}), "g": Rec("PolyhedralTermList", {"terms": ListV(G)}), "inputvars": ListV([x]), "outputvars": ListV([y, z])})
    seen: Dict[str, Any] = {}

    def ctor(ta, pos, kw):
        names = ["self", "assumptions", "guarantees", "input_vars", "output_vars", "simplify"]
        got = dict(kw)
        for i, v in enumerate(pos):
            if i < len(names):
                got.setdefault(names[i], v)
        seen.update(got)
        return NONE

    init = prog.resolve_method("PolyhedralIoContract", "__init__")
    stubs = {init.key: ctor} if init is not None else {}
    try:
        ta = TermAlg(prog, stubs=stubs)
        d = ta.call(tm, [], {}, self_val=contract)
        TermAlg(prog).call(val, [d, ("str", "c"), True])
        TermAlg(prog, stubs=stubs).call(fd, [d])
    except Raised as r:
        ctx.violation(rule, tm.key, construct, "the round trip of a well-formed contract raises %s" % r.cls, where=fd.where)
        return
    except (AnalysisError, _Und) as ex:
        # not followed: the reading of the key tables (rule writer-reader-tables) decides instead
        ctx.extra["machine_roundtrip_not_followed"] = str(ex)[:160]
        return
    problems = []
    for nm, want in (("input_vars", ["x"]), ("output_vars", ["y", "z"])):
        v = seen.get(nm)
        got = [k.name if isinstance(k, Key) else None for k in v.items] if isinstance(v, ListV) else None
        if got != want:
            problems.append("%s %s come back as %s" % (nm, want, got))
    for nm, want in (("assumptions", A), ("guarantees", G)):
        v = seen.get(nm)
        terms = v.f["terms"].items if isinstance(v, Rec) and isinstance(v.f.get("terms"), ListV) else None
        if terms is None or len(terms) != len(want):
            problems.append("%s: %d term(s) come back as %s" % (nm, len(want), None if terms is None else len(terms)))
            continue
        for t0, t1 in zip(want, terms):
            c0, c1 = coefs(t0), coefs(t1)
            for k in sorted(set(c0) | set(c1)):
                if k not in c0 or k not in c1 or not _eq(c0[k], c1[k]):
                    problems.append("%s: coefficient of %s is %s, was %s" % (nm, k, c1[k].show() if k in c1 else "absent", c0[k].show() if k in c0 else "absent"))
            if not _eq(t0.f["constant"], t1.f["constant"]):
                problems.append("%s: constant %s comes back as %s" % (nm, t0.f["constant"].show(), t1.f["constant"].show()))
    if problems:
        ctx.violation(rule, tm.key, construct, "; ".join(problems[:4]), where=tm.where)
    else:
        ctx.ok(rule, tm.key, construct)
        ctx.extra["machine_roundtrip_decided"] = True
