"""Drivers for the algebra-layer analyses: path exploration of compose / quotient / merge / refines /
constructor / rename with symbolic operands, and the obligations checked on every path."""
from __future__ import annotations

from typing import Any, Callable, Dict, List, Optional, Set, Tuple

from .loader import AnalysisError, Program, norm
from .sets import ONES, c_and, c_not, c_or, c_show, neg, satisfiable
from .symalg import NONE, Cond, Interp, ListV, NoneV, Obj, Opaque, OpaqueNN, Path, TL, TupleV, VarV, VS, explore

_PATH_CACHE: Dict[Tuple, Any] = {}


class Scenario:
    """How to call one entry point with symbolic operands."""

    def __init__(self, cls: str, method: str, keep: str = "set", no_connection: bool = False, tactics_none: bool = False):
        self.cls = cls
        self.method = method
        self.keep = keep  # 'set' | 'none'
        self.no_connection = no_connection
        self.tactics_none = tactics_none

    def key(self):
        return (self.cls, self.method, self.keep, self.no_connection, self.tactics_none)


def operand(it: Interp, cls: str, tag: str, a: str, g: str, i: str, o: str) -> Obj:
    ob = Obj(cls)
    ob.fields["a"] = it.leaf(a)
    ob.fields["g"] = it.leaf(g)
    ti = it.atoms.atom(i)
    to = it.atoms.atom(o)
    ob.fields["inputvars"] = VS(ti, True)
    ob.fields["outputvars"] = VS(to, True)
    va = it.atoms.atom("v(%s)" % a)
    vg = it.atoms.atom("v(%s)" % g)
    # well-formedness of an existing contract (established by the constructor, checked under C06)
    it.allowed &= neg(ti & to)
    it.allowed &= neg(va & neg(ti))
    it.allowed &= neg(vg & neg(ti | to))
    return ob


def run_binary(prog: Program, sc: Scenario) -> List[Path]:
    key = (prog.digest,) + sc.key()
    if key in _PATH_CACHE:
        return _PATH_CACHE[key]
    if any(k[0] != prog.digest for k in _PATH_CACHE):
        _PATH_CACHE.clear()  # one program at a time: the self-test feeds hundreds of variants through one process
    fi = prog.resolve_method(sc.cls, sc.method)
    if fi is None:
        raise AnalysisError("anchor vanished: %s.%s" % (sc.cls, sc.method))

    def setup(it: Interp):
        s = operand(it, sc.cls, "self", "A1", "G1", "sI", "sO")
        o = operand(it, sc.cls, "other", "A2", "G2", "oI", "oO")
        k = it.atoms.atom("K")
        A = it.atoms.masks
        if sc.no_connection:
            it.allowed &= neg((A["sO"] & A["oI"]) | (A["sI"] & A["oO"]))
        params = fi.params[1:]
        args: Dict[str, Any] = {}
        for p in params:
            if p == "other":
                args[p] = o
            elif p in ("vars_to_keep", "additional_inputs"):
                args[p] = VS(k) if sc.keep == "set" else NONE
            elif p == "simplify":
                args[p] = Opaque("simplify")
            elif p == "tactics_order":
                args[p] = NONE if sc.tactics_none else OpaqueNN("tactics_order")
            else:
                raise AnalysisError("unexpected parameter %s of %s" % (p, fi.key))
        if sc.keep == "none":
            it.allowed &= neg(k)
        it.entry_self = s
        it.entry_other = o

        def thunk():
            return it.call_function(fi, [], args, self_val=s)

        return thunk

    paths = explore(prog, setup)
    _PATH_CACHE[key] = paths
    return paths


def result_contract(p: Path) -> Optional[Obj]:
    v = p.value
    if isinstance(v, TupleV) and v.items and isinstance(v.items[0], Obj):
        return v.items[0]
    if isinstance(v, Obj):
        return v
    return None


def leafs(p: Path) -> Dict[str, int]:
    out = {}
    for i, n in enumerate(p.prov.nodes):
        if n[0] == "leaf":
            out[n[1]] = i
    return out


def path_label(p: Path) -> str:
    return "; ".join("%s->%s" % (t, c) for (_n, c, t) in p.trace) or "(straight line)"


# ---------------------------------------------------------------------------
# Soundness obligations (uninterpreted predicates; Horn closure)
# ---------------------------------------------------------------------------
def soundness_obligations(op: str, p: Path) -> List[dict]:
    """Obligations of C01 / C02 / C08 on one returning path."""
    res = result_contract(p)
    if res is None:
        return [{"name": "%s returns a contract" % op, "ok": False, "detail": "returned value is not a contract object"}]
    P = p.prov
    L = leafs(p)
    a_res = res.fields.get("a")
    g_res = res.fields.get("g")
    if not isinstance(a_res, TL) or not isinstance(g_res, TL):
        return [{"name": "%s result has constraint lists" % op, "ok": False, "detail": "a/g of the result are not constraint lists"}]
    obs = []

    def need(name, hyps, rules, goal, goalname):
        have = P.closure(hyps, rules)
        ok = goal in have
        obs.append(
            {
                "name": name,
                "goal": goalname,
                "ok": ok,
                "hyps": [P.show(h, 4) for h in hyps],
                "goal_term": P.show(goal, 5),
                "derivation": have.get(goal, "not derivable"),
            }
        )

    A1, G1, A2, G2 = (L.get(x) for x in ("A1", "G1", "A2", "G2"))
    for nm, x in (("A1", A1), ("G1", G1), ("A2", A2), ("G2", G2)):
        if x is None:
            # a leaf that never occurs on the path cannot be derived unless it is not needed; create it
            L[nm] = P.mk("leaf", nm)
    A1, G1, A2, G2 = (L[x] for x in ("A1", "G1", "A2", "G2"))
    if op == "compose":
        rules = [([A1], G1, "component 1 honours its contract"), ([A2], G2, "component 2 honours its contract")]
        need("compose: assumptions of component 1 hold", [a_res.n], rules, A1, "A1")
        need("compose: assumptions of component 2 hold", [a_res.n], rules, A2, "A2")
        need("compose: result guarantees hold", [a_res.n], rules, g_res.n, "G_res")
    elif op == "quotient":
        # self = dividend C (A1,G1), other = divisor C1 (A2,G2), result = Q
        rules = [([A2], G2, "divisor honours its contract"), ([a_res.n], g_res.n, "quotient implementation honours Q")]
        need("quotient: divisor assumptions hold", [A1], rules, A2, "A(C1)")
        need("quotient: quotient assumptions hold", [A1], rules, a_res.n, "A(Q)")
        need("quotient: dividend guarantees hold", [A1], rules, G1, "G(C)")
    elif op == "merge":
        need("merge: result assumptions imply both assumptions (1)", [a_res.n], [], A1, "A1")
        need("merge: result assumptions imply both assumptions (2)", [a_res.n], [], A2, "A2")
        need("merge: both assumptions imply result assumptions", [A1, A2], [], a_res.n, "A_res")
        need("merge: result allows only behaviours of guarantee 1", [a_res.n, g_res.n], [], G1, "G1")
        need("merge: result allows only behaviours of guarantee 2", [a_res.n, g_res.n], [], G2, "G2")
        need("merge: nothing added", [A1, A2, G1, G2], [], g_res.n, "G_res")
    return obs


def exactness_obligations(p: Path) -> List[dict]:
    """C15, second sentence: with no connection the composition is exact."""
    res = result_contract(p)
    if res is None:
        return []
    P = p.prov
    L = leafs(p)
    for nm in ("A1", "G1", "A2", "G2"):
        if nm not in L:
            L[nm] = P.mk("leaf", nm)
    a_res, g_res = res.fields["a"], res.fields["g"]
    obs = []

    def need(name, hyps, goal, goalname):
        have = P.closure(hyps)
        obs.append({"name": name, "goal": goalname, "ok": goal in have, "goal_term": P.show(goal, 5), "derivation": have.get(goal, "not derivable")})

    need("exact: A_res |- A1", [a_res.n], L["A1"], "A1")
    need("exact: A_res |- A2", [a_res.n], L["A2"], "A2")
    need("exact: A1, A2 |- A_res", [L["A1"], L["A2"]], a_res.n, "A_res")
    need("exact: A_res, G_res |- G1", [a_res.n, g_res.n], L["G1"], "G1")
    need("exact: A_res, G_res |- G2", [a_res.n, g_res.n], L["G2"], "G2")
    need("exact: A1, A2, G1, G2 |- G_res", [L["A1"], L["A2"], L["G1"], L["G2"]], g_res.n, "G_res")
    return obs


# ---------------------------------------------------------------------------
# Syntactic must-retain analysis (C15 tier N)
# ---------------------------------------------------------------------------
class Retain:
    """Truth tables over term-membership atoms t in A1/G1/A2/G2 and touches(elim set)."""

    def __init__(self, p: Path):
        from .sets import Atoms

        self.p = p
        self.P = p.prov
        self.at = Atoms()
        self.memo: Dict[int, int] = {}
        self.touch_atoms: Dict[str, int] = {}
        self.citations: List[Tuple[int, int]] = []  # (node, ctx node) removals "because t in ctx"

    simplify_before_elimination = False
    strict = False  # strict: redundancy removal before an elimination may lose the term (see keep)

    def elimination_possible(self, sdesc) -> bool:
        """is the eliminated set of this relax / refine node possibly non-empty on this path?"""
        ev = next((e for e in self.p.events if e.get("kind") in ("relax", "refine") and e.get("S") == sdesc), None)
        if ev is None or ev.get("S_tt") is None:
            return True
        return bool(ev["S_tt"] & self.p.allowed) and satisfiable(list(self.p.conds) + [("E", ev["S_tt"])], self.p.allowed)

    def touch(self, sdesc: str) -> int:
        if sdesc not in self.touch_atoms:
            self.touch_atoms[sdesc] = self.at.atom("touches{%s}" % sdesc)
        return self.touch_atoms[sdesc]

    def keep(self, n: Optional[int]) -> int:
        """Set of verbatim-term classes definitely still present in node n, treating LP-redundancy removal as benign
        and 'removed because the same term is in the context' as a removal."""
        if n is None:
            return 0
        if n in self.memo:
            return self.memo[n]
        node = self.P.nodes[n]
        op = node[0]
        if op == "leaf":
            r = self.at.atom("t in %s" % node[1])
        elif op == "top":
            r = 0
        elif op == "union":
            r = self.keep(node[1]) | self.keep(node[2])
        elif op == "inter":
            r = self.keep(node[1]) & self.keep(node[2])
        elif op == "diff":
            r = self.keep(node[1]) & neg(self.keep(node[2]))
        elif op == "copy":
            r = self.keep(node[1])
        elif op == "with_vars":
            r = self.keep(node[1]) & self.touch(node[2])
        elif op == "simp":
            r = self.keep(node[1])
            if node[2] is not None:
                r &= neg(self.keep(node[2]))
        elif op in ("relax", "refine"):
            # non-touching terms are copied; touching ones may be rewritten or dropped
            r = self.keep(node[1]) & neg(self.touch(node[3]))
            if node[4]:  # simplify flag on this path
                r &= neg(self.keep(node[2]))
                # the list is first simplified in its context: a non-touching term that is implied by sibling or
                # context terms is removed as redundant - and those siblings / context terms may mention the
                # eliminated variables, so what made the term redundant is rewritten or dropped afterwards (only one
                # substitution is made per term).  Nothing is certain to survive unless nothing is eliminated.
                if self.strict and self.elimination_possible(node[3]):
                    self.simplify_before_elimination = True
                    r = 0
        else:
            r = 0
        self.memo[n] = r
        return r


def retention_check(p: Path, which: str) -> List[dict]:
    """For every class of verbatim terms that occurs in a guarantee of an operand and touches no eliminated
    variable: is the term still present in the result's guarantees or assumptions?"""
    res = result_contract(p)
    if res is None:
        return []
    R = Retain(p)
    a_res, g_res = res.fields["a"], res.fields["g"]
    kept = R.keep(g_res.n) | R.keep(a_res.n)
    at = R.at
    # the same question with redundancy removal before an elimination counted as a possible loss
    RS_ = Retain(p)
    RS_.strict = True
    RS_.at = at
    RS_.touch_atoms = R.touch_atoms
    kept_strict = RS_.keep(g_res.n) | RS_.keep(a_res.n)
    for nm in ("G1", "G2", "A1", "A2"):
        at.atom("t in %s" % nm)
    notouch = ONES
    for _s, m in R.touch_atoms.items():
        notouch &= neg(m)
    out = []
    # "interface-level" is relative to the result's interface: no variable eliminated while computing the result's
    # guarantees may belong to it (else a term over the interface is rewritten or dropped as if it were internal)
    iv, ov = res.fields.get("inputvars"), res.fields.get("outputvars")
    if isinstance(iv, VS) and isinstance(ov, VS):
        anc: Set[int] = set()
        work = [g_res.n]
        while work:
            k = work.pop()
            if k is None or k in anc:
                continue
            anc.add(k)
            nd = p.prov.nodes[k]
            if nd[0] in ("union", "inter"):
                work += [nd[1], nd[2]]
            elif nd[0] in ("diff", "copy", "simp", "with_vars", "relax", "refine"):
                work.append(nd[1])
        # the terms taken out of the guarantees at the end (G - terms_with_vars(G, S)) are an elimination as well
        removed: Set[int] = set()
        for k in anc:
            nd = p.prov.nodes[k]
            if nd[0] == "diff" and p.prov.nodes[nd[2]][0] == "with_vars":
                removed.add(nd[2])
        for ev in p.events:
            if ev.get("kind") == "with_vars" and ev.get("result") in removed and ev.get("S_tt") is not None:
                inside = ev["S_tt"] & (iv.tt | ov.tt) & p.allowed
                bad = bool(inside) and satisfiable(list(p.conds) + [("E", inside)], p.allowed)
                out.append(
                    {
                        "class": "no guarantee over the result's interface is filtered out with the internal ones",
                        "ok": not bad,
                        "lost": "the terms removed from the guarantees are those mentioning %s, and variables %s of that set are in the result's interface" % (ev["S"], p.atoms.describe(inside, p.allowed)) if bad else "",
                        "g_res": p.prov.show(g_res.n, 6),
                    }
                )
        for ev in p.events:
            if ev.get("kind") in ("relax", "refine") and ev.get("outcome") == "ok" and ev.get("result") in anc and ev.get("S_tt") is not None:
                inside = ev["S_tt"] & (iv.tt | ov.tt) & p.allowed
                bad = bool(inside) and satisfiable(list(p.conds) + [("E", inside)], p.allowed)
                out.append(
                    {
                        "class": "no variable of the result's interface is eliminated from the guarantees",
                        "ok": not bad,
                        "lost": "variables %s are in the result's interface and in the eliminated set" % p.atoms.describe(inside, p.allowed) if bad else "",
                        "g_res": p.prov.show(g_res.n, 6),
                    }
                )
    g1, g2, a1, a2 = (at.masks["t in %s" % x] for x in ("G1", "G2", "A1", "A2"))
    # classes are over the four leaf atoms; check each of the 3 guarantee-membership classes separately
    classes = [
        ("t in G1 only", g1 & neg(g2)),
        ("t in G2 only", g2 & neg(g1)),
        ("t in G1 and G2", g1 & g2),
    ]
    for label, cls in classes:
        rows = cls & notouch
        lost = rows & neg(kept)
        out.append(
            {
                "class": label,
                "ok": lost == 0,
                "lost": at.describe(lost) if lost else "",
                "g_res": p.prov.show(g_res.n, 6),
            }
        )
        if lost == 0 and RS_.simplify_before_elimination:
            lost_s = rows & neg(kept_strict)
            out.append(
                {
                    "class": label,
                    "kind": "simplify-before-elimination",
                    "ok": lost_s == 0,
                    "lost": at.describe(lost_s) if lost_s else "",
                    "g_res": p.prov.show(g_res.n, 6),
                }
            )
    return out


# ---------------------------------------------------------------------------
# Interface obligations (C06)
# ---------------------------------------------------------------------------
def interface_spec(op: str, A: Dict[str, int]) -> Tuple[int, int]:
    sI, sO, oI, oO = A["sI"], A["sO"], A["oI"], A["oO"]
    K = A.get("K", 0)
    if op == "compose":
        return ((sI & neg(oO)) | (oI & neg(sO)), (sO & neg(oI)) | (oO & neg(sI)) | K)
    if op == "quotient":
        return ((sI & neg(oI)) | (oO & neg(sO)) | K, (sO & neg(oO)) | (oI & neg(sI)))
    if op == "merge":
        return (sI | oI, sO | oO)
    raise AnalysisError("no interface spec for %s" % op)


def bad_requests(op: str, A: Dict[str, int]) -> List[Tuple[str, Any]]:
    sI, sO, oI, oO = A["sI"], A["sO"], A["oI"], A["oO"]
    K = A.get("K", 0)
    E = lambda tt: ("E", tt)  # noqa: E731
    if op == "compose":
        return [
            ("keeping a variable that is not an output", E(K & neg(sO | oO))),
            ("shared outputs", E(sO & oO)),
            (
                "feedback onto inputs that an assumption constrains",
                c_and([E(sI & oO), E(oI & sO), c_or([E(oO & A["v(A1)"]), E(sO & A["v(A2)"])])]),
            ),
        ]
    if op == "quotient":
        return [
            ("a quotient output that the divisor reads", E(sO & neg(oO) & oI)),
            ("additional inputs that are neither dividend inputs nor divisor outputs", E(K & neg(oO | sI))),
        ]
    if op == "refines":
        return [("refinement across different interfaces", c_or([E(sI ^ oI), E(sO ^ oO)]))]
    return []


def interface_checks(op: str, paths: List[Path], exc_is_sub: Callable[[str, str], bool]) -> List[dict]:
    out = []
    for p in paths:
        A = p.atoms.masks
        for need in ("sI", "sO", "oI", "oO"):
            if need not in A:
                raise AnalysisError("membership atom %s missing" % need)
        bads = bad_requests(op, _with_defaults(A, p))
        if p.terminal == "return":
            res = result_contract(p)
            if res is not None and op in ("compose", "quotient", "merge"):
                spec_in, spec_out = interface_spec(op, A)
                iv, ov = res.fields.get("inputvars"), res.fields.get("outputvars")
                if not isinstance(iv, VS) or not isinstance(ov, VS):
                    out.append({"kind": "iface", "ok": False, "what": "interface lists of the result are not variable lists", "path": path_label(p)})
                else:
                    for nm, got, spec in (("inputs", iv.tt, spec_in), ("outputs", ov.tt, spec_out)):
                        diff = (got ^ spec) & p.allowed
                        out.append(
                            {
                                "kind": "iface",
                                "what": "%s result %s = prescribed formula" % (op, nm),
                                "ok": diff == 0,
                                "rows": p.atoms.describe(diff, p.allowed) if diff else "",
                                "got": p.atoms.describe(got, p.allowed),
                                "spec": p.atoms.describe(spec, p.allowed),
                                "path": path_label(p),
                            }
                        )
            for (label, b) in bads:
                comp = satisfiable(list(p.conds) + [b], p.allowed)
                out.append(
                    {
                        "kind": "guard-return",
                        "what": "%s: no result is returned for a request with %s" % (op, label),
                        "label": label,
                        "ok": not comp,
                        "path": path_label(p),
                    }
                )
        elif p.terminal == "raise":
            if any(c[0] == "not" and c[1][0] == "op" and str(c[1][1]).startswith("isinstance(") for c in p.conds):
                continue  # rejected because an operand has the wrong type: ill-formed arguments, not an interface request
            for (label, b) in bads:
                comp = satisfiable(list(p.conds) + [b], p.allowed)
                if comp:
                    good = exc_is_sub(p.exc.cls, "IncompatibleArgsError")
                    # only the *first* guard that fires decides the class; a path compatible with several bad
                    # requests raises once - fine as long as it is IncompatibleArgsError
                    out.append(
                        {
                            "kind": "guard-raise",
                            "what": "%s: a request with %s is rejected with IncompatibleArgsError" % (op, label),
                            "label": label,
                            "ok": good,
                            "raised": p.exc.cls,
                            "implicit": p.exc.implicit,
                            "site": norm(p.exc.node)[:120] if p.exc.node is not None else "",
                            "func": p.exc.func,
                            "path": path_label(p),
                        }
                    )
    return out


def _with_defaults(A: Dict[str, int], p: Path) -> Dict[str, int]:
    B = dict(A)
    for nm in ("v(A1)", "v(A2)", "v(G1)", "v(G2)", "K"):
        if nm not in B:
            B[nm] = 0
    return B
