"""C13: operations are pure - rules over the interprocedural effect / alias analysis (pv.effects)."""
from __future__ import annotations

import ast
from typing import Dict, List, Set

from .effects import FRESH, Effects, Site
from .loader import FuncInfo, Program, norm
from .report import Ctx

# functions that are allowed to modify the object they are invoked on, with the reason
SELF_MUTATORS = {
    "IoContract.simplify": "documented in-place method ('Simplifies guarantees given assumptions', returns None)",
}
DOMAIN_CLASSES = ["Var", "PolyhedralTerm", "TermList", "PolyhedralTermList", "IoContract", "PolyhedralIoContract", "NestedTermList", "NestedPolyhedra", "IoContractCompound", "PolyhedralIoContractCompound"]
_CACHE: Dict[str, Effects] = {}


def effects(prog: Program) -> Effects:
    if prog.digest not in _CACHE:
        _CACHE.clear()
        _CACHE[prog.digest] = Effects(prog)
    return _CACHE[prog.digest]


def parse_actions(prog: Program) -> Set[str]:
    """Functions attached to grammar elements with set_parse_action / setParseAction."""
    out: Set[str] = set()
    m = prog.module("grammar")
    for node in ast.walk(m.tree):
        if isinstance(node, ast.Call) and isinstance(node.func, ast.Attribute) and node.func.attr in ("set_parse_action", "setParseAction", "add_parse_action"):
            for a in node.args:
                if isinstance(a, ast.Name) and a.id in m.functions:
                    out.add(m.functions[a.id].key)
    return out


def payload_classes_are_parser_private(prog: Program) -> List[str]:
    """The dataclasses parse actions edit in place are instantiated only on parse paths (grammar/data/serializer)."""
    m = prog.module("data")
    bad = []
    names = set(m.classes)
    for mod in prog.modules.values():
        if mod.base in ("grammar", "data", "serializer"):
            continue
        for node in ast.walk(mod.tree):
            if isinstance(node, ast.Call) and isinstance(node.func, ast.Name) and node.func.id in names and not node.func.id.endswith("Operator"):
                bad.append("%s instantiates %s" % (mod.relpath, node.func.id))
    return bad


def _new_class(cname: str) -> bool:
    from .pathsim import _is_new_class

    return _is_new_class(cname)


def _is_new(key: str) -> bool:
    from .pathsim import is_new_helper

    return is_new_helper(key)


def _desc(site: Site) -> str:
    return "%s: %s" % (site.what, norm(site.node)[:90])


def rule_no_operand_mutation(ctx: Ctx, rule: str = "operand-mutation") -> None:
    """P1/P4: no function writes to an object reachable from one of its parameters (directly or through a callee),
    except constructors on self, the documented in-place method, and parse actions on their own parse payload."""
    prog = ctx.prog
    E = effects(prog)
    actions = parse_actions(prog)
    private_bad = payload_classes_are_parser_private(prog)
    counts = {"fresh": 0, "ctor-self": 0, "in-place-method": 0, "parse-payload": 0}
    for key in sorted(E.sites):
        for site in E.sites[key]:
            fi = site.fi
            unknown = [o for o in site.origins if o[0] == "u"]
            if unknown:
                ctx.cannot_decide(rule, fi.key, _desc(site), "the mutated object's origin is unknown: %s" % unknown)
                continue
            porig = sorted(o for o in site.origins if o[0] == "p")
            if not porig:
                if not [o for o in site.origins if o[0] == "g"]:
                    counts["fresh"] += 1
                    ctx.ok(rule, fi.key, "writes only to objects created in the call: " + _desc(site)[:70], nontrivial=False)
                continue
            me = fi.params[0] if fi.params and fi.cls is not None and fi.kind in ("method", "property") else None
            def is_private(key: str) -> bool:
                nm = key.split(".")[-1]
                return nm.startswith("_") and not (nm.startswith("__") and nm.endswith("__"))

            if site.via:
                # propagated effect: a public callee reports its own site; a private helper (which may legitimately
                # edit the fresh object its callers hand it) and the exempt in-place methods are reported here, at
                # the call site that hands them an operand
                if site.via.endswith(".__init__") or site.via.endswith(".__post_init__"):
                    continue
                callee_reports_itself = not is_private(site.via) and site.via not in SELF_MUTATORS and site.via not in actions
                if callee_reports_itself:
                    continue
                if is_private(fi.key) and fi.key not in actions and fi.key not in SELF_MUTATORS and _is_new(fi.key):
                    # a private helper extracted later that hands its own argument on to another private helper: like a
                    # direct edit, judged where this helper is called (the effect is part of its summary).  The private
                    # functions of the reference tree are not exempt: the tactics are reached through a table, not by
                    # calls that could be judged
                    ctx.ok(rule, fi.key, "private helper passes its argument to an editing helper; judged at its call sites: " + norm(site.node)[:50], nontrivial=False)
                    continue
            elif is_private(fi.key) and fi.key not in actions:
                # a private helper editing its own argument: judged where it is called
                ctx.ok(rule, fi.key, "private helper edits its argument; judged at its call sites: " + norm(site.node)[:50], nontrivial=False)
                continue
            if fi.cls is not None and me is not None and (fi.cls.name.startswith("_") or fi.module.base.startswith("_")) and _new_class(fi.cls.name) and all(o[1] == me for o in porig) and not site.via:
                # a method of a private class the reference tree does not have (an accumulator / builder extracted
                # later) edits the object it is called on: judged where that object comes from - a caller that hands
                # an operand to such a method is reported there
                ctx.ok(rule, fi.key, "method of a private helper class edits its own object; judged at its call sites: " + norm(site.node)[:50], nontrivial=False)
                continue
            if fi.name in ("__init__", "__post_init__") and all(o[1] == me for o in porig):
                counts["ctor-self"] += 1
                ctx.ok(rule, fi.key, "constructor initialises self: " + norm(site.node)[:60], nontrivial=False)
                continue
            if fi.key in SELF_MUTATORS and not site.via and all(o[1] == me and o[2] == 0 for o in porig):
                counts["in-place-method"] += 1
                ctx.ok(rule, fi.key, "documented in-place method: " + norm(site.node)[:60], SELF_MUTATORS[fi.key])
                continue
            if fi.key in actions and all(o[1] == fi.params[0] and o[2] >= 1 for o in porig) and not private_bad:
                counts["parse-payload"] += 1
                ctx.ok(rule, fi.key, "parse action edits its own parse payload: " + norm(site.node)[:60], nontrivial=False)
                continue
            names = sorted({"%s%s" % (o[1], "" if o[2] == 0 else " (a component of it)") for o in porig})
            ctx.violation(
                rule,
                fi.key,
                "%s writes to its argument %s" % (fi.key, ", ".join(sorted({o[1] for o in porig}))),
                "%s modifies an object reachable from parameter %s: the caller's operand is changed" % (_desc(site), ", ".join(names)),
                where=site.where,
            )
    ctx.extra["mutation_sites"] = counts
    ctx.floor("mutation sites on fresh objects", counts["fresh"], 80)
    ctx.floor("constructor stores", counts["ctor-self"], 15)
    ctx.floor("parse-action payload edits (positive control: rooted sites are recognised)", counts["parse-payload"], 5)
    if private_bad:
        ctx.violation(rule, "data", "parser payload classes are parser-private", "; ".join(private_bad))


def rule_no_global_mutation(ctx: Ctx, rule: str = "module-state") -> None:
    """P2: module-level / class-level mutable bindings (TACTICS_ORDER, TACTICS, grammar elements, ...) are never
    written, neither directly nor by handing them to a callee that writes its argument."""
    prog = ctx.prog
    E = effects(prog)
    n = 0
    for key in sorted(E.sites):
        for site in E.sites[key]:
            g = sorted(o[1] for o in site.origins if o[0] == "g")
            if g:
                ctx.violation(
                    rule,
                    site.fi.key,
                    "%s writes to module state %s" % (site.fi.key, ", ".join(g)),
                    "%s modifies %s, which is shared by every later call" % (_desc(site), ", ".join(g)),
                    where=site.where,
                )
    # which mutable module state exists, and who can see it by reference
    shared = []
    for m in prog.modules.values():
        for name in sorted(E.module_mutables.get(m.name, ())):
            shared.append("%s.%s" % (m.base, name))
            n += 1
    ptl = prog.classes.get("PolyhedralTermList")
    if ptl is not None and "TACTICS" in ptl.class_assigns:
        shared.append("PolyhedralTermList.TACTICS")
        n += 1
    ctx.extra["module_state"] = shared
    ctx.ok(rule, "-", "no write reaches any of the %d mutable module-level bindings" % n) if not any(v["rule"] == rule for v in ctx.violations) else None
    ctx.floor("mutable module-level bindings tracked", n, 30)
    # module-level statements after import time must not rebind them from inside functions
    for fi in prog.all_functions():
        for node in ast.walk(fi.node):
            if isinstance(node, ast.Global):
                ctx.violation(rule, fi.key, "%s declares global %s" % (fi.key, ", ".join(node.names)), "a function rebinds module state", where=fi.where)


_MUTABLE_CALLS = ("list", "dict", "set", "defaultdict", "collections.defaultdict", "OrderedDict", "collections.OrderedDict", "deque", "collections.deque", "bytearray")


def _is_mutable_value(v: ast.AST) -> bool:
    if isinstance(v, (ast.List, ast.Dict, ast.Set, ast.ListComp, ast.DictComp, ast.SetComp)):
        return True
    return isinstance(v, ast.Call) and norm(v.func) in _MUTABLE_CALLS


def rule_instance_fields_own(ctx: Ctx, rule: str = "shared-default") -> None:
    """History independence: a mutable object bound at class level under the name of an instance field (`terms:
    List[..] = []` next to `self.terms = ...`) is ONE object for every instance that does not store its own - an
    in-place edit of one instance's field (the library's own `.terms.remove(..)`, `.terms[i] = ..`, or the caller's)
    then shows in all of them, operands of earlier calls included.  For every such name the constructor must store
    the instance's own object on every returning path; and no method may edit the field of an instance in place
    while the class-level object can still be what it holds."""
    from .loader import AnalysisError
    from .pathsim import Sim

    prog = ctx.prog
    n = 0
    for cname, ci in sorted(prog.classes.items()):
        if ci.is_dataclass or any(norm(b).split(".")[-1] == "NamedTuple" for b in ci.node.bases):
            continue  # their class-level values are field defaults, which Python itself refuses when mutable
        family = [c for c in prog.classes.values() if prog.is_subclass(c.name, cname) or prog.is_subclass(cname, c.name)]
        for name, val in sorted(ci.class_assigns.items()):
            if not _is_mutable_value(val):
                continue
            stored_by = []
            for c in family:
                for m in c.methods.values():
                    me = m.params[0] if m.params and m.kind in ("method", "property") else None
                    if me is None:
                        continue
                    for node in ast.walk(m.node):
                        tg = node.targets if isinstance(node, ast.Assign) else [node.target] if isinstance(node, (ast.AnnAssign, ast.AugAssign)) else []
                        for t in tg:
                            if isinstance(t, ast.Attribute) and t.attr == name and isinstance(t.value, ast.Name) and t.value.id == me:
                                stored_by.append(m.key)
            if not stored_by:
                continue  # a table of the class (TACTICS): written nowhere through an instance; module-state watches it
            n += 1
            construct = "%s.%s: every instance holds its own object, not the class-level %s" % (cname, name, norm(val)[:20])
            init = prog.resolve_method(cname, "__init__")
            if init is None:
                ctx.violation(rule, cname, construct, "no constructor stores self.%s: instances share the class-level object" % name, where="%s:%d" % (ci.module.relpath, ci.node.lineno))
                continue
            me = init.params[0]
            try:
                paths = [p for p in Sim(prog, init).paths() if p.terminal == "return"]
            except AnalysisError as ex:
                ctx.cannot_decide(rule, init.key, construct, str(ex))
                continue
            bad = [p for p in paths if not any(e["kind"] == "store" and e["target"] == ("attr", ("param", me), name) for e in p.events)]
            if bad:
                ctx.violation(rule, init.key, construct, "the constructor returns without storing self.%s (path %s): such instances all share one %s, and an in-place edit of one shows in every other" % (name, bad[0].label()[:80] or "straight line", norm(val)[:20]), where=init.where)
            else:
                ctx.ok(rule, init.key, construct)
    ctx.ok(rule, "-", "class-level mutable values that shadow instance fields: %d" % n, nontrivial=False)


def rule_no_alias_results(ctx: Ctx, rule: str = "result-aliasing") -> None:
    """P3: constructors store copies of their mutable arguments; methods of the domain classes return objects
    created in the call (object and its direct containers), never an operand or a piece of one."""
    prog = ctx.prog
    E = effects(prog)
    n = 0
    for cname in DOMAIN_CLASSES:
        ci = prog.classes.get(cname)
        if ci is None:
            continue
        for mname, fi in sorted(ci.methods.items()):
            s = E.summ[fi.key]
            if mname == "__init__":
                me = fi.params[0]
                for attr, v in sorted(s.attr_store.items()):
                    n += 1
                    bad = sorted(o for o in v[0] if o[0] in ("p", "g") and not (o[0] == "p" and o[1] == me))
                    construct = "%s.__init__ stores a private copy in self.%s" % (cname, attr)
                    if bad:
                        ctx.violation(rule, fi.key, construct, "self.%s is bound to the caller's own object (%s): later edits of either show through" % (attr, ", ".join(str(o[1]) for o in bad)), where=fi.where)
                    else:
                        ctx.ok(rule, fi.key, construct)
                continue
            if mname.startswith("__") and mname not in ("__or__", "__and__", "__sub__", "__add__"):
                continue
            if isinstance(fi.node, ast.Lambda) or fi.node.returns is None:
                continue
            from .pathsim import is_new_helper

            if mname.startswith("_") and is_new_helper(fi.key):
                # a private helper that did not exist on the reference tree hands its result to the method it was
                # extracted from: what that method returns is judged there (the helper's origins flow into it)
                continue
            if E.ann_immutable(fi.node.returns) or norm(fi.node.returns) in ("None", "bool"):
                continue
            n += 1
            bad0 = sorted(o for o in s.ret[0] if o[0] in ("p", "g"))
            rcls = E.ann_class(fi.node.returns)
            bad1 = sorted(o for o in s.ret[1] if o[0] in ("p", "g")) if rcls is not None or "Tuple[" in norm(fi.node.returns) else []
            construct = "%s returns an object created in the call" % fi.key
            if s.ret_items and isinstance(fi.node.returns, ast.Subscript) and norm(fi.node.returns.value).endswith("Tuple"):
                sl = fi.node.returns.slice
                anns = list(sl.elts) if isinstance(sl, ast.Tuple) else [sl]
                for it_, an_ in zip(s.ret_items, anns):
                    if E.ann_class(an_) is not None:  # only elements that are domain objects
                        bad0 += sorted(o for o in it_[0] if o[0] in ("p", "g"))
            if bad0:
                ctx.violation(rule, fi.key, construct, "the returned object may be %s" % ", ".join("%s %s" % ("parameter" if o[0] == "p" else "module state", o[1]) for o in bad0), where=fi.where)
            elif bad1 and rcls is not None:
                ctx.violation(rule, fi.key, construct, "a direct component of the returned %s is shared with %s" % (rcls, ", ".join(str(o[1]) for o in bad1)), where=fi.where)
            else:
                ctx.ok(rule, fi.key, construct)
    ctx.floor("constructor stores + returning methods checked", n, 60)


def rule_time_only_in_stats(ctx: Ctx, rule: str = "impurity-sources") -> None:
    """History independence: wall-clock readings flow only into the tactic statistics, never into a term."""
    prog = ctx.prog
    n = 0
    for fi in prog.all_functions():
        if isinstance(fi.node, ast.Lambda):
            continue
        names = set()
        for node in ast.walk(fi.node):
            if isinstance(node, ast.Assign) and isinstance(node.value, ast.Call) and norm(node.value.func) in ("time.time", "time.perf_counter", "time.monotonic"):
                for t in node.targets:
                    if isinstance(t, ast.Name):
                        names.add(t.id)
        if not names:
            continue
        n += 1
        bad = []
        for node in ast.walk(fi.node):
            if isinstance(node, ast.Call):
                for a in list(node.args) + [k.value for k in node.keywords]:
                    if any(isinstance(x, ast.Name) and x.id in names for x in ast.walk(a)):
                        bad.append(norm(node)[:60])
            if isinstance(node, (ast.Assign, ast.AugAssign)):
                tg = node.targets[0] if isinstance(node, ast.Assign) else node.target
                if isinstance(tg, (ast.Attribute, ast.Subscript)) and any(isinstance(x, ast.Name) and x.id in names for x in ast.walk(node.value)):
                    bad.append(norm(node)[:60])
        construct = "%s: clock readings only reach the returned statistics" % fi.key
        (ctx.ok(rule, fi.key, construct) if not bad else ctx.violation(rule, fi.key, construct, "clock value used in %s" % bad[0], where=fi.where))
    # the iteration order of a set of strings / variables depends on the interpreter's hash seed: it may be consumed
    # by order-free operations only (len, in, sorted, min/max/sum/any/all, another set) - never turned into a list
    # or iterated to build one
    order_free = {"sorted", "len", "set", "frozenset", "min", "max", "sum", "any", "all", "bool"}
    n_sets = 0
    for fi in prog.all_functions():
        if isinstance(fi.node, ast.Lambda):
            continue
        parents: Dict[ast.AST, ast.AST] = {}
        for nd in ast.walk(fi.node):
            for ch in ast.iter_child_nodes(nd):
                parents[ch] = nd
        for node in ast.walk(fi.node):
            is_set = isinstance(node, (ast.Set, ast.SetComp)) or (isinstance(node, ast.Call) and isinstance(node.func, ast.Name) and node.func.id in ("set", "frozenset") and node.args)
            if not is_set:
                continue
            par = parents.get(node)
            ordered_use = None
            if isinstance(par, ast.Call) and isinstance(par.func, ast.Name) and par.func.id in ("list", "tuple") and node in par.args:
                ordered_use = norm(par)
            elif isinstance(par, ast.comprehension) and par.iter is node:
                comp = parents.get(par)
                if isinstance(comp, (ast.ListComp, ast.GeneratorExp)) and not (isinstance(parents.get(comp), ast.Call) and isinstance(parents.get(comp).func, ast.Name) and parents.get(comp).func.id in order_free):
                    ordered_use = norm(comp)
            elif isinstance(par, ast.For) and par.iter is node:
                ordered_use = "for ... in %s" % norm(node)
            elif isinstance(par, ast.Starred):
                ordered_use = norm(parents.get(par, par))
            if ordered_use is None:
                continue

            def membership_only(use: ast.AST) -> bool:
                """the sequence is only asked whether it contains something (right side of in / not in, second
                argument of list_diff / list_intersection) or handed to an order-free consumer"""
                pu = parents.get(use)
                if isinstance(pu, ast.Compare) and len(pu.ops) == 1 and isinstance(pu.ops[0], (ast.In, ast.NotIn)) and pu.comparators[0] is use:
                    return True
                if isinstance(pu, ast.Call) and isinstance(pu.func, ast.Name):
                    if pu.func.id in ("list_diff", "list_intersection") and len(pu.args) == 2 and pu.args[1] is use:
                        return True
                    if pu.func.id in order_free and use in pu.args:
                        return True
                return False

            seq = par if isinstance(par, ast.Call) else None
            if seq is not None:
                if membership_only(seq):
                    continue
                holder = parents.get(seq)
                if isinstance(holder, ast.Assign) and len(holder.targets) == 1 and isinstance(holder.targets[0], ast.Name) and holder.value is seq:
                    nm = holder.targets[0].id
                    loads = [x for x in ast.walk(fi.node) if isinstance(x, ast.Name) and x.id == nm and isinstance(x.ctx, ast.Load)]
                    rebinds = [x for x in ast.walk(fi.node) if isinstance(x, ast.Name) and x.id == nm and isinstance(x.ctx, ast.Store)]
                    if len(rebinds) == 1 and nm not in fi.params and loads and all(membership_only(x) for x in loads):
                        continue
            # inside an error message the order changes a text, not a result
            up = par
            in_raise = False
            while up is not None:
                if isinstance(up, ast.Raise) or (isinstance(up, ast.Call) and norm(up.func).startswith("logging.")):
                    in_raise = True
                    break
                up = parents.get(up)
            if in_raise:
                continue
            n_sets += 1
            ctx.violation(rule, fi.key, "%s: no result depends on the iteration order of a set" % fi.key, "`%s` turns a set into a sequence: its order follows the hashes of its members, which change from one interpreter run to the next for strings and variables - the same call gives differently ordered results in different sessions" % ordered_use[:80], where="%s:%d" % (fi.module.relpath, node.lineno))
    if not n_sets:
        ctx.ok(rule, "-", "no set is turned into a sequence (or iterated to build one) outside error messages", nontrivial=False)
    # random / global counters
    for fi in prog.all_functions():
        for node in ast.walk(fi.node):
            if isinstance(node, ast.Call) and norm(node.func).split(".")[0] in ("random",) :
                ctx.violation(rule, fi.key, "%s uses a random source" % fi.key, norm(node)[:60], where=fi.where)
    ctx.floor("functions reading the clock", n, 1)
