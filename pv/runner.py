"""Run one property check against the current working tree of /repo."""
from __future__ import annotations

import traceback
from typing import Dict, Optional

from .loader import AnalysisError, Program
from .report import Ctx


def run_check(prop: str, tier: str = "quick", seed: int = 0, write: bool = True, overrides: Optional[Dict[str, str]] = None, quiet: bool = False) -> int:
    from .props import PROPS

    if prop not in PROPS:
        print("ANALYSIS-ERROR unknown property %s" % prop)
        return 2
    spec = PROPS[prop]
    prog = None
    try:
        prog = Program.load(overrides=overrides)
    except AnalysisError as e:
        ctx = Ctx(None, prop, tier, seed, quiet)
        ctx.cannot_decide("load", "-", "-", str(e))
        return ctx.finish(spec["level"], spec["explanation"], write=write)
    ctx = Ctx(prog, prop, tier, seed, quiet)
    ctx.assumptions = list(spec.get("assumptions", []))
    try:
        from . import rules_algebra as _RA

        _RA.THOROUGH["on"] = tier == "thorough"
        spec["fn"](ctx)
        if tier == "thorough" and overrides is None:
            from .selftest import run_variants

            sv = run_variants(props=[prop])
            ctx.extra["variant_corpus"] = {
                "breaking_variants_run": sv["breaking_expected"],
                "breaking_variants_reported": sv["breaking_killed"],
                "neutral_variants_run": sv["neutral_runs"],
                "neutral_variants_silent": sv["neutral_silent"],
                "stale": sv["stale"],
                "problems": [{k: f[k] for k in ("id", "prop", "problem")} for f in sv["failures"]],
                "note": "each variant is the current source of one module with one edit applied in memory; a surviving breaking variant or a "
                "noisy neutral variant is a weakness of the checker and is listed here - it does not change the verdict on the tree",
            }
    except AnalysisError as e:
        ctx.cannot_decide("engine", "-", "-", str(e))
    except RecursionError as e:  # pragma: no cover
        ctx.cannot_decide("engine", "-", "-", "recursion limit: %s" % e)
    except Exception as e:  # the checker itself crashed: analysis error, never a violation
        if not quiet:
            traceback.print_exc()
        ctx.cannot_decide("engine", "-", "-", "checker crashed: %r" % (e,))
    return ctx.finish(spec["level"], spec["explanation"], trusted_base=spec.get("trusted"), write=write)
