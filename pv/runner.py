"""Run one property check against the current working tree of /repo."""
from __future__ import annotations

import traceback
from typing import Dict, Optional

from .loader import AnalysisError, Program
from .report import Ctx


def run_check(prop: str, tier: str = "quick", seed: int = 0, write: bool = True, overrides: Optional[Dict[str, str]] = None, quiet: bool = False) -> int:
    from .props import PROPS

    if prop not in PROPS:
        print("ANALYSIS-ERROR unknown property %s" % prop)
        return 2
    spec = PROPS[prop]
    prog = None
    try:
        prog = Program.load(overrides=overrides)
    except AnalysisError as e:
        ctx = Ctx(None, prop, tier, seed, quiet)
        ctx.cannot_decide("load", "-", "-", str(e))
        return ctx.finish(spec["level"], spec["explanation"], write=write)
    ctx = Ctx(prog, prop, tier, seed, quiet)
    ctx.assumptions = list(spec.get("assumptions", []))
    try:
        spec["fn"](ctx)
        if tier == "thorough" and "thorough" in spec:
            spec["thorough"](ctx)
    except AnalysisError as e:
        ctx.cannot_decide("engine", "-", "-", str(e))
    except RecursionError as e:  # pragma: no cover
        ctx.cannot_decide("engine", "-", "-", "recursion limit: %s" % e)
    except Exception as e:  # the checker itself crashed: analysis error, never a violation
        if not quiet:
            traceback.print_exc()
        ctx.cannot_decide("engine", "-", "-", "checker crashed: %r" % (e,))
    return ctx.finish(spec["level"], spec["explanation"], trusted_base=spec.get("trusted"), write=write)
