"""Path-sensitive partial evaluation of one function over its syntax tree.

Values are uninterpreted expression trees (nested tuples) with copy propagation through locals, so
that rules see *what flows where* independently of how many temporaries the code uses.  Conditions
are folded when they become constant under the caller-supplied assumptions (e.g. "res['status'] is
2"); otherwise the path forks.  Loops are unrolled at most once (zero or one iteration): enough for
the shape rules that use this module, and stated as such in their evidence.

Nothing from /repo is executed; no value is ever concrete except literals in the source.
"""
from __future__ import annotations

import ast
from typing import Any, Callable, Dict, List, Optional, Tuple

from .cfg import ExcTable, exc_class_of, handler_classes
from .loader import AnalysisError, FuncInfo, Program, norm

V = tuple  # value trees are tuples: (kind, ...)

import json as _json
import os as _os

_KNOWN = None


def known_functions() -> set:
    global _KNOWN
    if _KNOWN is None:
        path = _os.path.join(_os.path.dirname(_os.path.abspath(__file__)), "tables", "known_functions.json")
        try:
            with open(path) as fh:
                _KNOWN = set(_json.load(fh)["functions"])
        except OSError:
            _KNOWN = set()
    return _KNOWN


def is_new_helper(key: str) -> bool:
    """A function that does not exist on the reference tree: a helper extracted later -> transparent for the rules."""
    return bool(known_functions()) and key not in known_functions()


def _is_new_class(cname: str) -> bool:
    """A class none of whose methods exists on the reference tree (and that is not one of its method-less classes)."""
    known = known_functions()
    return bool(known) and not any(k.startswith(cname + ".") for k in known) and cname not in _REFERENCE_CLASSES


_REFERENCE_CLASSES = {"PolyhedralSyntaxOperator", "PolyhedralSyntaxEqlExpression", "PolyhedralSyntaxIneqExpression", "IncompatibleArgsError", "ContractFormatError", "PolyhedralSyntaxException", "PolyhedralSyntaxConvexException", "FileDataFormatException"}


_NEVER_NONE = {"numpy.array", "numpy.asarray", "numpy.zeros", "numpy.ones", "numpy.copy", "numpy.concatenate", "numpy.vstack", "numpy.hstack", "numpy.delete", "numpy.empty", "numpy.abs", "numpy.dot", "numpy.transpose", "numpy.reshape", "numpy.where", "numpy.flatnonzero", "numpy.nonzero", "numpy.isclose", "numpy.any", "numpy.all", "numpy.max", "numpy.min", "numpy.sum", "numpy.append", "numpy.linalg.solve", "list", "dict", "set", "tuple", "frozenset", "len", "str", "int", "float", "bool", "sorted", "zip", "enumerate", "range", "type", "repr", "abs", "sum", "reversed", "iter", "map", "filter", "isinstance", "format", "round"}


def const(v) -> V:
    return ("const", v)


def is_const(v: V) -> bool:
    return isinstance(v, tuple) and len(v) == 2 and v[0] == "const"


class _Return(Exception):
    def __init__(self, value):
        self.value = value


class _Raise(Exception):
    def __init__(self, cls, node, value=None):
        self.cls = cls
        self.node = node
        self.value = value


class _Break(Exception):
    pass


class _Continue(Exception):
    pass


class _Prune(Exception):
    pass


class PPath:
    def __init__(self):
        self.terminal = ""  # return | raise
        self.value: Optional[V] = None
        self.exc_cls: Optional[str] = None
        self.exc_node = None
        self.events: List[dict] = []
        self.decisions: List[Tuple[str, Any]] = []
        self.env: Dict[str, V] = {}

    def calls(self, name: Optional[str] = None) -> List[dict]:
        return [e for e in self.events if e["kind"] == "call" and (name is None or e["callee"] == name or e["callee"].endswith("." + name))]

    def label(self) -> str:
        return "; ".join("%s=%s" % (t, c) for (t, c) in self.decisions) or "(straight line)"


class Sim:
    def __init__(
        self,
        prog: Program,
        fi: FuncInfo,
        assume: Optional[Callable[[V], Optional[V]]] = None,
        args: Optional[Dict[str, V]] = None,
        max_paths: int = 4000,
        inline: Optional[Callable[[str], bool]] = None,
        loop_iters: Tuple[int, ...] = (0, 1),
        raises: Optional[Callable[[str, V], List[str]]] = None,
        seq_len: Optional[Dict[Any, int]] = None,
    ):
        self.prog = prog
        self.fi = fi
        self.assume = assume
        self.args = args or {}
        self.max_paths = max_paths
        self.exc = ExcTable(prog)
        self.inline = inline if inline is not None else is_new_helper
        self.loop_iters = loop_iters
        self.raises = raises  # callee name, call value -> exception classes the call may raise (forked)
        self.seq_len = seq_len or {}  # value of a sequence -> its (assumed) length: loops over it run exactly that often

    # ------------------------------------------------------------------ api
    def paths(self) -> List[PPath]:
        out: List[PPath] = []
        stack: List[List[int]] = [[]]
        n = 0
        while stack:
            prefix = stack.pop()
            n += 1
            if n > self.max_paths:
                raise AnalysisError("more than %d paths in %s" % (self.max_paths, self.fi.key))
            r = _Run(self, prefix)
            p = r.run()
            for i in range(len(prefix), len(r.trace)):
                nopt, chosen, _t = r.trace[i]
                for alt in range(chosen + 1, nopt):
                    stack.append([c for (_n, c, _t2) in r.trace[:i]] + [alt])
            if p is not None:
                out.append(p)
        return out


class _Run:
    def __init__(self, sim: Sim, prefix: List[int]):
        self.sim = sim
        self.prog = sim.prog
        self.prefix = prefix
        self.trace: List[Tuple[int, int, str]] = []
        self.path = PPath()
        self.site = 0
        self.fstack: List[FuncInfo] = []
        self.loopdepth = 0
        self._closures: Dict[int, Any] = {}
        self.decided: Dict[Any, bool] = {}

    def choose(self, n: int, tag: str) -> int:
        i = len(self.trace)
        c = self.prefix[i] if i < len(self.prefix) else 0
        self.trace.append((n, c, tag))
        return c

    def run(self) -> Optional[PPath]:
        fi = self.sim.fi
        env: Dict[str, V] = {}
        for p in fi.params:
            env[p] = self.sim.args.get(p, ("param", p))
        a = fi.node.args
        for kw in a.kwonlyargs:
            env[kw.arg] = self.sim.args.get(kw.arg, ("param", kw.arg))
        self.fstack.append(fi)
        p = self.path
        try:
            self.block(fi.body, env)
            p.terminal = "return"
            p.value = const(None)
        except _Return as r:
            p.terminal = "return"
            p.value = r.value
        except _Raise as r:
            p.terminal = "raise"
            p.exc_cls = r.cls
            p.exc_node = r.node
        except _Prune:
            return None
        p.env = env
        return p

    # ------------------------------------------------------------ statements
    def apply_value(self, fn: V, args, node) -> Optional[V]:
        """Call a function VALUE (a function of the package, a local function, a lambda) on argument values; None when
        the value is not one this simulator can enter."""
        if isinstance(fn, tuple) and fn and fn[0] == "func":
            fi_ = self.prog.funcs.get(fn[1])
            if fi_ is not None and fi_.kind in ("function", "static"):
                return self.inline_call(fn[1], tuple(args), (), node, None)
            return None
        if isinstance(fn, tuple) and fn and fn[0] == "attr" and len(fn) == 3:
            # a bound method value (obj.method): the call obj.method(args)
            self.site += 1
            v = ("mcall", fn[2], fn[1], tuple(args), (), self.site)
            self.ev("call", callee="." + fn[2], f=fn, recv=fn[1], args=tuple(args), kws=(), node=node, result=v)
            return v
        if isinstance(fn, tuple) and fn and fn[0] == "closure" and fn[2] in self._closures:
            fnode, env0, frame = self._closures[fn[2]]
            a_ = fnode.args
            names = [x.arg for x in a_.args]
            if a_.vararg or a_.kwarg or len(args) > len(names) or len(self.fstack) > 6:
                return None
            env1 = dict(env0)
            for n_, d_ in zip(reversed(names), reversed(a_.defaults)):
                env1[n_] = self.eval(d_, dict(env0))
            for n_, v_ in zip(names, args):
                env1[n_] = v_
            if any(n_ not in env1 for n_ in names):
                return None
            self.fstack.append(frame)
            try:
                self.block(fnode.body, env1)
                return const(None)
            except _Return as r:
                return r.value
            finally:
                self.fstack.pop()
        return None

    def block(self, stmts, env):
        for s in stmts:
            self.stmt(s, env)

    def ev(self, kind: str, **kw) -> dict:
        e = {"kind": kind, "func": self.fstack[-1].key, "loop": self.loopdepth}
        e.update(kw)
        self.path.events.append(e)
        return e

    def stmt(self, s, env):
        if isinstance(s, ast.Expr):
            if isinstance(s.value, ast.Constant):
                return
            self.eval(s.value, env)
            return
        if isinstance(s, ast.Assign):
            v = self.eval(s.value, env)
            for t in s.targets:
                self.assign(t, v, env, s)
            return
        if isinstance(s, ast.AnnAssign):
            if s.value is not None:
                self.assign(s.target, self.eval(s.value, env), env, s)
            return
        if isinstance(s, ast.AugAssign):
            cur = self.eval(_as_load(s.target), env)
            rhs = self.eval(s.value, env)
            v = ("bin", type(s.op).__name__, cur, rhs)
            self.ev("augassign", target=self.lvalue(s.target, env), op=type(s.op).__name__, rhs=rhs, node=s, target_is_name=isinstance(s.target, ast.Name))
            self.assign(s.target, v, env, s, aug=True)
            return
        if isinstance(s, ast.If):
            t = self.eval(s.test, env)
            if self.decide(t, s.test):
                self.block(s.body, env)
            else:
                self.block(s.orelse, env)
            return
        if isinstance(s, ast.Return):
            rv = self.eval(s.value, env) if s.value is not None else const(None)
            if isinstance(rv, tuple) and rv and rv[0] in ("cmp", "boolop", "un"):
                # a test returned as a value (`return status == INFEASIBLE`): its truth when the path's assumptions fix it
                fv = self.fold(rv)
                if is_const(fv) and isinstance(fv[1], bool):
                    rv = fv
            raise _Return(rv)
        if isinstance(s, ast.Raise):
            cls = exc_class_of(s.exc) or "?"
            if s.exc is None:
                cls = env.get("__caught__", ("const", "?"))[1] if "__caught__" in env else "?"
            if isinstance(s.exc, ast.Name) and ("exc:" + s.exc.id) in env:
                cls = env["exc:" + s.exc.id][1]
            self.ev("raise", cls=cls, node=s)
            raise _Raise(cls, s)
        if isinstance(s, ast.Assert):
            t = self.eval(s.test, env)
            self.ev("assert", test=t, node=s)
            return  # asserts are C14's business; path rules treat them as passing
        if isinstance(s, ast.Pass):
            return
        if isinstance(s, ast.Break):
            raise _Break()
        if isinstance(s, ast.Continue):
            raise _Continue()
        if isinstance(s, ast.Try):
            try:
                self.block(s.body, env)
            except _Raise as r:
                for h in s.handlers:
                    hcs = handler_classes(h)
                    unknown = r.cls == "?" or not self.sim.exc.known(r.cls)
                    if unknown or any(self.sim.exc.is_sub(r.cls, hc) for hc in hcs):
                        self.ev("caught", cls=r.cls, by=hcs, node=h)
                        if h.name:
                            env[h.name] = ("exc", r.cls)
                            env["exc:" + h.name] = const(r.cls)
                        env["__caught__"] = const(r.cls)
                        self.block(h.body, env)
                        break
                else:
                    raise
            else:
                self.block(s.orelse, env)
            if s.finalbody:
                self.block(s.finalbody, env)
            return
        if isinstance(s, ast.For):
            it = self.eval(s.iter, env)
            self.loop(s, env, it)
            return
        if isinstance(s, ast.While):
            self.loop(s, env, None)
            return
        if isinstance(s, ast.With):
            for item in s.items:
                v = self.eval(item.context_expr, env)
                if item.optional_vars is not None:
                    self.assign(item.optional_vars, ("with", v), env, s)
            self.block(s.body, env)
            return
        if isinstance(s, ast.FunctionDef):
            # a local function: a value that sees the variables of the enclosing call (by reference, as in Python)
            self._closures[id(s)] = (s, env, self.fstack[-1])
            env[s.name] = ("closure", s.name, id(s))
            return
        if isinstance(s, (ast.FunctionDef, ast.ClassDef, ast.Import, ast.ImportFrom, ast.Global, ast.Nonlocal, ast.Delete)):
            if isinstance(s, ast.Delete):
                for t in s.targets:
                    self.ev("delete", target=self.lvalue(t, env), node=s)
            return
        raise AnalysisError("statement %s in %s is outside the path simulator's fragment" % (type(s).__name__, self.fstack[-1].key))

    def known_len(self, it: V) -> Optional[int]:
        """length of an iterable derived from a sequence whose length the scenario fixes"""
        sl = self.sim.seq_len
        if isinstance(it, tuple) and it and it[0] == "tuple":
            return len(it[1])  # a tuple display (or a constant table): as many iterations as items
        sl = sl or {}
        if not isinstance(it, tuple) or not it:
            return None
        if it in sl:
            return sl[it]
        if it[0] == "call" and it[1] in ("enumerate", "list", "tuple", "reversed", "sorted", "iter") and len(it[2]) >= 1:
            return self.known_len(it[2][0])
        if it[0] in ("genexp", "listcomp") and len(it) == 3 and all(not conds for _i, conds in it[2]):
            # an unfiltered comprehension over sequences of known length: the product of the lengths
            ns = [self.known_len(g_it) for g_it, _c in it[2]]
            if all(n_ is not None for n_ in ns):
                out_ = 1
                for n_ in ns:
                    out_ *= n_
                return out_
        if it[0] == "call" and it[1] == "zip" and it[2]:
            ns = [self.known_len(a) for a in it[2]]
            return min(ns) if all(n is not None for n in ns) else None
        if it[0] == "call" and str(it[1]).endswith("combinations") and len(it[2]) == 2 and it[2][1] == const(2):
            n = self.known_len(it[2][0])
            return n * (n - 1) // 2 if n is not None else None
        if it[0] == "call" and it[1] == "range" and len(it[2]) == 1 and isinstance(it[2][0], tuple) and it[2][0][0] == "call" and it[2][0][1] == "len" and len(it[2][0][2]) == 1:
            return self.known_len(it[2][0][2][0])
        if it[0] == "sub" and isinstance(it[2], tuple) and it[2][0] == "slice" and it[2][2] is None and it[2][3] is None:
            n = self.known_len(it[1])
            k = it[2][1]
            if n is not None and (k is None or (is_const(k) and isinstance(k[1], int) and k[1] >= 0)):
                return max(0, n - (k[1] if k is not None else 0))
        return None

    def loop(self, s, env, it):
        iters = self.sim.loop_iters
        fixed = self.known_len(it) if it is not None else None
        if fixed is not None:
            iters = (fixed,)
        k = iters[self.choose(len(iters), "loop@%d" % s.lineno)] if len(iters) > 1 else iters[0]
        self.path.decisions.append(("loop@%d iterations" % s.lineno, k))
        broke = False
        self.loopdepth += 1
        try:
            for i in range(k):
                if isinstance(s, ast.For):
                    self.assign(s.target, self.element(it, s.lineno, i), env, s)
                    self.ev("loop-iter", node=s, it=it, index=i)
                else:
                    t = self.eval(s.test, env)
                    self.ev("loop-iter", node=s, test=t, index=i)
                try:
                    self.block(s.body, env)
                    self.ev("loop-body-end", node=s)
                except _Continue:
                    self.ev("loop-continue", node=s)
                except _Break:
                    self.ev("loop-break", node=s)
                    broke = True
                    break
        finally:
            self.loopdepth -= 1
        if not broke:
            self.block(s.orelse, env)

    def element(self, it: V, lineno: int, i: int) -> V:
        """The i-th element produced by iterating `it`; zip / enumerate / [k:] slices are resolved to elements of the
        underlying sequences so that the same element has the same identity in different loops."""
        if isinstance(it, tuple) and it and it[0] == "tuple" and i < len(it[1]):
            return it[1][i]
        if isinstance(it, tuple) and it and it[0] in ("genexp", "listcomp") and len(it) == 3 and all(not conds for _i, conds in it[2]):
            ns = [self.known_len(g_it) for g_it, _c in it[2]]
            if len(ns) == 1 and ns[0] is None:
                ns = [i + 1]  # one generator of unknown length: element i is the element expression at its i-th item
            if all(n_ is not None and n_ > 0 for n_ in ns):
                # element i of an unfiltered comprehension: its element expression with the generators' variables at
                # the i-th combination (the last generator runs fastest)
                idxs = []
                rem = i
                for n_ in reversed(ns):
                    idxs.append(rem % n_)
                    rem //= n_
                idxs.reverse()
                gens_its = [g_it for g_it, _c in it[2]]

                def put(v):
                    if isinstance(v, tuple):
                        if len(v) == 4 and v[0] == "iter" and v[3] == 0 and v[1] in gens_its:
                            return self.element(v[1], v[2], idxs[gens_its.index(v[1])])
                        return tuple(put(x) for x in v)
                    return v

                return put(it[1])
        if isinstance(it, tuple) and it and it[0] == "call" and it[1] == "zip" and it[2]:
            return ("tuple", tuple(self.element(a, lineno, i) for a in it[2]))
        if isinstance(it, tuple) and it and it[0] == "call" and it[1] == "enumerate" and len(it[2]) == 1:
            return ("tuple", (const(i), self.element(it[2][0], lineno, i)))
        if isinstance(it, tuple) and it and it[0] == "call" and str(it[1]).endswith("combinations") and len(it[2]) == 2 and it[2][1] == const(2):
            n = self.known_len(it[2][0])
            if n is not None:
                import itertools as _it

                pairs = list(_it.combinations(range(n), 2))
                if i < len(pairs):
                    a, b = pairs[i]
                    return ("tuple", (self.element(it[2][0], lineno, a), self.element(it[2][0], lineno, b)))
        if isinstance(it, tuple) and it and it[0] == "sub" and isinstance(it[2], tuple) and it[2][0] == "slice" and it[2][2] is None and it[2][3] is None:
            k = it[2][1]
            if k is None:
                return self.element(it[1], lineno, i)
            if is_const(k) and isinstance(k[1], int) and k[1] >= 0:
                return self.element(it[1], lineno, i + k[1])
        return ("iter", it, lineno, i)

    def assign(self, t, v, env, node, aug=False):
        if isinstance(t, ast.Name):
            env[t.id] = v
            return
        if isinstance(t, (ast.Tuple, ast.List)):
            if isinstance(v, tuple) and v and v[0] == "tuple" and len(v[1]) == len(t.elts):
                for e, x in zip(t.elts, v[1]):
                    self.assign(e, x, env, node)
            elif isinstance(v, tuple) and v and v[0] == "sub" and isinstance(v[2], tuple) and v[2][0] == "slice" and is_const(v[2][1]) and isinstance(v[2][1][1], int) and v[2][2] is None and v[2][3] is None:
                # a, b = X[k:]   ->   items k, k+1 of X
                for i, e in enumerate(t.elts):
                    self.assign(e, ("item", v[1], i + v[2][1][1]), env, node)
            elif isinstance(v, tuple) and v and v[0] in ("listcomp", "genexp") and len(v) == 3 and self.known_len(v) == len(t.elts):
                # a, b = [f(x) for x in (p, q)]   ->   f(p), f(q)
                for i, e in enumerate(t.elts):
                    self.assign(e, self.element(v, getattr(node, "lineno", 0), i), env, node)
            else:
                for i, e in enumerate(t.elts):
                    self.assign(e, ("item", v, i), env, node)
            return
        if isinstance(t, ast.Starred):
            self.assign(t.value, ("star", v), env, node)
            return
        if isinstance(t, (ast.Attribute, ast.Subscript)):
            if not aug:
                self.ev("store", target=self.lvalue(t, env), value=v, node=node)
            return
        raise AnalysisError("assignment target %s" % norm(t))

    def lvalue(self, t, env) -> V:
        if isinstance(t, ast.Name):
            return ("name", t.id, env.get(t.id, ("unbound", t.id)))
        if isinstance(t, ast.Attribute):
            return ("attr", self.eval(t.value, env), t.attr)
        if isinstance(t, ast.Subscript):
            return ("sub", self.eval(t.value, env), self.eval(t.slice, env))
        return ("expr", norm(t))

    # ----------------------------------------------------------- conditions
    def decide(self, t: V, node) -> bool:
        f = self.fold(t)
        if is_const(f):
            val = bool(f[1])
            return val
        if f in self.decided:
            return self.decided[f]
        neg = ("un", "Not", f)
        if f[0] == "un" and f[1] == "Not" and f[2] in self.decided:
            return not self.decided[f[2]]
        c = self.choose(2, "if %s" % norm(node)[:50])
        val = c == 0
        self.decided[f] = val
        self.path.decisions.append((norm(node)[:80], val))
        self.ev("branch", test=f, taken=val, node=node)
        return val

    def fold(self, v: V) -> V:
        """Constant folding under the assumptions."""
        if not isinstance(v, tuple) or not v:
            return v
        if v in self.decided:
            return const(self.decided[v])
        if self.sim.assume is not None:
            r = self.sim.assume(v)
            if r is not None:
                return r
        k = v[0]
        if k == "const":
            return v
        if k == "un":
            x = self.fold(v[2])
            if is_const(x):
                try:
                    if v[1] == "Not":
                        return const(not x[1])
                    if v[1] == "USub":
                        return const(-x[1])
                except Exception:
                    pass
            return ("un", v[1], x)
        if k == "boolop":
            xs = [self.fold(x) for x in v[2]]
            if v[1] == "And":
                if any(is_const(x) and not x[1] for x in xs):
                    return const(False)
                xs = [x for x in xs if not (is_const(x) and x[1])]
                if not xs:
                    return const(True)
                if len(xs) == 1:
                    return xs[0]
                return ("boolop", "And", tuple(xs))
            if any(is_const(x) and x[1] for x in xs):
                return const(True)
            xs = [x for x in xs if not (is_const(x) and not x[1])]
            if not xs:
                return const(False)
            if len(xs) == 1:
                return xs[0]
            return ("boolop", "Or", tuple(xs))
        if k == "call" and v[1] == "bool" and len(v[2]) == 1 and not v[3]:
            x = self.fold(v[2][0])
            if is_const(x):
                return const(bool(x[1]))
            return v
        if k == "cmp":
            l, r = self.fold(v[2]), self.fold(v[3])
            op = v[1]
            if is_const(l) and is_const(r):
                try:
                    return const(
                        {
                            "Eq": lambda a, b: a == b,
                            "NotEq": lambda a, b: a != b,
                            "Lt": lambda a, b: a < b,
                            "LtE": lambda a, b: a <= b,
                            "Gt": lambda a, b: a > b,
                            "GtE": lambda a, b: a >= b,
                            "Is": lambda a, b: a is b,
                            "IsNot": lambda a, b: a is not b,
                        }[op](l[1], r[1])
                    )
                except Exception:
                    pass
            if op in ("In", "NotIn") and is_const(l) and r[0] in ("set", "list", "tuple") and all(is_const(x) for x in r[1]):
                res = l[1] in [x[1] for x in r[1]]
                return const(res if op == "In" else not res)
            if op in ("In", "NotIn") and is_const(l) and r[0] == "dict" and all(k_ is not None and is_const(k_) for k_, _v in r[1]):
                res = l[1] in [k_[1] for k_, _v in r[1]]
                return const(res if op == "In" else not res)
            if op in ("Is", "IsNot") and is_const(r) and r[1] is None and (l[0] in ("list", "dict", "tuple", "set", "bin", "new", "listcomp", "dictcomp", "setcomp") or (l[0] == "call" and l[1] in _NEVER_NONE)):
                return const(op == "IsNot")  # a display / a constructor / a builtin that never gives None
            if op in ("Is", "IsNot") and is_const(r) and r[1] is None:
                # a value that passed an isinstance test on this path (decided, or granted by the scenario) is not None
                passed = any(val and isinstance(k, tuple) and k and k[0] == "call" and k[1] == "isinstance" and k[2] and k[2][0] == l for k, val in self.decided.items())
                if not passed and self.sim.assume is not None and l[0] == "param":
                    passed = self.sim.assume(("call", "isinstance", (l, ("ext", "object")), (), 0)) == const(True)
                if passed:
                    return const(op == "IsNot")
            return ("cmp", op, l, r)
        return v

    # ---------------------------------------------------------- expressions
    def eval(self, e, env) -> V:
        m = getattr(self, "e_" + type(e).__name__, None)
        if m is None:
            return ("expr", norm(e))
        return m(e, env)

    def e_Constant(self, e, env):
        return const(e.value)

    def e_Name(self, e, env):
        if e.id in env:
            return env[e.id]
        fi = self.fstack[-1]
        r = self.prog.resolve_name(fi.module, e.id)
        if r is not None:
            cn = r.__class__.__name__
            if cn == "ClassInfo":
                return ("class", r.name)
            if cn == "FuncInfo":
                return ("func", r.key)
            if cn == "ModInfo":
                return ("module", r.name)
        okc, val = self.prog.resolve_constant(fi.module, e.id)
        if okc:
            return const(val)  # a named integer / string constant of the package (LP_INFEASIBLE = 2)
        tab = self.prog.resolve_table2(fi.module, e.id)
        if tab is not None:
            return self._eval_table(tab)  # a constant table of the package: its items are known
        if e.id in fi.module.assigns:
            return ("global", fi.module.base, e.id)
        if e.id in fi.module.imports:
            return ("ext", fi.module.imports[e.id])
        return ("ext", e.id)

    def _eval_table(self, tab) -> V:
        """a constant table evaluated among the names of the module it lives in"""
        node, mi = tab

        class _Frame:
            module = mi
            key = mi.base + ".<module>"
            cls = None
            params: List[str] = []
            kind = "function"

        self.fstack.append(_Frame())
        try:
            return self.eval(node, {})
        finally:
            self.fstack.pop()

    def e_Attribute(self, e, env):
        b = self.eval(e.value, env)
        if b[0] == "class":
            ci = self.prog.classes.get(b[1])
            if ci is not None:
                fi = self.prog.resolve_method(b[1], e.attr)
                if fi is not None:
                    return ("func", fi.key)
                if e.attr in ci.class_assigns:
                    return ("classattr", b[1], e.attr)
        if b[0] == "module":
            r = self.prog.resolve_dotted(b[1] + "." + e.attr)
            if r is not None:
                cn = r.__class__.__name__
                if cn == "ClassInfo":
                    return ("class", r.name)
                if cn == "FuncInfo":
                    return ("func", r.key)
                if cn == "ModInfo":
                    return ("module", r.name)
            mi = self.prog.modules.get(b[1])
            if mi is not None:
                okc, val = self.prog.resolve_constant(mi, e.attr)
                if okc:
                    return const(val)  # a named constant read through the module (lp.INFEASIBLE)
                tab = self.prog.resolve_table2(mi, e.attr)
                if tab is not None:
                    return self._eval_table(tab)
        if b[0] == "ext":
            return ("ext", b[1] + "." + e.attr)
        if b[0] == "tuple" and len(b) > 2 and e.attr in b[2]:
            return b[1][b[2].index(e.attr)]  # field of a NamedTuple record
        if b[0] == "tuple" and len(b) > 3:
            m = self.prog.resolve_method(b[3], e.attr)
            if m is not None and m.kind == "property":
                return self.inline_call(m.key, (), (), e, b)  # a property defined on the record class
        return ("attr", b, e.attr)

    def e_Subscript(self, e, env):
        b, i = self.eval(e.value, env), self.eval(e.slice, env)
        i = self.fold(i)
        if b[0] == "dict" and is_const(i) and all(k_ is not None and is_const(k_) for k_, _v in b[1]):
            hits = [v_ for k_, v_ in b[1] if k_[1] == i[1] and type(k_[1]) is type(i[1])]
            if hits:
                return hits[-1]  # an entry of a constant table
        if b[0] == "tuple" and len(b) > 2 and is_const(i) and isinstance(i[1], int) and not isinstance(i[1], bool) and -len(b[1]) <= i[1] < len(b[1]):
            return b[1][i[1]]
        return ("sub", b, i)

    def e_Slice(self, e, env):
        return ("slice", self.eval(e.lower, env) if e.lower else None, self.eval(e.upper, env) if e.upper else None, self.eval(e.step, env) if e.step else None)

    def e_Tuple(self, e, env):
        return ("tuple", tuple(self.eval(x, env) for x in e.elts))

    def _sid(self) -> int:
        self.site += 1
        return self.site

    def e_List(self, e, env):
        # mutable displays carry a site id so that two `[]` are different objects
        return ("list", tuple(self.eval(x, env) for x in e.elts), self._sid())

    def e_Set(self, e, env):
        return ("set", tuple(self.eval(x, env) for x in e.elts), self._sid())

    def e_Dict(self, e, env):
        return ("dict", tuple((self.eval(k, env) if k is not None else None, self.eval(v, env)) for k, v in zip(e.keys, e.values)), self._sid())

    def e_UnaryOp(self, e, env):
        return self.fold(("un", type(e.op).__name__, self.eval(e.operand, env)))

    def e_BinOp(self, e, env):
        return ("bin", type(e.op).__name__, self.eval(e.left, env), self.eval(e.right, env))

    def e_BoolOp(self, e, env):
        return ("boolop", type(e.op).__name__, tuple(self.eval(x, env) for x in e.values))

    def e_Compare(self, e, env):
        if len(e.ops) == 1:
            return ("cmp", type(e.ops[0]).__name__, self.eval(e.left, env), self.eval(e.comparators[0], env))
        parts = []
        left = self.eval(e.left, env)
        for op, c in zip(e.ops, e.comparators):
            r = self.eval(c, env)
            parts.append(("cmp", type(op).__name__, left, r))
            left = r
        return ("boolop", "And", tuple(parts))

    def e_IfExp(self, e, env):
        t = self.eval(e.test, env)
        f = self.fold(t)
        if is_const(f):
            return self.eval(e.body if f[1] else e.orelse, env)
        if any(isinstance(n, ast.Call) for br in (e.body, e.orelse) for n in ast.walk(br)):
            # a branch that calls something is control flow written as an expression: follow one branch per path
            return self.eval(e.body if self.decide(t, e.test) else e.orelse, env)
        return ("ifexp", f, self.eval(e.body, env), self.eval(e.orelse, env))

    def e_JoinedStr(self, e, env):
        # an f-string is the concatenation of its literal pieces and its formatted values
        parts = []
        for x in e.values:
            if isinstance(x, ast.Constant):
                parts.append(const(x.value))
            elif isinstance(x, ast.FormattedValue):
                v = self.eval(x.value, env)
                if x.format_spec is None and x.conversion == -1 and isinstance(v, tuple) and v and v[0] in ("call", "mcall"):
                    parts.append(v)  # f"{f(x)}" where f builds text: the text itself
                else:
                    parts.append(("fmt", v, norm(x.format_spec) if x.format_spec is not None else None, x.conversion))
        if not parts:
            return const("")
        out = parts[0]
        for x in parts[1:]:
            out = ("bin", "Add", out, x)
        return out

    def e_Lambda(self, e, env):
        return ("lambda", norm(e))

    def e_Starred(self, e, env):
        return ("star", self.eval(e.value, env))

    def _comp(self, e, env, kind):
        env2 = dict(env)
        gens = []
        for g in e.generators:
            it = self.eval(g.iter, env2)
            lineno_ = getattr(e, "lineno", 0)
            if isinstance(it, tuple) and it and it[0] == "tuple" and len(it[1]) > 1:
                # a display of several items: the generic element, not the first one (element i is taken from it later)
                el_ = ("iter", it, lineno_, 0)
            else:
                el_ = self.element(it, lineno_, 0)
            self.assign(g.target, el_, env2, e)
            conds = tuple(self.eval(c, env2) for c in g.ifs)
            gens.append((it, conds))
        if kind == "dictcomp":
            elt = (self.eval(e.key, env2), self.eval(e.value, env2))
        else:
            elt = self.eval(e.elt, env2)
        return (kind, elt, tuple(gens))

    def e_ListComp(self, e, env):
        return self._comp(e, env, "listcomp")

    def e_SetComp(self, e, env):
        return self._comp(e, env, "setcomp")

    def e_GeneratorExp(self, e, env):
        return self._comp(e, env, "genexp")

    def e_DictComp(self, e, env):
        return self._comp(e, env, "dictcomp")

    def e_Call(self, e, env):
        f = self.eval(e.func, env)
        if f[0] == "ext" and f[1] in ("any", "all") and len(e.args) == 1 and not e.keywords and isinstance(e.args[0], (ast.GeneratorExp, ast.ListComp)) and len(e.args[0].generators) == 1:
            # unrolled like a loop (before the argument is looked at: evaluating the generator as a value would run
            # its element once more, outside any iteration)
            return self.quantifier(f[1], e.args[0], env)
        args = tuple(self.eval(a, env) for a in e.args)
        kws = tuple((k.arg, self.eval(k.value, env)) for k in e.keywords)
        if f[0] == "ext" and f[1] in ("functools.reduce", "reduce") and len(args) in (2, 3) and not kws:
            r_ = self._reduce(args, e)
            if r_ is not None:
                return r_
        if f[0] == "ext" and f[1] in ("functools.partial", "partial") and args:
            # a function with some arguments fixed: remembered, and unfolded when it is called
            return ("partial", args[0], args[1:], kws)
        if f[0] == "partial":
            f, args, kws = f[1], tuple(f[2]) + args, tuple(f[3]) + kws
        if f[0] == "ext" and f[1] in ("any", "all") and len(e.args) == 1 and isinstance(e.args[0], (ast.GeneratorExp, ast.ListComp)) and len(e.args[0].generators) == 1:
            return self.quantifier(f[1], e.args[0], env)
        self.site += 1
        callee = self.callee_name(f)
        recv = f[1] if f[0] == "attr" else None
        if f[0] == "func" and self.sim.inline is not None and self.sim.inline(f[1]):
            # a new module-level function to which exactly one function of the reference tree forwards all its
            # parameters: calling it is calling that function (the rules know it by that name)
            fwd = getattr(self.prog, "forwarded", {}).get(f[1])
            if fwd is not None and not self.sim.inline(fwd) and self.fstack[-1].key != fwd:
                f = ("func", fwd)
                callee = self.callee_name(f)
        args, kws = self._positional(f, args, kws)
        rec = self._record(f, args, kws) if f[0] == "class" else None
        if rec is not None:
            return rec
        if f[0] == "class":
            v = ("new", f[1], args, kws, self.site)
        elif f[0] == "attr":
            v = ("mcall", f[2], f[1], args, kws, self.site)
        else:
            v = ("call", callee, args, kws, self.site)
        ev = self.ev("call", callee=callee, f=f, recv=recv, args=args, kws=kws, node=e, result=v)
        if self.sim.raises is not None:
            classes = self.sim.raises(callee, v)
            if classes:
                k = self.choose(1 + len(classes), "outcome of %s" % callee)
                if k > 0:
                    cls = classes[k - 1]
                    self.path.decisions.append(("%s raises" % callee, cls))
                    ev["raised"] = cls
                    raise _Raise(cls, e)
        # transparent helpers are inlined
        if self.sim.inline is not None:
            if f[0] == "func" and self.sim.inline(f[1]):
                self.path.events.pop()
                tfi = self.prog.funcs.get(f[1])
                if tfi is not None and tfi.kind == "classmethod" and tfi.cls is not None:
                    return self.inline_call(f[1], args, kws, e, ("class", tfi.cls.name))  # Cls.method(...): cls is the class
                return self.inline_call(f[1], args, kws, e, None)
            if f[0] == "attr":
                target = self._method_target(f[1], f[2])
                if target is not None and self.sim.inline(target.key):
                    self.path.events.pop()
                    return self.inline_call(target.key, args, kws, e, f[1])
        return v

    def _reduce(self, args, node) -> Optional[V]:
        """functools.reduce(f, xs[, start]) unrolled like a loop: as many applications as the scenario's loops have
        iterations (or as xs has items when that is known)."""
        fn, it = args[0], args[1]
        if not (isinstance(fn, tuple) and fn and fn[0] in ("func", "closure", "attr")):
            return None
        iters = self.sim.loop_iters
        fixed = self.known_len(it)
        if fixed is not None:
            iters = (fixed,)
        lineno = getattr(node, "lineno", 0)
        k = iters[self.choose(len(iters), "reduce@%d" % lineno)] if len(iters) > 1 else iters[0]
        self.path.decisions.append(("loop@%d iterations" % lineno, k))
        start = 0
        if len(args) == 3:
            acc = args[2]
        else:
            if k == 0:
                raise _Raise("TypeError", node)  # reduce() of an empty sequence with no initial value
            acc = self.element(it, lineno, 0)
            start = 1
            k = max(k, 1)
        for i in range(start, k):
            self.ev("loop-iter", node=node, it=it, index=i)
            r_ = self.apply_value(fn, [acc, self.element(it, lineno, i)], node)
            if r_ is None:
                return None
            acc = r_
            self.ev("loop-body-end", node=node)
        return acc

    def _positional(self, f: V, args, kws):
        """A call of a function of the package with arguments passed by name is the same call with them passed by
        position: the keywords that continue the positional arguments in parameter order are moved there, so that the
        rules read one form."""
        if not kws or any(k is None for k, _v in kws) or any(isinstance(a, tuple) and a and a[0] == "star" for a in args):
            return args, kws
        target = None
        skip = 0
        if f[0] == "func":
            target = self.prog.funcs.get(f[1])
            if target is not None and target.kind == "classmethod":
                skip = 1
        elif f[0] == "attr":
            target = self._method_target(f[1], f[2])
            if target is not None and target.kind in ("method", "classmethod"):
                skip = 1
            elif target is not None and target.kind == "property":
                target = None
        if target is None:
            return args, kws
        a = target.node.args
        if a.vararg is not None or a.kwarg is not None:
            return args, kws
        names = [x.arg for x in a.posonlyargs + a.args][skip:]
        given = dict(kws)
        out = list(args)
        while len(out) < len(names) and names[len(out)] in given:
            out.append(given.pop(names[len(out)]))
        return tuple(out), tuple((k, v) for k, v in kws if k in given)

    def _record(self, f: V, args, kws) -> Optional[V]:
        """Construction of a NamedTuple class of the package: a tuple whose items can also be read by field name
        (`Rec(*call)` spreads the call's result over the fields)."""
        ci = self.prog.classes.get(f[1])
        if ci is None:
            return None
        named = any(norm(b).split(".")[-1] == "NamedTuple" for b in ci.node.bases) and self.prog.resolve_method(f[1], "__new__") is None
        # a dataclass without a constructor of its own that the reference tree does not have: a plain record of fields
        plain = ci.is_dataclass and _is_new_class(f[1]) and all(self.prog.resolve_method(f[1], m_) is None for m_ in ("__init__", "__post_init__", "__new__")) and not any(b_ in self.prog.classes for b_ in ci.base_names)
        if not (named or plain):
            return None
        names = [n for n, _d in ci.fields]
        items: List[Optional[V]] = []
        for a in args:
            if isinstance(a, tuple) and a and a[0] == "star":
                src = a[1]
                if isinstance(src, tuple) and src and src[0] == "tuple":
                    items.extend(src[1])
                else:
                    k0 = len(items)
                    items.extend(("item", src, i) for i in range(len(names) - k0))
            else:
                items.append(a)
        items = items[: len(names)] + [None] * (len(names) - len(items))
        for k, v in kws:
            if k not in names:
                raise AnalysisError("%s has no field %s" % (f[1], k))
            items[names.index(k)] = v
        for i, (n, d) in enumerate(ci.fields):
            if items[i] is None:
                if d is None:
                    raise AnalysisError("%s built without its field %s" % (f[1], n))
                items[i] = self.eval(d, {})
        return ("tuple", tuple(items), tuple(names), f[1])

    def _method_target(self, recv: V, name: str):
        fi = self.fstack[-1]
        if recv[0] == "param" and fi.cls is not None and fi.params and recv[1] == fi.params[0] and fi.kind in ("method", "property"):
            return self.prog.resolve_method(fi.cls.name, name)
        cands = [f for k, f in self.prog.funcs.items() if k.endswith("." + name) and f.cls is not None]
        if len(cands) == 1:
            return cands[0]
        return None

    def quantifier(self, kind: str, comp, env) -> V:
        """any(...) / all(...) over a generator: unrolled like a loop (same iteration counts as loops)."""
        g = comp.generators[0]
        it = self.eval(g.iter, env)
        iters = self.sim.loop_iters
        fixed = self.known_len(it)
        if fixed is not None:
            iters = (fixed,)
        lineno = getattr(comp, "lineno", 0)
        k = iters[self.choose(len(iters), "%s@%d" % (kind, lineno))] if len(iters) > 1 else iters[0]
        self.path.decisions.append(("loop@%d iterations" % lineno, k))
        parts = []
        for i in range(k):
            env2 = dict(env)
            self.assign(g.target, self.element(it, lineno, i), env2, comp)
            self.ev("loop-iter", node=comp, it=it, index=i)
            conds = [self.eval(c, env2) for c in g.ifs]
            elt = self.eval(comp.elt, env2)
            self.ev("loop-body-end", node=comp)
            if kind == "any":
                parts.append(("boolop", "And", tuple(conds + [elt])) if conds else elt)
            else:
                parts.append(("boolop", "Or", tuple([("un", "Not", c) for c in conds] + [elt])) if conds else elt)
        if not parts:
            return const(kind == "all")
        if len(parts) == 1:
            return self.fold(parts[0])
        return self.fold(("boolop", "Or" if kind == "any" else "And", tuple(parts)))

    def inline_call(self, key, args, kws, node, recv=None) -> V:
        fi = self.prog.func(key)
        if len(self.fstack) > 6:
            raise AnalysisError("inlining too deep at %s" % key)
        env: Dict[str, V] = {}
        params = fi.params
        if fi.kind in ("method", "property", "classmethod"):
            if recv is None:
                raise AnalysisError("cannot inline %s without a receiver" % key)
            env[params[0]] = recv
            params = params[1:]
        for p, a in zip(params, args):
            env[p] = a
        for k, v in kws:
            env[k] = v
        for p in fi.params:
            if p not in env:
                d = fi.defaults().get(p)
                env[p] = self.eval(d, {}) if d is not None else ("param", p)
        self.fstack.append(fi)
        try:
            self.block(fi.body, env)
            return const(None)
        except _Return as r:
            return r.value
        finally:
            self.fstack.pop()

    def callee_name(self, f: V) -> str:
        if f[0] == "func":
            return f[1]
        if f[0] == "ext":
            return f[1]
        if f[0] == "class":
            return f[1]
        if f[0] == "attr":
            return "." + f[2]
        if f[0] == "classattr":
            return "%s.%s" % (f[1], f[2])
        if f[0] == "sub" and f[1][0] == "classattr":
            return "%s.%s[]" % (f[1][1], f[1][2])
        return "?"


def _as_load(t):
    import copy as _c

    n = _c.deepcopy(t)
    for x in ast.walk(n):
        if hasattr(x, "ctx"):
            x.ctx = ast.Load()
    return n


# ----------------------------------------------------------------- helpers
def walk(v: Any):
    """All sub-trees of a value."""
    st = [v]
    while st:
        x = st.pop()
        yield x
        if isinstance(x, tuple):
            for y in x:
                if isinstance(y, tuple):
                    st.append(y)


def mentions(v: V, pred: Callable[[V], bool]) -> bool:
    return any(isinstance(x, tuple) and x and pred(x) for x in walk(v))


def show(v: Any, depth: int = 5) -> str:
    if not isinstance(v, tuple) or not v:
        return repr(v)
    k = v[0]
    if depth <= 0:
        return "..."
    d = depth - 1
    if k == "const":
        return repr(v[1])
    if k in ("param", "sym"):
        return v[1]
    if k == "attr":
        return "%s.%s" % (show(v[1], d), v[2])
    if k == "sub":
        return "%s[%s]" % (show(v[1], d), show(v[2], d))
    if k == "bin":
        sym = {"Add": "+", "Sub": "-", "Mult": "*", "Div": "/", "BitOr": "|", "BitAnd": "&", "Mod": "%"}.get(v[1], v[1])
        return "(%s %s %s)" % (show(v[2], d), sym, show(v[3], d))
    if k == "un":
        return "%s(%s)" % ({"USub": "-", "Not": "not "}.get(v[1], v[1]), show(v[2], d))
    if k == "cmp":
        sym = {"Eq": "==", "NotEq": "!=", "Lt": "<", "LtE": "<=", "Gt": ">", "GtE": ">=", "In": "in", "NotIn": "not in", "Is": "is", "IsNot": "is not"}[v[1]]
        return "(%s %s %s)" % (show(v[2], d), sym, show(v[3], d))
    if k == "boolop":
        return "(" + (" %s " % v[1].lower()).join(show(x, d) for x in v[2]) + ")"
    if k in ("call", "new"):
        return "%s(%s)" % (v[1], ", ".join([show(a, d) for a in v[2]] + ["%s=%s" % (n, show(x, d)) for n, x in v[3]]))
    if k == "mcall":
        return "%s.%s(%s)" % (show(v[2], d), v[1], ", ".join([show(a, d) for a in v[3]] + ["%s=%s" % (n, show(x, d)) for n, x in v[4]]))
    if k in ("tuple", "list", "set"):
        return k + "(" + ", ".join(show(x, d) for x in v[1]) + ")"
    if k == "iter":
        return "each(%s)" % show(v[1], d)
    if k == "item":
        return "%s[%d]" % (show(v[1], d), v[2])
    if k in ("func", "class", "ext", "module"):
        return str(v[1])
    if k == "global":
        return "%s.%s" % (v[1], v[2])
    return k + "(...)"
