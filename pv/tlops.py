"""Summaries of the concrete helpers of the abstract TermList class, derived from their source.

`TermList.__or__/__sub__/__and__` are written with list_union / list_diff /
list_intersection over `.terms`.  They are summarised as Boolean functions of
"t in self" / "t in other" by interpreting the body in the membership domain
(the list helpers themselves are interpreted from utils/lists.py, not trusted).
"""
from __future__ import annotations

import ast
from typing import Dict, Optional, Tuple

from .loader import AnalysisError, Program, norm

_CACHE: Dict[Tuple[str, str], str] = {}


def _summ(prog: Program, cls: str, name: str) -> int:
    from .symalg import VS, Interp, ReturnSig, Run

    fi = prog.resolve_method(cls, name)
    if fi is None:
        raise AnalysisError("anchor vanished: %s.%s" % (cls, name))

    class TI(Interp):
        def ev_Attribute(self, e, env):
            base = self.eval(e.value, env)
            if isinstance(base, VS) and e.attr == "terms":
                return base
            if isinstance(base, VS) and e.attr == "copy":
                return ("vscopy", base)
            if isinstance(base, VS):
                m = prog.resolve_method(cls, e.attr)
                if m is not None:
                    return ("boundmethod", base, m)
            return super().ev_Attribute(e, env)

        def ev_Call(self, e, env):
            f = e.func
            if isinstance(f, ast.Attribute) and f.attr == "copy" and not e.args:
                base = self.eval(f.value, env)
                if isinstance(base, VS):
                    return base
            if isinstance(f, ast.Call) and isinstance(f.func, ast.Name) and f.func.id == "type" and len(e.args) == 1:
                return self.eval(e.args[0], env)
            if isinstance(f, ast.Name) and f.id in prog.classes and prog.is_subclass(f.id, "TermList") and len(e.args) == 1:
                return self.eval(e.args[0], env)
            return super().ev_Call(e, env)

    from .sets import ONES as _ONES
    from .symalg import Infeasible, RaiseSig

    params = fi.params
    if len(params) != 2:
        raise AnalysisError("%s has an unexpected signature" % fi.key)
    # every path (a shortcut such as `if not list2: return list1` forks on emptiness): the result must be one and the
    # same membership function on the rows each path's condition leaves possible
    results = []
    stack = [[]]
    masks = None
    n = 0
    while stack:
        prefix = stack.pop()
        n += 1
        if n > 64:
            raise AnalysisError("%s has too many paths for an operator" % fi.key)
        run = Run(prefix)
        it = TI(prog, run)
        s = VS(it.atoms.atom("self"))
        o = VS(it.atoms.atom("other"))
        try:
            v = it.call_function(fi, [o], {}, self_val=s)
        except ReturnSig as r:  # pragma: no cover
            v = r.value
        except Infeasible:
            v = None
        except RaiseSig:
            raise AnalysisError("%s may raise; outside the operator fragment" % fi.key)
        for i in range(len(prefix), len(run.trace)):
            nopt, chosen, _tag = run.trace[i]
            for alt in range(chosen + 1, nopt):
                stack.append([c for (_n, c, _t) in run.trace[:i]] + [alt])
        if v is None:
            continue
        if not isinstance(v, VS):
            raise AnalysisError("%s does not reduce to a membership function (got %r)" % (fi.key, v))
        possible = it.allowed  # rows still possible on this path (a list assumed empty has no member)
        masks = (it.atoms.masks["self"], it.atoms.masks["other"])
        results.append((v.tt, possible))
    if not results or masks is None:
        raise AnalysisError("%s has no returning path" % fi.key)
    return results, masks[0], masks[1]


def summarise_tl_operator(prog: Program, name: str, cls: str = "TermList") -> str:
    key = (prog.digest, cls + "." + name)
    if key in _CACHE:
        return _CACHE[key]
    results, s, o = _summ(prog, cls, name)
    from .sets import ONES

    table = {
        s | o: "union",
        s & o: "inter",
        s & (ONES ^ o): "diff",
        s: "left",
        o: "right",
        o & (ONES ^ s): "rdiff",
    }
    kinds = [k for want, k in table.items() if all(((tt ^ want) & possible) == 0 for tt, possible in results)]
    # prefer the operator that explains the unrestricted path(s)
    kind = kinds[0] if kinds else None
    if kind is None:
        raise AnalysisError("TermList.%s computes an unrecognised set function" % name)
    if kind in ("left", "right", "rdiff"):
        # representable but not one of the three prov operators; map to a safe description
        kind = {"left": "left", "right": "right", "rdiff": "rdiff"}[kind]
    _CACHE[key] = kind
    return kind


def le_forwards_to(prog: Program, cls: str = "TermList") -> str:
    """`TermList.__le__(self, other)` must answer `self.refines(other)` on every path; returns the forwarded method
    name.  If the operands are swapped (`other.refines(self)`) the returned name is 'refines_swapped'.  A path that
    answers on some other ground (a syntactic fast path) gives a name starting with '!' that says so."""
    from .pathsim import Sim, show

    fi = prog.resolve_method(cls, "__le__")
    if fi is None:
        raise AnalysisError("anchor vanished: %s.__le__" % cls)
    p = fi.params
    names = set()
    for path in Sim(prog, fi).paths():
        if path.terminal != "return":
            continue
        v = path.value
        if isinstance(v, tuple) and v and v[0] == "mcall" and len(v[3]) + len(v[4]) == 1:
            arg = (list(v[3]) + [x for _k, x in v[4]])[0]
            if v[2] == ("param", p[0]) and arg == ("param", p[1]):
                names.add(v[1])
                continue
            if v[2] == ("param", p[1]) and arg == ("param", p[0]):
                names.add(v[1] + "_swapped")
                continue
        names.add("!a path answers %s without asking the refinement test (path %s)" % (show(v, 3), path.label()[:80] or "straight line"))
    bad = sorted(n for n in names if n.startswith("!"))
    if bad:
        return bad[0]
    if len(names) != 1:
        raise AnalysisError("%s.__le__ forwards to %s" % (cls, sorted(names)))
    return names.pop()
