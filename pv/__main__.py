"""CLI:  python -m pv check <ID> [--tier quick|thorough] | list | selftest | explain <path>"""
from __future__ import annotations

import json
import os
import sys
import traceback


def main(argv):
    if len(argv) < 1:
        print(__doc__)
        return 2
    cmd = argv[0]
    if cmd == "list":
        from .props import PROPS

        for k in sorted(PROPS):
            print(k, PROPS[k]["level"])
        return 0
    if cmd == "check":
        prop = argv[1]
        tier = os.environ.get("VERIF_TIER", "quick")
        if "--tier" in argv:
            tier = argv[argv.index("--tier") + 1]
        seed = int(os.environ.get("VERIF_SEED", "0") or 0)
        from .runner import run_check

        return run_check(prop, tier, seed)
    if cmd == "explain":
        with open(argv[1]) as fh:
            v = json.load(fh)
        print(json.dumps(v, indent=1))
        print("re-running the owning check:")
        from .runner import run_check

        return run_check(v["property"], "quick", 0, write=False)
    if cmd == "selftest":
        from .selftest import main as st

        return st(argv[1:])
    print(__doc__)
    return 2


if __name__ == "__main__":
    try:
        rc = main(sys.argv[1:])
    except SystemExit:
        raise
    except BaseException:  # noqa
        traceback.print_exc()
        print("ANALYSIS-ERROR checker crashed")
        rc = 2
    sys.stdout.flush()
    os._exit(rc)
