"""Flow-insensitive def-use closure inside one function: which parameters / parameter attributes / calls
can a value derive from?  Used for 'X is built only from Y' rules (robust to temporaries and reordering)."""
from __future__ import annotations

import ast
from typing import Dict, List, Optional, Set

from .loader import norm

MUTATORS = {"append", "extend", "insert", "add", "update", "setdefault"}


class Flow:
    def __init__(self, fn: ast.AST):
        self.fn = fn
        a = fn.args
        self.params = [x.arg for x in list(a.posonlyargs) + list(a.args) + list(a.kwonlyargs)]
        self.defs: Dict[str, List[ast.AST]] = {}
        body = fn.body if not isinstance(fn, ast.Lambda) else [fn.body]
        for st in body:
            for node in ast.walk(st):
                self._collect(node)

    def _add(self, name: str, rhs: ast.AST) -> None:
        self.defs.setdefault(name, []).append(rhs)

    def _targets(self, t: ast.AST) -> List[str]:
        if isinstance(t, ast.Name):
            return [t.id]
        if isinstance(t, (ast.Tuple, ast.List)):
            out = []
            for e in t.elts:
                out += self._targets(e)
            return out
        if isinstance(t, ast.Starred):
            return self._targets(t.value)
        if isinstance(t, (ast.Attribute, ast.Subscript)):
            # x.attr = v / x[i] = v  makes x depend on v
            b = t
            while isinstance(b, (ast.Attribute, ast.Subscript)):
                b = b.value
            if isinstance(b, ast.Name):
                return [b.id]
        return []

    def _collect(self, node: ast.AST) -> None:
        if isinstance(node, ast.Assign):
            for t in node.targets:
                for n in self._targets(t):
                    self._add(n, node.value)
        elif isinstance(node, ast.AnnAssign) and node.value is not None:
            for n in self._targets(node.target):
                self._add(n, node.value)
        elif isinstance(node, ast.AugAssign):
            for n in self._targets(node.target):
                self._add(n, node.value)
        elif isinstance(node, ast.For):
            for n in self._targets(node.target):
                self._add(n, node.iter)
        elif isinstance(node, ast.With):
            for it in node.items:
                if it.optional_vars is not None:
                    for n in self._targets(it.optional_vars):
                        self._add(n, it.context_expr)
        elif isinstance(node, ast.NamedExpr):
            for n in self._targets(node.target):
                self._add(n, node.value)
        elif isinstance(node, ast.Call) and isinstance(node.func, ast.Attribute) and node.func.attr in MUTATORS:
            b = node.func.value
            while isinstance(b, (ast.Attribute, ast.Subscript)):
                b = b.value
            if isinstance(b, ast.Name):
                for a in node.args:
                    self._add(b.id, a)

    def sources(self, expr: ast.AST, _seen: Optional[Set[str]] = None, _local: Optional[Dict[str, ast.AST]] = None) -> Set[str]:
        """Transitive sources: 'p' / 'p.attr' for parameters, 'call:<name>' for calls.
        Comprehension variables are scoped to their own comprehension."""
        seen = _seen if _seen is not None else set()
        local = _local or {}
        out: Set[str] = set()
        if isinstance(expr, (ast.ListComp, ast.SetComp, ast.GeneratorExp, ast.DictComp)):
            loc = dict(local)
            for g in expr.generators:
                out |= self.sources(g.iter, seen, loc)
                for n in self._targets(g.target):
                    loc[n] = g.iter
                for c in g.ifs:
                    out |= self.sources(c, seen, loc)
            if isinstance(expr, ast.DictComp):
                out |= self.sources(expr.key, seen, loc) | self.sources(expr.value, seen, loc)
            else:
                out |= self.sources(expr.elt, seen, loc)
            return out
        if isinstance(expr, ast.Attribute):
            chain = []
            b = expr
            while isinstance(b, ast.Attribute):
                chain.append(b.attr)
                b = b.value
            if isinstance(b, ast.Name) and b.id in self.params and b.id not in self.defs and b.id not in local:
                out.add("%s.%s" % (b.id, chain[-1]))
                return out
        if isinstance(expr, ast.Name):
            if expr.id in local:
                return self.sources(local[expr.id], seen, {k: v for k, v in local.items() if k != expr.id})
            if expr.id in self.params and expr.id not in seen:
                out.add(expr.id)
            if expr.id in self.defs and expr.id not in seen:
                seen.add(expr.id)
                for rhs in self.defs[expr.id]:
                    out |= self.sources(rhs, seen, None)
            return out
        if isinstance(expr, ast.Call):
            out.add("call:" + norm(expr.func))
        for ch in ast.iter_child_nodes(expr):
            out |= self.sources(ch, seen, local)
        return out
