"""Self-test of the checkers: breaking variants must be reported, neutral variants must stay silent.

A variant is the current source of one module with one textual edit applied *in memory*
(`find` must occur exactly once); nothing is written to /repo.  The edit text is test data for
the checker, not a rule: a variant whose `find` no longer occurs is reported as stale.
"""
from __future__ import annotations

import json
import multiprocessing as mp
import os
import sys
import time
from typing import Dict, List, Optional, Tuple

from .loader import REPO

HERE = os.path.dirname(os.path.abspath(__file__))
TABLE = os.path.join(HERE, "tables", "variants.json")


def load_variants() -> List[dict]:
    with open(TABLE) as fh:
        return json.load(fh)["variants"]


def apply_variant(v: dict) -> Optional[Dict[str, str]]:
    path = os.path.join(REPO, v["file"])
    with open(path, encoding="utf-8") as fh:
        text = fh.read()
    edits = v.get("edits") or [{"find": v["find"], "replace": v["replace"]}]
    for e in edits:
        if text.count(e["find"]) != 1:
            return None
        text = text.replace(e["find"], e["replace"])
    return {v["file"]: text}


def _run_one(args: Tuple[dict, str]) -> dict:
    v, prop = args
    from .runner import run_check

    ov = apply_variant(v)
    if ov is None:
        return {"id": v["id"], "prop": prop, "status": "stale"}
    t = time.time()
    try:
        import io
        import contextlib

        buf = io.StringIO()
        with contextlib.redirect_stdout(buf):
            rc = run_check(prop, "quick", 0, write=False, overrides=ov, quiet=False)
        out = buf.getvalue()
    except Exception as e:  # pragma: no cover
        return {"id": v["id"], "prop": prop, "status": "crash", "detail": repr(e)}
    return {"id": v["id"], "prop": prop, "status": {0: "silent", 1: "violation", 2: "undecided"}.get(rc, str(rc)), "out": out, "wall": round(time.time() - t, 2)}


def run_variants(props: Optional[List[str]] = None, ids: Optional[List[str]] = None, jobs: int = 16, verbose: bool = False) -> dict:
    from .props import PROPS

    vs = load_variants()
    work = []
    for v in vs:
        if ids and v["id"] not in ids:
            continue
        targets = v.get("expect", []) if not v.get("neutral") else v.get("props", [])
        also = v.get("silent", [])
        for p in list(targets) + list(also):
            if props and p not in props:
                continue
            if p not in PROPS:
                continue
            work.append((v, p))
    res = []
    if work:
        with mp.get_context("fork").Pool(min(jobs, len(work))) as pool:
            res = pool.map(_run_one, work, chunksize=1)
    summary = {"breaking_expected": 0, "breaking_killed": 0, "neutral_runs": 0, "neutral_silent": 0, "stale": 0, "failures": []}
    byid = {v["id"]: v for v in vs}
    for r in res:
        v = byid[r["id"]]
        if r["status"] == "stale":
            summary["stale"] += 1
            summary["failures"].append({"id": r["id"], "prop": r["prop"], "problem": "stale (edit no longer applies)"})
            continue
        if v.get("neutral") or r["prop"] in v.get("silent", []):
            summary["neutral_runs"] += 1
            if r["status"] == "silent":
                summary["neutral_silent"] += 1
            else:
                summary["failures"].append({"id": r["id"], "prop": r["prop"], "problem": "neutral variant gave %s" % r["status"], "out": r.get("out", "")[-1500:]})
        else:
            summary["breaking_expected"] += 1
            if r["status"] == "violation":
                summary["breaking_killed"] += 1
            else:
                summary["failures"].append({"id": r["id"], "prop": r["prop"], "problem": "breaking variant gave %s" % r["status"], "out": r.get("out", "")[-1500:]})
        if verbose:
            print(r["id"], r["prop"], r["status"], r.get("wall"))
    return summary


def main(argv: List[str]) -> int:
    props = None
    ids = None
    verbose = "-v" in argv
    for a in argv:
        if a.startswith("--props="):
            props = a.split("=", 1)[1].split(",")
        if a.startswith("--ids="):
            ids = a.split("=", 1)[1].split(",")
    s = run_variants(props, ids, verbose=verbose)
    print(json.dumps({k: v for k, v in s.items() if k != "failures"}, indent=1))
    for f in s["failures"]:
        print("SELFTEST-FAIL", f["id"], f["prop"], f["problem"])
        if verbose and f.get("out"):
            print(f["out"])
    return 0 if not s["failures"] else 3
