"""Self-test of the checkers: breaking variants must be reported, neutral variants must stay silent.

A variant is the current source of one module with one textual edit applied *in memory*
(`find` must occur exactly once); nothing is written to /repo.  The edit text is test data for
the checker, not a rule: a variant whose `find` no longer occurs is reported as stale.
"""
from __future__ import annotations

import json
import multiprocessing as mp
import os
import sys
import time
from typing import Dict, List, Optional, Tuple

from .loader import REPO

HERE = os.path.dirname(os.path.abspath(__file__))
TABLE = os.path.join(HERE, "tables", "variants.json")


def load_variants() -> List[dict]:
    with open(TABLE) as fh:
        return json.load(fh)["variants"]


def apply_unified_diff(diff_text: str) -> Optional[Dict[str, str]]:
    """Apply a unified diff (git format) to the current files of /repo in memory; None if a hunk does not fit."""
    out: Dict[str, str] = {}
    cur = None
    lines: List[str] = []
    hunks: List[Tuple[int, List[str]]] = []

    def flush() -> bool:
        if cur is None:
            return True
        if not os.path.exists(os.path.join(REPO, cur)):
            # a file the patch creates: its single hunk is the whole text
            if len(hunks) != 1 or any(ln[:1] != "+" for ln in hunks[0][1]):
                return False
            out[cur] = "\n".join(ln[1:] for ln in hunks[0][1]) + "\n"
            return True
        with open(os.path.join(REPO, cur), encoding="utf-8") as fh:
            src = fh.read().split("\n")
        offset = 0
        for start, body in hunks:
            old = [ln[1:] for ln in body if ln[:1] in (" ", "-")]
            new = [ln[1:] for ln in body if ln[:1] in (" ", "+")]
            pos = start - 1 + offset
            found = None
            for d in [0] + [x for k in range(1, 80) for x in (k, -k)]:
                q = pos + d
                if 0 <= q <= len(src) - len(old) and src[q:q + len(old)] == old:
                    found = q
                    break
            if found is None:
                return False
            src[found:found + len(old)] = new
            offset += len(new) - len(old) + (found - pos)
        out[cur] = "\n".join(src)
        return True

    import re as _re

    rows = diff_text.split("\n")
    i = 0
    while i < len(rows):
        ln = rows[i]
        if ln.startswith("+++ "):
            if not flush():
                return None
            hunks = []
            pth = ln[4:].strip()
            cur = pth[2:] if pth.startswith("b/") else pth
            i += 1
            continue
        m = _re.match(r"@@ -(\d+)(?:,(\d+))? \+(\d+)(?:,(\d+))? @@", ln)
        if m and cur is not None:
            n_old = int(m.group(2)) if m.group(2) is not None else 1
            n_new = int(m.group(4)) if m.group(4) is not None else 1
            body: List[str] = []
            i += 1
            while i < len(rows) and (n_old > 0 or n_new > 0):
                r = rows[i]
                if r.startswith("\\"):
                    i += 1
                    continue
                tag = r[:1] if r else " "
                if r == "":
                    r = " "
                if tag == " ":
                    n_old -= 1
                    n_new -= 1
                elif tag == "-":
                    n_old -= 1
                elif tag == "+":
                    n_new -= 1
                else:
                    break
                body.append(r)
                i += 1
            hunks.append((int(m.group(1)), body))
            continue
        i += 1
    if not flush():
        return None
    return out


def _transform_all(kind: str) -> Dict[str, str]:
    """Whole-package neutral transformations (computed, not stored)."""
    import ast as _ast

    out: Dict[str, str] = {}
    root = os.path.join(REPO, "src", "pacti")
    for d, _dirs, files in os.walk(root):
        for f in files:
            if not f.endswith(".py"):
                continue
            p = os.path.join(d, f)
            with open(p, encoding="utf-8") as fh:
                src = fh.read()
            rel = os.path.relpath(p, REPO)
            if kind == "ast-unparse":
                # re-print every module from its syntax tree: comments gone, layout and line numbers changed
                out[rel] = _ast.unparse(_ast.parse(src)) + "\n"
            elif kind == "shift-lines":
                out[rel] = "# shifted\n" * 37 + src
            elif kind == "strip-docstrings":
                tree = _ast.parse(src)
                for node in _ast.walk(tree):
                    if isinstance(node, (_ast.FunctionDef, _ast.ClassDef, _ast.Module)) and node.body and isinstance(node.body[0], _ast.Expr) and isinstance(node.body[0].value, _ast.Constant) and isinstance(node.body[0].value.value, str):
                        node.body = node.body[1:] or [_ast.Pass()]
                out[rel] = _ast.unparse(tree) + "\n"
            elif kind == "rename-locals":
                out[rel] = _rename_locals(src)
            elif kind in ("invert-if-else", "return-temp", "swap-compare"):
                out[rel] = _rewrite(src, kind)
            else:
                raise ValueError(kind)
    return out


def _rewrite(src: str, kind: str) -> str:
    """Mechanical behaviour-preserving rewrites applied everywhere in a module."""
    import ast as _ast

    tree = _ast.parse(src)

    class T(_ast.NodeTransformer):
        def visit_If(self, n):
            self.generic_visit(n)
            if kind == "invert-if-else" and n.orelse and not (len(n.orelse) == 1 and isinstance(n.orelse[0], _ast.If)):
                return _ast.If(test=_ast.UnaryOp(op=_ast.Not(), operand=n.test), body=n.orelse, orelse=n.body)
            return n

        def visit_Compare(self, n):
            self.generic_visit(n)
            flip = {_ast.Lt: _ast.Gt, _ast.Gt: _ast.Lt, _ast.LtE: _ast.GtE, _ast.GtE: _ast.LtE}
            if kind == "swap-compare" and len(n.ops) == 1 and type(n.ops[0]) in flip:
                # only numbers are compared with < <= > >= in the package, except TermList / contract `<=`, which
                # Python reflects to the same __le__ call when written the other way round
                return _ast.Compare(left=n.comparators[0], ops=[flip[type(n.ops[0])]()], comparators=[n.left])
            return n

        def visit_FunctionDef(self, n):
            self.generic_visit(n)
            if kind == "return-temp":
                class R(_ast.NodeTransformer):
                    def visit_FunctionDef(self, m):
                        return m

                    def visit_Lambda(self, m):
                        return m

                    def visit_Return(self, r):
                        if r.value is None or isinstance(r.value, (_ast.Name, _ast.Constant)):
                            return r
                        return [_ast.Assign(targets=[_ast.Name(id="_result_tmp", ctx=_ast.Store())], value=r.value), _ast.Return(value=_ast.Name(id="_result_tmp", ctx=_ast.Load()))]

                n.body = [x for st in n.body for x in (lambda v: v if isinstance(v, list) else [v])(R().visit(st))]
            return n

    tree = _ast.fix_missing_locations(T().visit(tree))
    return _ast.unparse(tree) + "\n"


def _rename_locals(src: str) -> str:
    """Append '_v' to every local variable (not parameters, globals, attributes or keyword names) of every function."""
    import ast as _ast

    tree = _ast.parse(src)
    module_names = {n.id for n in _ast.walk(tree) if isinstance(n, _ast.Name)} | {a.name for n in _ast.walk(tree) if isinstance(n, (_ast.Import, _ast.ImportFrom)) for a in n.names}

    def params_of(fn) -> set:
        a = fn.args
        return {x.arg for x in list(a.posonlyargs) + list(a.args) + list(a.kwonlyargs)} | ({a.vararg.arg} if a.vararg else set()) | ({a.kwarg.arg} if a.kwarg else set())

    for fn in [n for n in _ast.walk(tree) if isinstance(n, (_ast.FunctionDef, _ast.AsyncFunctionDef))]:
        protected = set(params_of(fn))
        for n in _ast.walk(fn):
            if n is not fn and isinstance(n, (_ast.FunctionDef, _ast.AsyncFunctionDef, _ast.Lambda)):
                protected |= params_of(n)
                if isinstance(n, _ast.FunctionDef):
                    protected.add(n.name)
            if isinstance(n, (_ast.Global, _ast.Nonlocal)):
                protected |= set(n.names)
        stored = {n.id for n in _ast.walk(fn) if isinstance(n, _ast.Name) and isinstance(n.ctx, (_ast.Store, _ast.Del))}
        for n in _ast.walk(fn):
            if isinstance(n, _ast.ExceptHandler) and n.name:
                protected.add(n.name)
        todo = {x for x in stored if x not in protected and not x.endswith("_v") and (x + "_v") not in module_names}
        for n in _ast.walk(fn):
            if isinstance(n, _ast.Name) and n.id in todo:
                n.id = n.id + "_v"
    return _ast.unparse(tree) + "\n"


def apply_variant(v: dict) -> Optional[Dict[str, str]]:
    if "transform" in v:
        return _transform_all(v["transform"])
    if "patch" in v:
        with open(os.path.join(os.path.dirname(HERE), v["patch"]), encoding="utf-8") as fh:
            ov = apply_unified_diff(fh.read())
        # "then": edits made on top of the patched tree (a breaking change inside a behaviour-preserving refactoring)
        for e in v.get("then", []):
            if ov is None:
                return None
            if e["file"] in ov:
                text = ov[e["file"]]
            else:
                with open(os.path.join(REPO, e["file"]), encoding="utf-8") as fh:
                    text = fh.read()
            if text.count(e["find"]) != 1:
                return None
            ov[e["file"]] = text.replace(e["find"], e["replace"])
        return ov
    if "mutant" in v:
        # a recorded mechanical mutant, re-applied to the current source; stale when the site has moved
        from .mutation import mutate_source

        m = v["mutant"]
        with open(os.path.join(REPO, m["file"]), encoding="utf-8") as fh:
            src = fh.read()
        r = mutate_source(src, m["function"], m["op"], m["idx"], m.get("line"))
        if r is None or r[1] != m["minus"] or r[2] != m["plus"]:
            return None
        return {m["file"]: r[0]}
    path = os.path.join(REPO, v["file"])
    with open(path, encoding="utf-8") as fh:
        text = fh.read()
    edits = v.get("edits") or [{"find": v["find"], "replace": v["replace"]}]
    for e in edits:
        if text.count(e["find"]) != 1:
            return None
        text = text.replace(e["find"], e["replace"])
    return {v["file"]: text}


def _run_one(args: Tuple[dict, str]) -> dict:
    v, prop = args
    from .runner import run_check

    ov = apply_variant(v)
    if ov is None:
        return {"id": v["id"], "prop": prop, "status": "stale"}
    t = time.time()
    try:
        import io
        import contextlib

        buf = io.StringIO()
        with contextlib.redirect_stdout(buf):
            rc = run_check(prop, "quick", 0, write=False, overrides=ov, quiet=False)
        out = buf.getvalue()
    except Exception as e:  # pragma: no cover
        return {"id": v["id"], "prop": prop, "status": "crash", "detail": repr(e)}
    return {"id": v["id"], "prop": prop, "status": {0: "silent", 1: "violation", 2: "undecided"}.get(rc, str(rc)), "out": out, "wall": round(time.time() - t, 2)}


def run_variants(props: Optional[List[str]] = None, ids: Optional[List[str]] = None, jobs: int = 16, verbose: bool = False) -> dict:
    from .props import PROPS

    vs = load_variants()
    work = []
    for v in vs:
        if ids and v["id"] not in ids:
            continue
        targets = v.get("expect", []) if not v.get("neutral") else v.get("props", [])
        also = v.get("silent", [])
        for p in list(targets) + list(also):
            if props and p not in props:
                continue
            if p not in PROPS:
                continue
            work.append((v, p))
    res = []
    if work:
        with mp.get_context("fork").Pool(min(jobs, len(work)), maxtasksperchild=24) as pool:
            res = pool.map(_run_one, work, chunksize=1)
    summary = {"breaking_expected": 0, "breaking_killed": 0, "neutral_runs": 0, "neutral_silent": 0, "stale": 0, "failures": []}
    byid = {v["id"]: v for v in vs}
    for r in res:
        v = byid[r["id"]]
        if r["status"] == "stale":
            summary["stale"] += 1
            summary["failures"].append({"id": r["id"], "prop": r["prop"], "problem": "stale (edit no longer applies)"})
            continue
        if v.get("neutral") or r["prop"] in v.get("silent", []):
            summary["neutral_runs"] += 1
            if r["status"] == "silent":
                summary["neutral_silent"] += 1
            else:
                summary["failures"].append({"id": r["id"], "prop": r["prop"], "problem": "neutral variant gave %s" % r["status"], "out": r.get("out", "")[-1500:]})
        else:
            summary["breaking_expected"] += 1
            if r["status"] == "violation" or (r["status"] == "undecided" and v.get("accept_undecided")):
                summary["breaking_killed"] += 1
            else:
                summary["failures"].append({"id": r["id"], "prop": r["prop"], "problem": "breaking variant gave %s" % r["status"], "out": r.get("out", "")[-1500:]})
        if verbose:
            print(r["id"], r["prop"], r["status"], r.get("wall"))
    return summary


def main(argv: List[str]) -> int:
    props = None
    ids = None
    verbose = "-v" in argv
    for a in argv:
        if a.startswith("--props="):
            props = a.split("=", 1)[1].split(",")
        if a.startswith("--ids="):
            ids = a.split("=", 1)[1].split(",")
    s = run_variants(props, ids, verbose=verbose)
    print(json.dumps({k: v for k, v in s.items() if k != "failures"}, indent=1))
    for f in s["failures"]:
        print("SELFTEST-FAIL", f["id"], f["prop"], f["problem"])
        if verbose and f.get("out"):
            print(f["out"])
    return 0 if not s["failures"] else 3
