"""Interprocedural mutation-effect / alias / freshness analysis (C13).

Every value is abstracted to three origin sets, by depth: the object itself (d0), its direct components -
attributes, elements, dictionary values - (d1), and anything deeper (d2).  An origin is FRESH (created in this
activation), ('p', name, k) "the depth-k component of parameter `name`", ('g', name) a module-level / class-level
binding, or ('u', why) unknown.  Names are resolved flow-insensitively (join over all definitions in the
function); callee effects come from bottom-up summaries iterated to a fixpoint.

A mutation site is an assignment / augmented assignment / deletion through an attribute or subscript, a call
of a mutating container method, or an in-place operator on a name bound to a container; the object mutated is
classified by its d0.
"""
from __future__ import annotations

import ast
from typing import Dict, FrozenSet, List, Optional, Set, Tuple

from .loader import AnalysisError, ClassInfo, FuncInfo, Program, norm

FRESH = ("f",)
Origin = Tuple
Vec = Tuple[FrozenSet[Origin], FrozenSet[Origin], FrozenSet[Origin]]

MUTATING_METHODS = {"append", "extend", "insert", "remove", "pop", "clear", "sort", "reverse", "update", "setdefault", "popitem", "add", "discard"}
IMMUTABLE_ANN = {"str", "int", "float", "bool", "numeric", "None", "bytes", "Var", "complex"}

DEEP_FRESH_CALLS = {
    "np.array", "np.copy", "np.zeros", "np.ones", "np.concatenate", "np.delete", "np.where", "np.isclose", "np.abs", "np.equal", "np.dot",
    "np.linalg.norm", "np.reshape", "np.vstack", "np.hstack", "np.append", "np.transpose", "np.max", "np.min", "np.sum",
    "copy.deepcopy", "deepcopy", "float", "int", "str", "bool", "len", "hash", "abs", "isinstance", "repr", "format", "range", "round", "max", "min", "sum",
    "linprog", "json.load", "json.loads", "json.dumps", "open", "time.time", "sympy.symbols", "sympy.solve", "atan2", "HalfspaceIntersection",
    "os.path.isfile", "print", "type", "all", "any", "getattr",
}
SHALLOW_CALLS = {"list", "tuple", "set", "sorted", "reversed", "dict", "copy.copy", "copy", "frozenset"}
ITER_WRAPPERS = {"enumerate", "zip", "map", "filter", "product", "iter"}


def vec(d0, d1=None, d2=None) -> Vec:
    d0 = frozenset(d0)
    d1 = frozenset(d1) if d1 is not None else d0
    d2 = frozenset(d2) if d2 is not None else d1
    return (d0, d1, d2)


VFRESH: Vec = vec({FRESH})


def vjoin(a: Vec, b: Vec) -> Vec:
    return (a[0] | b[0], a[1] | b[1], a[2] | b[2])


def down(v: Vec) -> Vec:
    return (v[1], v[2], v[2])


def pvec(name: str) -> Vec:
    return (frozenset({("p", name, 0)}), frozenset({("p", name, 1)}), frozenset({("p", name, 2)}))


def all_origins(v: Vec) -> FrozenSet[Origin]:
    return v[0] | v[1] | v[2]


class Site:
    def __init__(self, fi: FuncInfo, node: ast.AST, what: str, target: ast.AST, origins: FrozenSet[Origin], via: str = ""):
        self.fi = fi
        self.node = node
        self.what = what
        self.target = target
        self.origins = origins
        self.via = via

    @property
    def where(self) -> str:
        return "%s:%d" % (self.fi.module.relpath, getattr(self.node, "lineno", 0))


class FnSummary:
    def __init__(self):
        self.ret: Vec = vec(set())  # in terms of own params
        self.mut: Set[Tuple[str, int]] = set()  # (param, depth) mutated
        self.mut_globals: Set[str] = set()
        self.attr_store: Dict[str, Vec] = {}  # for __init__: self.X = value
        self.ret_items: Optional[List[Vec]] = None  # element-wise, when every return is a tuple display of one length


class Effects:
    def __init__(self, prog: Program):
        self.prog = prog
        self.funcs: List[FuncInfo] = list(prog.all_functions())
        self.summ: Dict[str, FnSummary] = {f.key: FnSummary() for f in self.funcs}
        self.sites: Dict[str, List[Site]] = {}
        self.byname: Dict[str, List[FuncInfo]] = {}
        for f in self.funcs:
            if not isinstance(f.node, ast.Lambda):
                self.byname.setdefault(f.name, []).append(f)
        self.unresolved: List[str] = []
        self.module_mutables: Dict[str, Set[str]] = {}
        self._owned: Dict[str, Set[str]] = {}
        for m in prog.modules.values():
            s = set()
            for name, val in m.assigns.items():
                if isinstance(val, (ast.List, ast.Dict, ast.Set, ast.ListComp, ast.DictComp, ast.Call, ast.BinOp, ast.Attribute)):
                    s.add(name)
            for name, st in m.assign_nodes.items():
                s.add(name) if isinstance(st, ast.AugAssign) else None
            self.module_mutables[m.name] = s
        self._solve()

    def owned_fields(self, cname: str) -> Set[str]:
        """Fields of a NEW private class that are bound, wherever they are bound, to an object created on the spot (a
        display, a comprehension, `[x] * n`, list()/dict()/set()/sorted()): the instance owns what they hold."""
        if cname in self._owned:
            return self._owned[cname]
        from .pathsim import _is_new_class

        out: Set[str] = set()
        ci = self.prog.classes.get(cname)
        if ci is not None and cname.startswith("_") or (ci is not None and ci.module.base.startswith("_")):
            if _is_new_class(cname):
                fresh: Dict[str, bool] = {}

                def is_fresh(v: ast.AST) -> bool:
                    if isinstance(v, (ast.List, ast.Dict, ast.Set, ast.ListComp, ast.DictComp, ast.SetComp, ast.Constant)):
                        return True
                    if isinstance(v, ast.BinOp) and isinstance(v.op, ast.Mult) and (isinstance(v.left, ast.List) or isinstance(v.right, ast.List)):
                        return True
                    if isinstance(v, ast.Call) and isinstance(v.func, ast.Name) and v.func.id in ("list", "dict", "set", "sorted", "tuple", "frozenset"):
                        return True
                    return False

                for m in ci.methods.values():
                    me = m.params[0] if m.params and m.kind in ("method", "property") else None
                    if me is None:
                        continue
                    for node in ast.walk(m.node):
                        tg, val = None, None
                        if isinstance(node, ast.Assign) and len(node.targets) == 1:
                            tg, val = node.targets[0], node.value
                        elif isinstance(node, ast.AnnAssign) and node.value is not None:
                            tg, val = node.target, node.value
                        elif isinstance(node, ast.AugAssign):
                            tg, val = node.target, None
                        if isinstance(tg, ast.Attribute) and isinstance(tg.value, ast.Name) and tg.value.id == me:
                            fresh[tg.attr] = fresh.get(tg.attr, True) and val is not None and is_fresh(val)
                out = {f for f, ok in fresh.items() if ok}
        self._owned[cname] = out
        return out

    # ------------------------------------------------------------ fixpoint
    def _solve(self) -> None:
        for _round in range(12):
            changed = False
            for f in self.funcs:
                old = self.summ[f.key]
                new = self._analyse(f)
                if new.ret != old.ret or new.mut != old.mut or new.mut_globals != old.mut_globals or new.attr_store != old.attr_store or new.ret_items != old.ret_items:
                    changed = True
                self.summ[f.key] = new
            if not changed:
                break

    # ------------------------------------------------------------ typing
    def ann_class(self, ann: Optional[ast.AST]) -> Optional[str]:
        if ann is None:
            return None
        t = norm(ann).replace("'", "").replace('"', "")
        for wrap in ("Optional[", "List[", "Tuple["):
            if t.startswith(wrap) and wrap == "Optional[":
                t = t[len(wrap):-1]
        t = t.split(".")[-1]
        alias = {"TermList_t": "TermList", "IoContract_t": "IoContract", "Term_t": "Term", "NestedTermlist_t": "NestedTermList", "IoContractCompound_t": "IoContractCompound", "Var_t": "Var"}
        t = alias.get(t, t)
        return t if t in self.prog.classes else None

    def ann_immutable(self, ann: Optional[ast.AST]) -> bool:
        if ann is None:
            return False
        t = norm(ann).replace("'", "").replace('"', "")
        if t.startswith("Optional[") and t.endswith("]"):
            t = t[9:-1]
        return t.split(".")[-1] in IMMUTABLE_ANN

    # ------------------------------------------------------------ per function
    def _analyse(self, fi: FuncInfo) -> FnSummary:
        A = _FnAnalysis(self, fi)
        s = A.run()
        self.sites[fi.key] = A.sites
        return s


class _FnAnalysis:
    def __init__(self, eff: Effects, fi: FuncInfo):
        self.eff = eff
        self.prog = eff.prog
        self.fi = fi
        self.node = fi.node
        a = fi.node.args
        self.params = [x.arg for x in list(a.posonlyargs) + list(a.args) + list(a.kwonlyargs)]
        if a.vararg:
            self.params.append(a.vararg.arg)
        if a.kwarg:
            self.params.append(a.kwarg.arg)
        self.param_ann: Dict[str, Optional[ast.AST]] = {x.arg: x.annotation for x in list(a.posonlyargs) + list(a.args) + list(a.kwonlyargs)}
        self.defs: Dict[str, List[Tuple[str, ast.AST]]] = {}  # name -> [(how, expr)]  how: 'val' | 'elem' | 'elem2'
        self.sites: List[Site] = []
        self.memo: Dict[str, Vec] = {}
        self.in_progress: Set[str] = set()
        self.types: Dict[str, Optional[str]] = {}
        body = fi.node.body if not isinstance(fi.node, ast.Lambda) else [ast.Expr(value=fi.node.body)]
        self.body = body
        for st in body:
            for n in ast.walk(st):
                self._collect(n)

    # -- definitions
    def _bind(self, t: ast.AST, how: str, e: ast.AST) -> None:
        if isinstance(t, ast.Name):
            self.defs.setdefault(t.id, []).append((how, e))
        elif isinstance(t, (ast.Tuple, ast.List)):
            # unpacking: each target is a component of the value
            nxt = {"val": "elem", "elem": "elem2", "elem2": "elem2"}[how]
            if isinstance(e, (ast.Tuple, ast.List)) and len(e.elts) == len(t.elts) and how == "val":
                for tt, ee in zip(t.elts, e.elts):
                    self._bind(tt, "val", ee)
            elif isinstance(e, ast.Call) and how == "val" and all(isinstance(tt, ast.Name) for tt in t.elts):
                for i, tt in enumerate(t.elts):
                    self.defs.setdefault(tt.id, []).append((("item", i, len(t.elts)), e))
            else:
                for tt in t.elts:
                    self._bind(tt, nxt, e)
        elif isinstance(t, ast.Starred):
            self._bind(t.value, how, e)

    def _collect(self, n: ast.AST) -> None:
        if isinstance(n, ast.Assign):
            for t in n.targets:
                self._bind(t, "val", n.value)
        elif isinstance(n, ast.AnnAssign) and n.value is not None:
            self._bind(n.target, "val", n.value)
        elif isinstance(n, ast.AugAssign) and isinstance(n.target, ast.Name):
            self.defs.setdefault(n.target.id, []).append(("aug", n))
        elif isinstance(n, (ast.For, ast.comprehension)):
            self._bind(n.target, "elem", n.iter)
        elif isinstance(n, ast.With):
            for it in n.items:
                if it.optional_vars is not None:
                    self._bind(it.optional_vars, "val", it.context_expr)
        elif isinstance(n, ast.ExceptHandler) and n.name:
            self.defs.setdefault(n.name, []).append(("fresh", n))
        elif isinstance(n, ast.NamedExpr):
            self._bind(n.target, "val", n.value)
        elif isinstance(n, ast.Call) and isinstance(n.func, ast.Attribute) and n.func.attr in ("append", "extend", "insert", "add", "update", "setdefault") and isinstance(n.func.value, ast.Name):
            for a in n.args:
                self.defs.setdefault(n.func.value.id, []).append(("cont" if n.func.attr not in ("extend", "update") else "merge", a))
        if isinstance(n, (ast.Assign, ast.AugAssign)):
            # x[k] = v / x.attr = v : v becomes a component of x
            tgts = n.targets if isinstance(n, ast.Assign) else [n.target]
            for t in tgts:
                if isinstance(t, (ast.Subscript, ast.Attribute)) and isinstance(t.value, ast.Name):
                    self.defs.setdefault(t.value.id, []).append(("cont", n.value))

    # -- classification
    def name_vec(self, name: str) -> Vec:
        if name in self.memo:
            return self.memo[name]
        if name in self.in_progress:
            return vec(set())
        self.in_progress.add(name)
        v = vec(set())
        has = False
        if name in self.params:
            v = vjoin(v, VFRESH if self.eff.ann_immutable(self.param_ann.get(name)) else pvec(name))
            has = True
        bound = name in self.params
        for how, e in self.defs.get(name, []):
            has = True
            if how not in ("cont", "merge"):
                bound = True
            if how == "fresh":
                v = vjoin(v, VFRESH)
            elif isinstance(how, tuple) and how[0] == "item":
                v = vjoin(v, self.call_item_vec(e, how[1], how[2]))
            elif how == "cont":
                x = self.vec_of(e)
                v = (v[0], v[1] | x[0], v[2] | x[1] | x[2])
            elif how == "merge":
                x = self.vec_of(e)
                v = (v[0], v[1] | x[1], v[2] | x[2])
            elif how == "aug":
                # x op= y : for containers in place (same object), for TermList/number a rebinding to a new object
                v = vjoin(v, self.binop_vec(e.op, ast.Name(id=name, ctx=ast.Load()), e.value, aug=True))
            else:
                x = self.vec_of(e)
                if how == "elem":
                    x = down(x)
                elif how == "elem2":
                    x = down(down(x))
                v = vjoin(v, x)
        if not has:
            v = self.global_vec(name)
        elif not bound:
            # only written INTO (x[k] = .., x.append(..)) and never bound here: the object is the module-level one
            v = vjoin(v, self.global_vec(name))
        self.in_progress.discard(name)
        self.memo[name] = v
        return v

    def global_vec(self, name: str) -> Vec:
        m = self.fi.module
        if name in m.assigns or name in m.assign_nodes:
            if name in self.eff.module_mutables.get(m.name, set()):
                g = ("g", "%s.%s" % (m.base, name))
                return vec({g})
            return VFRESH  # immutable constant
        r = self.prog.resolve_name(m, name)
        if r is not None:
            if r.__class__.__name__ == "ModInfo":
                return vec({("g", "module:" + r.name)})
            return VFRESH  # functions / classes
        if name in m.imports:
            tgt = m.imports[name]
            # an imported module-level binding of the package (e.g. grammar.expression)
            modname, _, attr = tgt.rpartition(".")
            mm = self.prog.modules.get(modname)
            if mm is not None and attr in self.eff.module_mutables.get(mm.name, set()):
                return vec({("g", "%s.%s" % (mm.base, attr))})
            return VFRESH
        return VFRESH  # builtins

    def type_of(self, e: ast.AST, depth: int = 0) -> Optional[str]:
        if depth > 6:
            return None
        if isinstance(e, ast.Name):
            if e.id in self.params:
                if e.id == (self.params[0] if self.params else None) and self.fi.cls is not None and self.fi.kind in ("method", "property"):
                    return self.fi.cls.name
                return self.eff.ann_class(self.param_ann.get(e.id))
            ts = set()
            for how, d in self.defs.get(e.id, []):
                if how == "val":
                    ts.add(self.type_of(d, depth + 1))
                elif how == "elem":
                    ts.add(self.elem_type(d, depth + 1))
                else:
                    ts.add(None)
            if len(ts) == 1:
                return ts.pop()
            ts.discard(None)
            if len(ts) == 1:
                return ts.pop()
            return None
        if isinstance(e, ast.Call):
            f = e.func
            if isinstance(f, ast.Name):
                if f.id in self.prog.classes:
                    return f.id
                r = self.prog.resolve_name(self.fi.module, f.id)
                if r is not None and r.__class__.__name__ == "FuncInfo":
                    return self.eff.ann_class(r.node.returns)
            if isinstance(f, ast.Call) and isinstance(f.func, ast.Name) and f.func.id == "type" and len(f.args) == 1:
                return self.type_of(f.args[0], depth + 1)
            if isinstance(f, ast.Attribute):
                rt = self.type_of(f.value, depth + 1)
                if isinstance(f.value, ast.Name) and f.value.id in self.prog.classes:
                    m = self.prog.resolve_method(f.value.id, f.attr)
                    if m is not None:
                        return self.eff.ann_class(m.node.returns) or None
                if rt is not None:
                    m = self.prog.resolve_method(rt, f.attr)
                    if m is not None:
                        r = self.eff.ann_class(m.node.returns)
                        if r in ("TermList", "Term", "IoContract", "NestedTermList", "IoContractCompound") and self.prog.is_subclass(rt, r):
                            return rt  # self-typed methods return the receiver's class
                        return r
            return None
        if isinstance(e, ast.Attribute):
            bt = self.type_of(e.value, depth + 1)
            if bt is not None and e.attr in ("a", "g"):
                if self.prog.is_subclass(bt, "IoContractCompound"):
                    return "NestedTermList"
                if self.prog.is_subclass(bt, "IoContract"):
                    return "PolyhedralTermList" if bt.startswith("Polyhedral") else "TermList"
            return None
        if isinstance(e, ast.BinOp):
            lt = self.type_of(e.left, depth + 1)
            return lt
        if isinstance(e, ast.IfExp):
            return self.type_of(e.body, depth + 1) or self.type_of(e.orelse, depth + 1)
        return None

    def elem_type(self, it: ast.AST, depth: int) -> Optional[str]:
        if isinstance(it, ast.Attribute) and it.attr == "terms":
            bt = self.type_of(it.value, depth + 1)
            if bt is not None and bt.startswith("Polyhedral"):
                return "PolyhedralTerm"
            return "PolyhedralTerm" if self.fi.module.base in ("polyhedra", "serializer", "plots") else "Term"
        if isinstance(it, ast.Attribute) and it.attr == "nested_termlist":
            return "TermList"
        if isinstance(it, ast.Name):
            for how, d in self.defs.get(it.id, []):
                if how == "val" and isinstance(d, ast.Call) and isinstance(d.func, ast.Name) and d.func.id == "list" and d.args:
                    return self.elem_type(d.args[0], depth + 1)
        return None

    def vec_of(self, e: Optional[ast.AST]) -> Vec:
        if e is None:
            return VFRESH
        if isinstance(e, ast.Constant) or isinstance(e, (ast.JoinedStr, ast.Compare, ast.BoolOp, ast.Lambda)):
            return VFRESH
        if isinstance(e, ast.UnaryOp):
            return VFRESH
        if isinstance(e, ast.Name):
            return self.name_vec(e.id)
        if isinstance(e, ast.Attribute):
            base = e.value
            if isinstance(base, ast.Name) and base.id in self.prog.classes:
                ci = self.prog.classes[base.id]
                if e.attr in ci.class_assigns:
                    return vec({("g", "%s.%s" % (base.id, e.attr))})
                return VFRESH
            if e.attr in ("shape", "size", "ndim", "real", "imag", "lineno", "column", "line"):
                return VFRESH  # immutable numbers / tuples of numbers
            if isinstance(base, ast.Name) and self.fi.cls is not None and self.params and base.id == self.params[0] and self.fi.kind in ("method", "property") and e.attr in self.eff.owned_fields(self.fi.cls.name):
                # a field of a private helper class (one the reference tree does not have) that only ever holds an
                # object the instance created itself: editing it edits the helper object, not anybody's operand
                bv0 = self.vec_of(base)
                d0 = down(bv0)
                return (frozenset({FRESH}), d0[1], d0[2])
            bv = self.vec_of(base)
            if all(o[0] == "g" and str(o[1]).startswith("module:") for o in bv[0]) and bv[0]:
                # module.attr
                out = vec(set())
                for o in bv[0]:
                    mm = self.prog.modules.get(o[1][7:])
                    if mm is not None and e.attr in self.eff.module_mutables.get(mm.name, set()):
                        out = vjoin(out, vec({("g", "%s.%s" % (mm.base, e.attr))}))
                    else:
                        out = vjoin(out, VFRESH)
                return out
            return down(bv)
        if isinstance(e, ast.Subscript):
            bv = self.vec_of(e.value)
            if isinstance(e.slice, ast.Slice):
                return (frozenset({FRESH}), bv[1], bv[2])  # a slice of a list is a new list (ndarray views are handled as fresh arrays are)
            return down(bv)
        if isinstance(e, ast.Starred):
            return self.vec_of(e.value)
        if isinstance(e, (ast.List, ast.Tuple, ast.Set)):
            d1: Set[Origin] = set()
            d2: Set[Origin] = set()
            for x in e.elts:
                xv = self.vec_of(x)
                d1 |= xv[0]
                d2 |= xv[1] | xv[2]
            return (frozenset({FRESH}), frozenset(d1 or {FRESH}), frozenset(d2 or d1 or {FRESH}))
        if isinstance(e, ast.Dict):
            d1 = set()
            d2 = set()
            for x in e.values:
                xv = self.vec_of(x)
                d1 |= xv[0]
                d2 |= xv[1] | xv[2]
            return (frozenset({FRESH}), frozenset(d1 or {FRESH}), frozenset(d2 or d1 or {FRESH}))
        if isinstance(e, (ast.ListComp, ast.SetComp, ast.GeneratorExp)):
            xv = self.vec_of(e.elt)
            return (frozenset({FRESH}), xv[0], xv[1] | xv[2])
        if isinstance(e, ast.DictComp):
            xv = self.vec_of(e.value)
            return (frozenset({FRESH}), xv[0], xv[1] | xv[2])
        if isinstance(e, ast.IfExp):
            return vjoin(self.vec_of(e.body), self.vec_of(e.orelse))
        if isinstance(e, ast.BinOp):
            return self.binop_vec(e.op, e.left, e.right)
        if isinstance(e, ast.Call):
            return self.call_vec(e)
        if isinstance(e, ast.Await):
            return self.vec_of(e.value)
        return vec({("u", "expr " + norm(e)[:40])})

    def binop_vec(self, op: ast.AST, l: ast.AST, r: ast.AST, aug: bool = False) -> Vec:
        lt = self.type_of(l)
        if aug:
            # in-place only for objects that define the in-place operator: lists, dicts, sets, ndarrays
            if lt is not None:
                m = self.prog.resolve_method(lt, {ast.Add: "__iadd__", ast.Sub: "__isub__", ast.BitOr: "__ior__", ast.BitAnd: "__iand__", ast.Mult: "__imul__"}.get(type(op), "__inone__"))
                if m is None:
                    lv, rv = self.vec_of(l), self.vec_of(r)
                    return (frozenset({FRESH}), lv[1] | rv[1], lv[2] | rv[2])
        lv, rv = self.vec_of(l), self.vec_of(r)
        if aug:
            return (lv[0], lv[1] | rv[1] | rv[0], lv[2] | rv[2])
        return (frozenset({FRESH}), lv[1] | rv[1], lv[2] | rv[2])

    # -- calls
    def resolve_call(self, e: ast.Call) -> Tuple[List[FuncInfo], Optional[ast.AST], str]:
        """-> (candidate callees, receiver expression or None, kind)"""
        f = e.func
        if isinstance(f, ast.Name):
            r = self.prog.resolve_name(self.fi.module, f.id)
            if r is not None:
                if r.__class__.__name__ == "FuncInfo":
                    return [r], None, "func"
                if r.__class__.__name__ == "ClassInfo":
                    return [], None, "class:" + r.name
            return [], None, "ext:" + f.id
        if isinstance(f, ast.Call) and isinstance(f.func, ast.Name) and f.func.id == "type" and len(f.args) == 1:
            t = self.type_of(f.args[0])
            return [], None, "class:" + (t or "?")
        if isinstance(f, ast.Attribute):
            base = f.value
            if isinstance(base, ast.Call) and isinstance(base.func, ast.Name) and base.func.id == "super" and self.fi.cls is not None:
                m = self.prog.resolve_super(self.fi.cls.name, f.attr)
                if m is not None:
                    return [m], ast.Name(id=self.params[0], ctx=ast.Load()), "method"
            if isinstance(base, ast.Name) and base.id in self.prog.classes:
                m = self.prog.resolve_method(base.id, f.attr)
                if m is not None:
                    return [m], None, "static" if m.kind == "static" else "unbound"
            if isinstance(base, ast.Subscript) and isinstance(base.value, ast.Attribute) and base.value.attr == "TACTICS":
                ci = self.prog.classes.get("PolyhedralTermList")
                return self._tactics(ci), None, "static"
            # module-qualified
            bt = norm(base)
            r = self.prog.resolve_name(self.fi.module, bt.split(".")[0]) if "." not in bt else None
            if r is not None and r.__class__.__name__ == "ModInfo":
                rr = self.prog.resolve_dotted(r.name + "." + f.attr)
                if rr is not None and rr.__class__.__name__ == "FuncInfo":
                    return [rr], None, "func"
                if rr is not None and rr.__class__.__name__ == "ClassInfo":
                    return [], None, "class:" + rr.name
                return [], None, "ext:" + bt + "." + f.attr
            rt = self.type_of(base)
            if rt is not None:
                ms = []
                m = self.prog.resolve_method(rt, f.attr)
                if m is not None:
                    ms.append(m)
                for sc in self.prog.subclasses(rt):
                    mm = sc.methods.get(f.attr)
                    if mm is not None and mm not in ms:
                        ms.append(mm)
                if ms:
                    return ms, base, "method"
            # external module function?  np.xxx, json.xxx ...
            root = base
            while isinstance(root, ast.Attribute):
                root = root.value
            if isinstance(root, ast.Name) and root.id in self.fi.module.imports and root.id not in self.params and root.id not in self.defs:
                tgt = self.fi.module.imports[root.id]
                if not tgt.startswith("pacti"):
                    return [], None, "ext:" + norm(f)
            return [], base, "meth:" + f.attr
        if isinstance(f, ast.Subscript) and isinstance(f.value, ast.Attribute) and f.value.attr == "TACTICS":
            return self._tactics(self.prog.classes.get("PolyhedralTermList")), None, "static"
        return [], None, "?"

    def _tactics(self, ci: Optional[ClassInfo]) -> List[FuncInfo]:
        out: List[FuncInfo] = []
        if ci is None:
            return out
        d = ci.class_assigns.get("TACTICS")
        if isinstance(d, ast.Dict):
            for v in d.values:
                if isinstance(v, ast.Attribute) and isinstance(v.value, ast.Name) and v.value.id in ci.methods:
                    out.append(ci.methods[v.value.id])
                elif isinstance(v, ast.Lambda):
                    for lf in self.prog.lambdas:
                        if lf.node is v:
                            out.append(lf)
        return out

    def bind_args(self, e: ast.Call, c: FuncInfo, recv: Optional[ast.AST], kind: str) -> Dict[str, Vec]:
        a = c.node.args
        params = [x.arg for x in list(a.posonlyargs) + list(a.args)]
        out: Dict[str, Vec] = {}
        pos = list(e.args)
        if kind == "method" and c.kind in ("method", "property") and recv is not None:
            out[params[0]] = self.vec_of(recv)
            params = params[1:]
        elif kind == "ctor":
            params = params[1:]
        elif kind == "unbound" and c.kind in ("method",):
            pass
        elif kind == "method" and c.kind == "static":
            pass
        for p, x in zip(params, pos):
            out[p] = self.vec_of(x)
        for k in e.keywords:
            if k.arg:
                out[k.arg] = self.vec_of(k.value)
        return out

    def inst(self, origins: FrozenSet[Origin], args: Dict[str, Vec], c: FuncInfo) -> Set[Origin]:
        out: Set[Origin] = set()
        for o in origins:
            if o[0] == "p":
                av = args.get(o[1])
                if av is None:
                    # default value / missing: default objects are shared module-level state if mutable
                    d = c.defaults().get(o[1])
                    if d is not None and not isinstance(d, ast.Constant):
                        out.add(("g", "default of %s.%s" % (c.key, o[1])))
                    else:
                        out.add(FRESH)
                else:
                    out |= av[min(o[2], 2)]
            else:
                out.add(o)
        return out

    def inst_vec(self, v: Vec, args: Dict[str, Vec], c: FuncInfo) -> Vec:
        return (frozenset(self.inst(v[0], args, c)), frozenset(self.inst(v[1], args, c)), frozenset(self.inst(v[2], args, c)))

    def ctor_vec(self, cname: str, e: ast.Call) -> Vec:
        ci = self.prog.classes.get(cname)
        if ci is None:
            return VFRESH
        init = self.prog.resolve_method(cname, "__init__")
        if init is None:
            # dataclass: fields are the arguments themselves
            d1: Set[Origin] = set()
            d2: Set[Origin] = set()
            for x in list(e.args) + [k.value for k in e.keywords]:
                xv = self.vec_of(x)
                d1 |= xv[0]
                d2 |= xv[1] | xv[2]
            return (frozenset({FRESH}), frozenset(d1 or {FRESH}), frozenset(d2 or d1 or {FRESH}))
        args = self.bind_args(e, init, None, "ctor")
        s = self.eff.summ[init.key]
        d1 = set()
        d2 = set()
        for _attr, v in s.attr_store.items():
            iv = self.inst_vec(v, args, init)
            d1 |= iv[0]
            d2 |= iv[1] | iv[2]
        return (frozenset({FRESH}), frozenset(d1 or {FRESH}), frozenset(d2 or d1 or {FRESH}))

    def call_items(self, e: ast.Call) -> Optional[List[Vec]]:
        cands, recv, kind = self.resolve_call(e)
        if not cands or kind.startswith("class:"):
            return None
        out: Optional[List[Vec]] = None
        for c in cands:
            items = self.eff.summ[c.key].ret_items
            if items is None:
                return None
            args = self.bind_args(e, c, recv, kind)
            inst = [self.inst_vec(it, args, c) for it in items]
            if out is None:
                out = inst
            elif len(out) != len(inst):
                return None
            else:
                out = [vjoin(a, b) for a, b in zip(out, inst)]
        return out

    def call_item_vec(self, e: ast.Call, i: int, n: int) -> Vec:
        cands, recv, kind = self.resolve_call(e)
        if cands and not kind.startswith("class:"):
            out = vec(set())
            okall = True
            for c in cands:
                items = self.eff.summ[c.key].ret_items
                if items is None or len(items) != n:
                    okall = False
                    break
                args = self.bind_args(e, c, recv, kind)
                out = vjoin(out, self.inst_vec(items[i], args, c))
            if okall and out[0]:
                return out
        return down(self.call_vec(e))

    def call_vec(self, e: ast.Call) -> Vec:
        cands, recv, kind = self.resolve_call(e)
        if kind.startswith("class:"):
            return self.ctor_vec(kind[6:], e)
        if cands:
            out = vec(set())
            for c in cands:
                args = self.bind_args(e, c, recv, kind)
                out = vjoin(out, self.inst_vec(self.eff.summ[c.key].ret, args, c))
            if not out[0]:
                out = VFRESH  # bottom (recursion not yet resolved) : treated as fresh, refined by the fixpoint
            return out
        if kind.startswith("ext:"):
            name = kind[4:]
            short = name.split(".")[-1]
            if name in DEEP_FRESH_CALLS or short in DEEP_FRESH_CALLS or name.startswith(("np.", "numpy.", "sympy.", "pp.", "json.", "logging.", "os.", "plt.", "math.")):
                return VFRESH
            if name in SHALLOW_CALLS or short in SHALLOW_CALLS:
                if e.args:
                    xv = self.vec_of(e.args[0])
                    return (frozenset({FRESH}), xv[1], xv[2])
                return VFRESH
            if short in ITER_WRAPPERS:
                d = set()
                for x in e.args:
                    d |= self.vec_of(x)[1]
                return (frozenset({FRESH}), frozenset({FRESH}), frozenset(d or {FRESH}))
            if short == "reduce" and len(e.args) >= 2:
                # functools.reduce(f, seq[, init]) : the result is what f returns
                fv = self.vec_of(e.args[0])
                r = VFRESH
                if isinstance(e.args[0], ast.Attribute):
                    cs, _r, _k = self.resolve_call(ast.Call(func=e.args[0], args=[], keywords=[]))
                    for c in cs:
                        r = vjoin(r, self.inst_vec(self.eff.summ[c.key].ret, {}, c))
                return r
            if short == "cast" and len(e.args) == 2:
                return self.vec_of(e.args[1])
            return VFRESH
        if kind.startswith("meth:"):
            m = kind[5:]
            rv = self.vec_of(recv)
            if m in ("copy",):
                # unknown receiver type: the weakest guarantee of a copy() is a new container with shared components
                return (frozenset({FRESH}), rv[1], rv[2])
            if m in ("items",):
                return (frozenset({FRESH}), frozenset({FRESH}), rv[1])
            if m in ("keys", "values"):
                return (frozenset({FRESH}), rv[1], rv[2])
            if m in ("get", "pop", "setdefault", "__getitem__"):
                return down(rv)
            if m in ("index", "count", "startswith", "endswith", "join", "format", "split", "strip", "lower", "upper", "as_coefficients_dict", "asList", "as_list", "parse_string", "parseString"):
                return VFRESH
            if m in MUTATING_METHODS:
                return VFRESH
            # a method of an unknown object: candidates by name across the package
            cs = self.eff.byname.get(m, [])
            if cs:
                out = vec(set())
                for c in cs:
                    args = self.bind_args(e, c, recv, "method")
                    out = vjoin(out, self.inst_vec(self.eff.summ[c.key].ret, args, c))
                return out if out[0] else VFRESH
            return VFRESH
        return VFRESH

    # -- mutation sites
    def run(self) -> FnSummary:
        s = FnSummary()
        for st in self.body:
            for n in ast.walk(st):
                self._site(n, s)
        # returns
        rv = vec(set())
        if isinstance(self.node, ast.Lambda):
            rv = self.vec_of(self.node.body)
        else:
            for n in ast.walk(self.node):
                if isinstance(n, ast.Return) and n.value is not None and self._own(n):
                    rv = vjoin(rv, self.vec_of(n.value))
        if not isinstance(self.node, ast.Lambda):
            rets = [n for n in ast.walk(self.node) if isinstance(n, ast.Return) and n.value is not None]
            per_ret: List[Optional[List[Vec]]] = []
            for r in rets:
                if isinstance(r.value, ast.Tuple):
                    per_ret.append([self.vec_of(x) for x in r.value.elts])
                elif isinstance(r.value, ast.Call):
                    per_ret.append(self.call_items(r.value))
                else:
                    per_ret.append(None)
            if per_ret and all(x is not None for x in per_ret) and len({len(x) for x in per_ret}) == 1:
                k = len(per_ret[0])
                items = [vec(set()) for _ in range(k)]
                for x in per_ret:
                    for i in range(k):
                        items[i] = vjoin(items[i], x[i])
                s.ret_items = [it if it[0] else VFRESH for it in items]
        if not rv[0]:
            rv = VFRESH
        if not isinstance(self.node, ast.Lambda) and self.eff.ann_immutable(self.node.returns):
            rv = VFRESH  # immutable results cannot alias mutable state
        s.ret = rv
        # attribute stores on self (constructors)
        if self.fi.cls is not None and self.fi.name in ("__init__", "__post_init__") and self.params:
            me = self.params[0]
            for n in ast.walk(self.node):
                tg = None
                if isinstance(n, ast.Assign):
                    tg, val = n.targets[0], n.value
                elif isinstance(n, ast.AnnAssign) and n.value is not None:
                    tg, val = n.target, n.value
                if tg is not None and isinstance(tg, ast.Attribute) and isinstance(tg.value, ast.Name) and tg.value.id == me:
                    v = self.vec_of(val)
                    s.attr_store[tg.attr] = vjoin(s.attr_store.get(tg.attr, vec(set())), v)
        return s

    def _own(self, n: ast.AST) -> bool:
        return True

    def _record(self, s: FnSummary, node: ast.AST, what: str, target: ast.AST, via: str = "") -> None:
        tv = self.vec_of(target)
        origins = tv[0]
        self.sites.append(Site(self.fi, node, what, target, origins, via))
        for o in origins:
            if o[0] == "p":
                s.mut.add((o[1], o[2]))
            elif o[0] == "g":
                s.mut_globals.add(o[1])

    def _site(self, n: ast.AST, s: FnSummary) -> None:
        if isinstance(n, (ast.Assign, ast.AnnAssign, ast.AugAssign, ast.Delete)):
            tgts = n.targets if isinstance(n, (ast.Assign, ast.Delete)) else [n.target]
            for t in tgts:
                for tt in (t.elts if isinstance(t, (ast.Tuple, ast.List)) else [t]):
                    if isinstance(tt, (ast.Attribute, ast.Subscript)):
                        if isinstance(n, ast.AnnAssign) and n.value is None:
                            continue
                        self._record(s, n, "store through %s" % ("attribute" if isinstance(tt, ast.Attribute) else "subscript"), tt.value)
                    elif isinstance(tt, ast.Name) and isinstance(n, ast.AugAssign):
                        # in place for containers; TermList / numbers rebind
                        lt = self.type_of(tt)
                        if lt is not None:
                            continue  # internal classes define no in-place operators (checked in binop_vec)
                        tv = self.name_vec(tt.id)
                        if tv[0] - {FRESH}:
                            # the name may be bound to a non-fresh object: in place only if that object is a container
                            if self._maybe_container(tt.id):
                                self._record(s, n, "in-place operator", tt)
        elif isinstance(n, ast.Call):
            f = n.func
            if isinstance(f, ast.Attribute) and f.attr in MUTATING_METHODS:
                cands, recv, kind = self.resolve_call(n)
                internal = self.eff.byname.get(f.attr, [])
                if kind.startswith("meth:") and internal and f.attr not in ("append", "extend", "insert", "remove", "pop", "clear", "sort", "reverse", "update"):
                    # e.g. `.add(...)`: a pure method of the parser's data classes, not set.add - use their summaries
                    for c in internal:
                        cs = self.eff.summ[c.key]
                        args = self.bind_args(n, c, recv, "method")
                        for (p_, k_) in cs.mut:
                            av = args.get(p_)
                            if av is not None:
                                origins = av[min(k_, 2)]
                                self.sites.append(Site(self.fi, n, "call of %s, which mutates '%s'" % (c.key, p_), n, origins, via=c.key))
                                for o in origins:
                                    if o[0] == "p":
                                        s.mut.add((o[1], o[2]))
                                    elif o[0] == "g":
                                        s.mut_globals.add(o[1])
                elif not cands or kind.startswith("meth:"):
                    self._record(s, n, "call of .%s()" % f.attr, f.value)
            # callee effects
            cands, recv, kind = self.resolve_call(n)
            if kind.startswith("class:"):
                init = self.prog.resolve_method(kind[6:], "__init__")
                if init is not None:
                    cands, kind = [init], "ctor"
            for c in cands:
                cs = self.eff.summ[c.key]
                if not cs.mut and not cs.mut_globals:
                    continue
                args = self.bind_args(n, c, recv, kind)
                for (p, k) in cs.mut:
                    if kind == "ctor" and p == c.params[0]:
                        continue  # the constructor initialises its own fresh object
                    av = args.get(p)
                    if av is None:
                        continue
                    origins = av[min(k, 2)]
                    self.sites.append(Site(self.fi, n, "call of %s, which mutates its argument '%s'%s" % (c.key, p, "" if k == 0 else " (component)"), n, origins, via=c.key))
                    for o in origins:
                        if o[0] == "p":
                            s.mut.add((o[1], o[2]))
                        elif o[0] == "g":
                            s.mut_globals.add(o[1])
                for g in cs.mut_globals:
                    s.mut_globals.add(g)

    def _maybe_container(self, name: str) -> bool:
        for how, e in self.defs.get(name, []):
            if how == "val" and isinstance(e, (ast.Constant, ast.UnaryOp, ast.Compare)):
                continue
            if how == "val" and isinstance(e, ast.BinOp):
                continue
            if how == "aug":
                continue
            return True
        return name in self.params and not self.eff.ann_immutable(self.param_ann.get(name))
