"""Abstract interpreter for the algebra layer (iocontract.py and its thin polyhedral wrappers).

It walks the syntax tree of a method along every control-flow path (forking on
conditions it cannot decide, on the outcome of every TermList primitive call and
on `refines` answers) with these abstract values:

  TL   - a provenance node (pv.prov) standing for a constraint list
  VS   - a membership truth table (pv.sets) standing for a list of variables
  Obj  - a contract object with fields a, g, inputvars, outputvars
  Cond - a Boolean condition over E-atoms / opaque atoms
  Opaque - anything else (strings, numbers, option lists)

No code of /repo is executed: the interpreter only reads `ast` nodes and never
evaluates a Python expression concretely (constants excepted).
"""
from __future__ import annotations

import ast
from typing import Any, Callable, Dict, List, Optional, Tuple

from .cfg import ExcTable, exc_class_of, handler_classes
from .loader import AnalysisError, FuncInfo, Program, norm
from .prov import Prov
from .sets import (
    FALSE,
    ONES,
    TRUE,
    Atoms,
    c_and,
    c_not,
    c_or,
    c_show,
    implies,
    neg,
    satisfiable,
)

TL_PRIMS = {
    "elim_vars_by_refining": ["context", "vars_to_elim", "simplify", "tactics_order"],
    "elim_vars_by_relaxing": ["context", "vars_to_elim", "simplify", "tactics_order"],
    "simplify": ["context"],
    "refines": ["other"],
    "get_terms_with_vars": ["variable_list"],
    "rename_variable": ["source_var", "target_var"],
    "copy": [],
    "is_empty": [],
}


# ------------------------------------------------------------------ values
class TL:
    __slots__ = ("n",)

    def __init__(self, n: int):
        self.n = n


class VS:
    """A list of variables: membership truth table + 'provably duplicate-free' flag."""

    __slots__ = ("tt", "nodup")

    def __init__(self, tt: int, nodup: bool = False):
        self.tt = tt
        self.nodup = nodup


class VarV:
    """A single variable; tt is the (singleton) membership atom 'v is this variable'."""

    __slots__ = ("tt", "name")

    def __init__(self, tt: int, name: str):
        self.tt = tt
        self.name = name


class ElemV:
    """The generic element of a variable list inside a loop over it: tt = the membership classes it may belong to.
    Conditions on it are per-element (they split tt), not path conditions."""

    __slots__ = ("tt", "nodup")

    def __init__(self, tt: int, nodup: bool):
        self.tt = tt
        self.nodup = nodup


class ElemCond:
    """A per-element condition: the classes (rows) for which it is true."""

    __slots__ = ("mask",)

    def __init__(self, mask: int):
        self.mask = mask


class _ElemSkip(Exception):
    pass


class Cond:
    __slots__ = ("c",)

    def __init__(self, c):
        self.c = c


class Obj:
    def __init__(self, cls: str):
        self.cls = cls
        self.fields: Dict[str, Any] = {}


class Opaque:
    __slots__ = ("tag",)

    def __init__(self, tag: str):
        self.tag = tag

    def __repr__(self) -> str:
        return "Opaque(%s)" % self.tag


class OpaqueNN(Opaque):
    """An opaque value known not to be None."""


class StrV(OpaqueNN):
    """A piece of text: never None; whatever is computed from it with %, + or its own methods is text again."""

    def __init__(self):
        Opaque.__init__(self, "str")


class SetOf(OpaqueNN):
    """set(X) of a variable list X: only its size relative to X is ever asked (duplicate test)."""

    __slots__ = ("vs", "text")

    def __init__(self, vs: Any, text: str):
        Opaque.__init__(self, "set")
        self.vs = vs
        self.text = text


class LenV(OpaqueNN):
    """len(X) of a variable list or of set(X): compared only with the other one (duplicate test)."""

    __slots__ = ("of", "text")

    def __init__(self, of: Any, text: str):
        Opaque.__init__(self, "len")
        self.of = of
        self.text = text


class IndexV(OpaqueNN):
    """X.index(v): the position of a variable in a variable list, used only to store another variable there."""

    __slots__ = ("vs", "var")

    def __init__(self, vs: Any, var: Any):
        Opaque.__init__(self, "int")
        self.vs = vs
        self.var = var


class NoneV:
    pass


class TupleV:
    def __init__(self, items: List[Any]):
        self.items = items


class ListV:
    """A Python list we do not look into (tactics_used) - items recorded only."""

    def __init__(self, items: Optional[List[Any]] = None):
        self.items = items or []


class TypeV:
    def __init__(self, cls: str):
        self.cls = cls


NONE = NoneV()


# ----------------------------------------------------------------- signals
class ReturnSig(Exception):
    def __init__(self, value):
        self.value = value


class RaiseSig(Exception):
    def __init__(self, cls: str, node: Optional[ast.AST], func: str, implicit: bool = False):
        self.cls = cls
        self.node = node
        self.func = func
        self.implicit = implicit


class Infeasible(Exception):
    pass


class Run:
    def __init__(self, prefix: List[int]):
        self.prefix = list(prefix)
        self.trace: List[Tuple[int, int, str]] = []

    def choose(self, n: int, tag: str) -> int:
        i = len(self.trace)
        c = self.prefix[i] if i < len(self.prefix) else 0
        self.trace.append((n, c, tag))
        return c


class Path:
    """The result of one explored path."""

    def __init__(self):
        self.terminal = ""  # return | raise
        self.value = None
        self.exc: Optional[RaiseSig] = None
        self.conds: List = []
        self.allowed = ONES
        self.events: List[dict] = []
        self.prov: Optional[Prov] = None
        self.atoms: Optional[Atoms] = None
        self.trace: List = []
        self.extra_rules: List = []
        self.unknowns: List[str] = []
        self.ctor_calls: List[dict] = []
        self.mutations: List[dict] = []
        self.s_table: Dict[int, str] = {}

    def sets(self) -> Dict[str, str]:
        return {name: self.atoms.describe(tt, self.allowed) for tt, name in self.s_table.items()}

    def decisions(self) -> str:
        return ", ".join("%s=%s" % (t, c) for (_n, c, t) in self.trace)


class Interp:
    def __init__(self, prog: Program, run: Run, max_depth: int = 10):
        self.prog = prog
        self.run = run
        self.exc = ExcTable(prog)
        self.atoms = Atoms()
        self.prov = Prov()
        self.allowed = ONES
        self.conds: List = []
        self.events: List[dict] = []
        self.extra_rules: List = []
        self.unknowns: List[str] = []
        self.ctor_calls: List[dict] = []
        self.mutations: List[dict] = []
        self.depth = 0
        self.vs_names: Dict[int, Any] = {}
        self.max_depth = max_depth
        self.func_stack: List[FuncInfo] = []
        self.opaque_vars: Dict[str, Any] = {}
        self.rename_tts: Dict[int, Tuple[int, int]] = {}
        self.s_table: Dict[int, str] = {}
        self.fresh = 0
        # hooks
        self.relax_drops_elim = False  # polyhedral fact (tail of elim_vars_by_relaxing), set by callers that may rely on it

    # ---------------------------------------------------------------- leafs
    def leaf(self, name: str) -> TL:
        return TL(self.prov.mk("leaf", name))

    def vs_atom(self, name: str) -> VS:
        return VS(self.atoms.atom(name))

    def vars_of(self, t: TL) -> VS:
        node = self.prov.nodes[t.n]
        if node[0] == "leaf":
            return self.vs_atom("v(%s)" % node[1])
        if node[0] == "top":
            return VS(0)
        if node[0] == "union":
            return VS(self.vars_of(TL(node[1])).tt | self.vars_of(TL(node[2])).tt)
        if node[0] == "copy":
            return self.vars_of(TL(node[1]))
        w = self.vs_atom("v(#%d)" % t.n)
        if node[0] in ("simp", "diff", "inter", "with_vars"):
            # a sub-list mentions no new variable
            self.allowed &= neg(w.tt & neg(self.vars_of(TL(node[1])).tt))
        elif node[0] == "rename":
            src, tgt = self.rename_tts.get(t.n, (None, None))
            if src is not None:
                inner = self.vars_of(TL(node[1])).tt
                tgt_part = tgt if (inner & src & self.allowed) else 0  # the target appears only if the source did
                self.allowed &= neg(w.tt & neg((inner & neg(src)) | tgt_part))
        return w

    # ------------------------------------------------------------ conditions
    def simp_cond(self, c):
        k = c[0]
        if k == "E":
            if c[1] & self.allowed == 0:
                return FALSE
            return ("E", c[1] & self.allowed)
        if k == "not":
            return c_not(self.simp_cond(c[1]))
        if k == "and":
            return c_and([self.simp_cond(x) for x in c[1]])
        if k == "or":
            return c_or([self.simp_cond(x) for x in c[1]])
        return c

    def assume(self, c, val: bool = True) -> None:
        if not val:
            c = c_not(c)
        c = self.simp_cond(c)
        k = c[0]
        if k == "const":
            if not c[1]:
                raise Infeasible()
            return
        if k == "and":
            for x in c[1]:
                self.assume(x, True)
            return
        if k == "not" and c[1][0] == "E":
            self.allowed &= neg(c[1][1])
            # earlier recorded conditions may have become false
            self.conds = [self.simp_cond(x) for x in self.conds]
            if any(x == FALSE for x in self.conds):
                raise Infeasible()
            self.conds = [x for x in self.conds if x != TRUE]
        elif k == "not" and c[1][0] == "or":
            for x in c[1][1]:
                self.assume(c_not(x), True)
            return
        else:
            self.conds.append(c)
        if not satisfiable(self.conds, self.allowed):
            raise Infeasible()

    def decide(self, c, tag: str) -> bool:
        c = self.simp_cond(c)
        if c[0] == "const":
            return c[1]
        if implies(self.conds, c, self.allowed):
            return True
        if implies(self.conds, c_not(c), self.allowed):
            return False
        choice = self.run.choose(2, tag)
        val = choice == 0
        self.assume(c, val)
        return val

    def to_cond(self, v, node: Optional[ast.AST] = None):
        """Python truthiness of an abstract value."""
        if isinstance(v, Cond):
            return v.c
        if isinstance(v, VS):
            return ("E", v.tt)
        if isinstance(v, NoneV):
            return FALSE
        if isinstance(v, (Obj, TypeV)):
            return TRUE
        if isinstance(v, ListV):
            return ("const", bool(v.items)) if not getattr(v, "unknown", False) else ("op", "nonempty(list)")
        if isinstance(v, Opaque):
            return ("op", v.tag)
        if isinstance(v, TL):
            # truthiness of a TermList object (no __bool__/__len__): always true
            return TRUE
        if isinstance(v, VarV):
            return TRUE
        if isinstance(v, TupleV):
            return ("const", bool(v.items))
        return ("op", "truth(%s)" % (norm(node) if node is not None else "?"))

    # ------------------------------------------------------------- functions
    def call_function(self, fi: FuncInfo, pos: List[Any], kw: Dict[str, Any], self_val: Any = None, cls_ctx: Optional[str] = None):
        if self.depth >= self.max_depth:
            raise AnalysisError("inlining depth exceeded at %s" % fi.key)
        env: Dict[str, Any] = {}
        params = fi.params
        a = fi.node.args
        pos = list(pos)
        if fi.kind in ("method", "property") and self_val is not None:
            pos = [self_val] + pos
        if len(pos) > len(params):
            raise AnalysisError("too many positional arguments for %s" % fi.key)
        for p, v in zip(params, pos):
            env[p] = v
        for k, v in kw.items():
            if k in env:
                raise AnalysisError("duplicate argument %s for %s" % (k, fi.key))
            env[k] = v
        defaults = fi.defaults()
        for p in params + [x.arg for x in a.kwonlyargs]:
            if p not in env:
                if p in defaults:
                    env[p] = self.eval_const_default(defaults[p])
                else:
                    raise AnalysisError("missing argument %s for %s" % (p, fi.key))
        env["__class_ctx__"] = cls_ctx or (fi.cls.name if fi.cls else None)
        if self.depth == 0:
            # the lists the entry point receives are known by its parameter names wherever they are passed on
            for p, v in env.items():
                if isinstance(v, VS):
                    self.vs_names.setdefault(id(v), (p, v))
        self.depth += 1
        self.func_stack.append(fi)
        try:
            self.exec_block(fi.body, env)
        except ReturnSig as r:
            return r.value
        finally:
            self.depth -= 1
            self.func_stack.pop()
        return NONE

    def vs_name(self, v: Any, text: str) -> str:
        hit = self.vs_names.get(id(v)) if isinstance(v, VS) else None
        return hit[0] if hit is not None and hit[1] is v else text

    def eval_const_default(self, d: ast.AST):
        if isinstance(d, ast.Constant):
            if d.value is None:
                return NONE
            if isinstance(d.value, bool):
                return Cond(("const", d.value))
            return Opaque("const:%r" % (d.value,))
        return Opaque("default:" + norm(d))

    @property
    def cur(self) -> str:
        return self.func_stack[-1].key if self.func_stack else "?"

    # ------------------------------------------------------------ statements
    def exec_block(self, stmts: List[ast.stmt], env: Dict[str, Any]) -> None:
        for s in stmts:
            self.exec_stmt(s, env)

    def exec_stmt(self, s: ast.stmt, env: Dict[str, Any]) -> None:
        if isinstance(s, ast.Expr):
            v = s.value
            if isinstance(v, ast.Constant):
                return  # docstring / ellipsis
            if isinstance(v, ast.Call) and self._is_ignorable_call(v):
                return
            self.eval(v, env)
            return
        if isinstance(s, ast.Assign):
            val = self.eval(s.value, env)
            for t in s.targets:
                self.assign(t, val, env)
            return
        if isinstance(s, ast.AnnAssign):
            if s.value is not None:
                self.assign(s.target, self.eval(s.value, env), env)
            return
        if isinstance(s, ast.AugAssign):
            cur = self.eval(_load(s.target), env)
            rhs = self.eval(s.value, env)
            val = self.binop(s.op, cur, rhs, s)
            self.assign(s.target, val, env)
            return
        if isinstance(s, ast.If):
            c = self.to_cond(self.eval(s.test, env), s.test)
            if self.decide(c, "if %s" % norm(s.test)[:50]):
                self.exec_block(s.body, env)
            else:
                self.exec_block(s.orelse, env)
            return
        if isinstance(s, ast.Return):
            raise ReturnSig(self.eval(s.value, env) if s.value is not None else NONE)
        if isinstance(s, ast.Raise):
            cls = exc_class_of(s.exc)
            if cls is None:
                cls = "?"
            raise RaiseSig(cls, s, self.cur)
        if isinstance(s, ast.Try):
            try:
                self.exec_block(s.body, env)
            except RaiseSig as r:
                for h in s.handlers:
                    hcs = handler_classes(h)
                    if any(self.exc.is_sub(r.cls, hc) for hc in hcs):
                        if h.name:
                            env[h.name] = Opaque("exc")
                        self.events.append({"kind": "caught", "cls": r.cls, "by": hcs, "func": self.cur})
                        self.exec_block(h.body, env)
                        break
                else:
                    raise
            else:
                self.exec_block(s.orelse, env)
            if s.finalbody:
                self.exec_block(s.finalbody, env)
            return
        if isinstance(s, ast.Pass):
            return
        if isinstance(s, ast.With) and len(s.items) == 1 and s.items[0].optional_vars is None and isinstance(s.items[0].context_expr, ast.Call) and norm(s.items[0].context_expr.func) in ("contextlib.suppress", "suppress"):
            # with suppress(E, ...): body   ==   try: body / except (E, ...): pass
            classes = [exc_class_of(a) or "?" for a in s.items[0].context_expr.args]
            try:
                self.exec_block(s.body, env)
            except RaiseSig as r:
                if not any(self.exc.is_sub(r.cls, c) for c in classes):
                    raise
                self.events.append({"kind": "caught", "cls": r.cls, "by": classes, "func": self.cur})
            return
        if isinstance(s, ast.Assert):
            c = self.to_cond(self.eval(s.test, env), s.test)
            if not self.decide(c, "assert %s" % norm(s.test)[:40]):
                raise RaiseSig("AssertionError", s, self.cur)
            return
        if isinstance(s, ast.For):
            it = self.eval(s.iter, env)
            if (isinstance(it, ListV) and not getattr(it, "unknown", False)) or isinstance(it, TupleV):
                for x in it.items:
                    self.assign(s.target, x, env)
                    self.exec_block(s.body, env)
                self.exec_block(s.orelse, env)
                return
            if isinstance(it, VS) and isinstance(s.target, ast.Name) and not s.orelse:
                # a filter loop: the body is run once for the generic element; per-element tests split its classes
                self.exec_elem_block(s.body, env, s.target.id, ElemV(it.tt, it.nodup))
                return
            raise AnalysisError("loop over %s in %s is outside the interpreter's fragment" % (norm(s.iter), self.cur))
        raise AnalysisError("statement %s in %s is outside the interpreter's fragment" % (type(s).__name__, self.cur))

    def exec_elem_block(self, stmts: List[ast.stmt], env: Dict[str, Any], var: str, el: "ElemV") -> None:
        """Run loop-body statements for the generic element `el` (bound to `var`)."""
        if el.tt & self.allowed == 0:
            return
        env[var] = el
        for i, st in enumerate(stmts):
            if isinstance(st, ast.If):
                c = self.eval(st.test, env)
                if isinstance(c, ElemCond):
                    rest = stmts[i + 1:]
                    for mask, body in ((c.mask, st.body), (neg(c.mask), st.orelse)):
                        sub = ElemV(el.tt & mask, el.nodup)
                        if sub.tt & self.allowed == 0:
                            continue
                        try:
                            self.exec_elem_block(list(body) + list(rest), env, var, sub)
                        except _ElemSkip:
                            pass
                    env[var] = el
                    return
                raise AnalysisError("loop over a variable list with a non-membership test in %s" % self.cur)
            if isinstance(st, ast.Continue):
                raise _ElemSkip()
            if isinstance(st, (ast.Break, ast.Return, ast.Raise)):
                raise AnalysisError("loop over a variable list leaves early in %s: outside the filter-loop fragment" % self.cur)
            if isinstance(st, ast.Expr) and isinstance(st.value, ast.Call) and (self._is_ignorable_call(st.value) or (isinstance(st.value.func, ast.Attribute) and st.value.func.attr == "append")):
                self.exec_stmt(st, env)
                continue
            if isinstance(st, ast.Pass) or (isinstance(st, ast.Expr) and isinstance(st.value, ast.Constant)):
                continue
            raise AnalysisError("statement %s in a loop over a variable list in %s is outside the filter-loop fragment" % (type(st).__name__, self.cur))

    def _is_ignorable_call(self, c: ast.Call) -> bool:
        f = c.func
        if isinstance(f, ast.Attribute) and isinstance(f.value, ast.Name) and f.value.id == "logging":
            return True
        if isinstance(f, ast.Name) and f.id == "print":
            return True
        return False

    def assign(self, t: ast.AST, val: Any, env: Dict[str, Any]) -> None:
        if isinstance(t, ast.Name):
            env[t.id] = val
            return
        if isinstance(t, (ast.Tuple, ast.List)):
            if isinstance(val, TupleV) and len(val.items) == len(t.elts):
                for e, v in zip(t.elts, val.items):
                    self.assign(e, v, env)
                return
            raise AnalysisError("cannot unpack %s in %s" % (norm(t), self.cur))
        if isinstance(t, ast.Attribute):
            base = self.eval(t.value, env)
            if isinstance(base, Obj):
                base.fields[t.attr] = val
                self.mutations.append({"obj": base, "attr": t.attr, "func": self.cur, "node": t})
                return
            raise AnalysisError("attribute store on non-object %s in %s" % (norm(t), self.cur))
        if isinstance(t, ast.Subscript):
            # inputvars[inputvars.index(source_var)] = target_var
            base_node = t.value
            base = self.eval(base_node, env)
            if isinstance(base, VS) and isinstance(val, VarV):
                idx = t.slice
                if (
                    isinstance(idx, ast.Call)
                    and isinstance(idx.func, ast.Attribute)
                    and idx.func.attr == "index"
                    and norm(idx.func.value) == norm(base_node)
                    and len(idx.args) == 1
                ):
                    old = self.eval(idx.args[0], env)
                    if isinstance(old, VarV):
                        # in place: every alias of the list object sees the edit (as in Python)
                        nd = base.nodup and (base.tt & val.tt & self.allowed) == 0
                        base.tt = (base.tt & neg(old.tt)) | val.tt
                        base.nodup = nd
                        return
                iv = self.eval(idx, env) if isinstance(idx, ast.Name) else None
                if isinstance(iv, IndexV) and iv.vs is base and isinstance(iv.var, VarV):
                    # position = xs.index(old) ; xs[position] = new   (the index kept in a variable)
                    old = iv.var
                    nd = base.nodup and (base.tt & val.tt & self.allowed) == 0
                    base.tt = (base.tt & neg(old.tt)) | val.tt
                    base.nodup = nd
                    return
            raise AnalysisError("subscript store %s in %s is outside the fragment" % (norm(t), self.cur))
        raise AnalysisError("assignment target %s" % norm(t))

    def _store_back(self, node: ast.AST, val: Any, env: Dict[str, Any]) -> None:
        if isinstance(node, ast.Name):
            env[node.id] = val
            return
        raise AnalysisError("in-place list edit on %s in %s is outside the fragment" % (norm(node), self.cur))

    # ----------------------------------------------------------- expressions
    def eval(self, e: ast.AST, env: Dict[str, Any]) -> Any:
        m = getattr(self, "ev_" + type(e).__name__, None)
        if m is None:
            self.unknowns.append(norm(e))
            return Opaque("expr:" + norm(e))
        return m(e, env)

    def ev_Constant(self, e, env):
        if e.value is None:
            return NONE
        if isinstance(e.value, bool):
            return Cond(("const", e.value))
        if isinstance(e.value, str):
            return StrV()
        return OpaqueNN("const:%r" % (e.value,))

    def ev_Name(self, e, env):
        if e.id in env:
            return env[e.id]
        fi = self.func_stack[-1] if self.func_stack else None
        if fi is not None:
            r = self.prog.resolve_name(fi.module, e.id)
            if r is not None:
                if r.__class__.__name__ == "ClassInfo":
                    return TypeV(r.name)
                return r
            okc, val = self.prog.resolve_constant(fi.module, e.id)
            if okc:
                return StrV() if isinstance(val, str) else OpaqueNN("const:%r" % (val,))
            if e.id in fi.module.assigns:
                return self._global_value(fi.module, e.id)
        return Opaque("name:" + e.id)

    def _global_value(self, mi, name):
        v = mi.assigns.get(name)
        if isinstance(v, (ast.JoinedStr,)) or (isinstance(v, ast.Constant) and isinstance(v.value, str)):
            return StrV()
        return Opaque("global:%s.%s" % (mi.base, name))

    def ev_JoinedStr(self, e, env):
        return StrV()

    def ev_Lambda(self, e, env):
        return Opaque("lambda")

    def ev_Tuple(self, e, env):
        return TupleV([self.eval(x, env) for x in e.elts])

    def ev_List(self, e, env):
        if not e.elts:
            return VS(0, True)
        items = [self.eval(x, env) for x in e.elts]
        if all(isinstance(x, (VarV, ElemV)) for x in items):
            tt = 0
            for x in items:
                tt |= x.tt
            return VS(tt)
        return ListV(items)

    def ev_ListComp(self, e, env):
        # [f(x) for x in XS if conds]  over a VS: a membership filter
        if len(e.generators) != 1:
            return Opaque("listcomp")
        g = e.generators[0]
        it = self.eval(g.iter, env)
        if isinstance(it, VS) and isinstance(g.target, ast.Name):
            var = g.target.id
            tt = it.tt
            for cnd in g.ifs:
                f = self._member_filter(cnd, var, env)
                if f is None:
                    return Opaque("listcomp:" + norm(e))
                tt &= f
            elt = e.elt
            # element must be the variable itself or a Var(...) / str(...) wrapper of it
            if isinstance(elt, ast.Name) and elt.id == var:
                return VS(tt, it.nodup)
            if (
                isinstance(elt, ast.Call)
                and isinstance(elt.func, ast.Name)
                and elt.func.id in ("Var",)
                and len(elt.args) == 1
                and isinstance(elt.args[0], ast.Name)
                and elt.args[0].id == var
            ):
                return VS(tt, it.nodup)
            return Opaque("listcomp:" + norm(e))
        return Opaque("listcomp:" + norm(e))

    def _member_filter(self, cnd: ast.AST, var: str, env) -> Optional[int]:
        if isinstance(cnd, ast.Compare) and len(cnd.ops) == 1 and isinstance(cnd.left, ast.Name) and cnd.left.id == var:
            other = self.eval(cnd.comparators[0], env)
            if isinstance(other, VS):
                if isinstance(cnd.ops[0], ast.In):
                    return other.tt
                if isinstance(cnd.ops[0], ast.NotIn):
                    return neg(other.tt)
        if isinstance(cnd, ast.UnaryOp) and isinstance(cnd.op, ast.Not):
            f = self._member_filter(cnd.operand, var, env)
            return None if f is None else neg(f)
        if isinstance(cnd, ast.Compare) and len(cnd.ops) == 1 and isinstance(cnd.ops[0], (ast.Is, ast.IsNot, ast.Eq, ast.NotEq)):
            # (membership test) is <flag>, the flag being a Boolean the caller passed as a constant
            f = self._member_filter(cnd.left, var, env)
            flag = self.eval(cnd.comparators[0], env)
            if f is not None and isinstance(flag, Cond) and flag.c in (TRUE, FALSE, ("const", True), ("const", False)):
                want = flag.c in (TRUE, ("const", True))
                if isinstance(cnd.ops[0], (ast.IsNot, ast.NotEq)):
                    want = not want
                return f if want else neg(f)
        if isinstance(cnd, ast.BoolOp):
            fs = [self._member_filter(v, var, env) for v in cnd.values]
            if any(f is None for f in fs):
                return None
            r = fs[0]
            for f in fs[1:]:
                r = (r & f) if isinstance(cnd.op, ast.And) else (r | f)
            return r
        return None

    def ev_Lambda(self, e, env):
        return ("lambda", e, dict(env))  # a function value with the variables it can see

    def ev_NamedExpr(self, e, env):
        v = self.eval(e.value, env)
        if isinstance(e.target, ast.Name):
            env[e.target.id] = v  # (name := value) binds in the enclosing function
        return v

    def ev_IfExp(self, e, env):
        c = self.to_cond(self.eval(e.test, env), e.test)
        if self.decide(c, "ifexp %s" % norm(e.test)[:40]):
            return self.eval(e.body, env)
        return self.eval(e.orelse, env)

    def ev_UnaryOp(self, e, env):
        v = self.eval(e.operand, env)
        if isinstance(e.op, ast.Not):
            if isinstance(v, ElemCond):
                return ElemCond(neg(v.mask))
            return Cond(c_not(self.to_cond(v, e.operand)))
        return Opaque("unary")

    def ev_BoolOp(self, e, env):
        # short-circuit semantics only matter for side effects; conditions here are pure
        vals = [self.eval(v, env) for v in e.values]
        if vals and all(isinstance(v, ElemCond) for v in vals):
            m = vals[0].mask
            for v in vals[1:]:
                m = (m & v.mask) if isinstance(e.op, ast.And) else (m | v.mask)
            return ElemCond(m)
        if vals and not all(isinstance(v, (Cond, ElemCond)) for v in vals) and any(isinstance(v, (VS, TL, Obj, NoneV, ListV, TupleV, VarV)) for v in vals):
            # `a or b` / `a and b` used for its VALUE (a default: `xs = xs or []`): the first operand that decides
            return self._bool_value(e, vals)
        cs = [self.to_cond(v, n) for v, n in zip(vals, e.values)]
        if isinstance(e.op, ast.And):
            return Cond(c_and(cs))
        return Cond(c_or(cs))

    def _bool_value(self, e, vals):
        is_or = isinstance(e.op, ast.Or)
        for k, (v, n) in enumerate(zip(vals[:-1], e.values[:-1])):
            nxt = vals[k + 1]
            if is_or and isinstance(v, VS) and isinstance(nxt, VS) and nxt.tt == 0 and k + 2 == len(vals):
                return v  # `xs or []`: xs when it has members, an empty list (which is what xs then is) otherwise
            c = self.to_cond(v, n)
            if self.decide(c, "%s %s" % ("or" if is_or else "and", norm(n)[:40])) == is_or:
                return v
        return vals[-1]

    def ev_BinOp(self, e, env):
        l = self.eval(e.left, env)
        r = self.eval(e.right, env)
        return self.binop(e.op, l, r, e)

    def binop(self, op: ast.AST, l: Any, r: Any, node: ast.AST) -> Any:
        if isinstance(l, TL) and isinstance(r, TL):
            name = {ast.BitOr: "__or__", ast.Sub: "__sub__", ast.BitAnd: "__and__"}.get(type(op))
            if name is None:
                raise AnalysisError("operator %s on constraint lists in %s" % (type(op).__name__, self.cur))
            kind = self.tl_operator(name)
            self.events.append({"kind": "tlop", "op": kind, "args": [l.n, r.n], "func": self.cur})
            if kind == "left":
                return TL(self.prov.mk("copy", l.n))
            if kind == "right":
                return TL(self.prov.mk("copy", r.n))
            if kind == "rdiff":
                return TL(self.prov.mk("diff", r.n, l.n))
            return TL(self.prov.mk(kind, l.n, r.n))
        if isinstance(l, VS) and isinstance(r, VS) and isinstance(op, ast.Add):
            # list concatenation: membership is the union; duplicate-free if both are and they are disjoint
            return VS(l.tt | r.tt, l.nodup and r.nodup and (l.tt & r.tt & self.allowed) == 0)
        if isinstance(l, Cond) and isinstance(r, Cond):
            if isinstance(op, ast.BitAnd):
                return Cond(c_and([l.c, r.c]))
            if isinstance(op, ast.BitOr):
                return Cond(c_or([l.c, r.c]))
        if isinstance(l, StrV) or isinstance(r, StrV):
            return StrV()
        if isinstance(op, ast.Mod) or isinstance(op, ast.Add):
            return OpaqueNN("str")  # text or a number: whatever % and + give, it is not None
        return Opaque("binop:" + norm(node))

    _tlop_cache: Dict[Tuple[str, str], str] = {}

    def tl_operator(self, name: str) -> str:
        """What TermList.__or__/__sub__/__and__ do to the *set of terms*, derived from their source."""
        from .tlops import summarise_tl_operator  # late import

        return summarise_tl_operator(self.prog, name)

    def ev_Compare(self, e, env):
        if len(e.ops) != 1:
            return Opaque("cmp")
        op = e.ops[0]
        ln, rn = e.left, e.comparators[0]
        # a length kept in a variable compared with the length of the set kept in another (possibly in a helper
        # that sees the list under another name): the duplicate test of the list the caller passed
        def _lenlike(n_):
            if isinstance(n_, ast.Name):
                return isinstance(env.get(n_.id), LenV)
            if isinstance(n_, ast.Call) and isinstance(n_.func, ast.Name) and n_.func.id == "len" and len(n_.args) == 1 and not n_.keywords:
                a_ = n_.args[0]
                return isinstance(a_, ast.Name) and isinstance(env.get(a_.id), (VS, SetOf))
            return False

        if _lenlike(ln) and _lenlike(rn) and (isinstance(ln, ast.Name) or isinstance(rn, ast.Name)):
            lv, rv = self.eval(ln, env), self.eval(rn, env)
            if isinstance(lv, LenV) and isinstance(rv, LenV):
                whole, uniq = (lv, rv) if isinstance(lv.of, VS) else (rv, lv)
                if isinstance(whole.of, VS) and isinstance(uniq.of, SetOf) and uniq.of.vs is whole.of:
                    c = ("op", "has_duplicates(%s)" % self.vs_name(whole.of, whole.text))
                    if whole.of.nodup:
                        c = FALSE
                    swapped = whole is rv
                    more = (ast.Lt if swapped else ast.Gt)
                    if isinstance(op, (ast.NotEq, more)):
                        return Cond(c)
                    if isinstance(op, ast.Eq) or isinstance(op, (ast.GtE if swapped else ast.LtE)):
                        return Cond(c_not(c))
        # len(X) <op> <int const>  /  len(X) != len(set(X))
        if isinstance(ln, ast.Call) and isinstance(ln.func, ast.Name) and ln.func.id == "len" and len(ln.args) == 1:
            if (
                isinstance(rn, ast.Call)
                and isinstance(rn.func, ast.Name)
                and rn.func.id == "len"
                and len(rn.args) == 1
                and isinstance(rn.args[0], ast.Call)
                and isinstance(rn.args[0].func, ast.Name)
                and rn.args[0].func.id == "set"
                and norm(rn.args[0].args[0]) == norm(ln.args[0])
            ):
                xv = self.eval(ln.args[0], env)
                c = ("op", "has_duplicates(%s)" % self.vs_name(xv, norm(ln.args[0])))
                if isinstance(xv, VS) and xv.nodup:
                    c = FALSE
                if isinstance(op, ast.NotEq) or isinstance(op, ast.Gt):
                    return Cond(c)
                if isinstance(op, ast.Eq):
                    return Cond(c_not(c))
            x = self.eval(ln.args[0], env)
            # len(X) <op> len(S) where S was bound earlier to set(X)
            if isinstance(x, VS) and isinstance(rn, ast.Call) and isinstance(rn.func, ast.Name) and rn.func.id == "len" and len(rn.args) == 1:
                y = self.eval(rn.args[0], env)
                if isinstance(y, SetOf) and (y.vs is x or y.text == norm(ln.args[0])):
                    c = ("op", "has_duplicates(%s)" % self.vs_name(x, y.text))
                    if x.nodup:
                        c = FALSE
                    if isinstance(op, (ast.NotEq, ast.Gt)):
                        return Cond(c)
                    if isinstance(op, ast.Eq):
                        return Cond(c_not(c))
            if isinstance(x, VS) and isinstance(rn, ast.Constant) and isinstance(rn.value, int):
                k = rn.value
                ex = ("E", x.tt)
                if (isinstance(op, ast.Gt) and k == 0) or (isinstance(op, ast.GtE) and k == 1) or (isinstance(op, ast.NotEq) and k == 0):
                    return Cond(ex)
                if (isinstance(op, ast.Eq) and k == 0) or (isinstance(op, ast.Lt) and k == 1) or (isinstance(op, ast.LtE) and k == 0):
                    return Cond(c_not(ex))
            return Cond(("op", "cmp(%s)" % norm(e)))
        l = self.eval(ln, env)
        r = self.eval(rn, env)
        if isinstance(op, (ast.Is, ast.IsNot, ast.Eq, ast.NotEq)) and isinstance(l, Cond) and isinstance(r, Cond):
            # two truth values compared: they agree, or they differ
            same = c_or([c_and([l.c, r.c]), c_and([c_not(l.c), c_not(r.c)])])
            return Cond(same if isinstance(op, (ast.Is, ast.Eq)) else c_not(same))
        if isinstance(op, (ast.Is, ast.IsNot)):
            if isinstance(r, NoneV):
                if isinstance(l, NoneV):
                    res = TRUE
                elif isinstance(l, (VS, TL, Obj, VarV, ListV, Cond, OpaqueNN)):
                    res = FALSE
                else:
                    res = ("op", "%s is None" % norm(ln))
                return Cond(res if isinstance(op, ast.Is) else c_not(res))
            return Cond(("op", norm(e)))
        if isinstance(op, (ast.In, ast.NotIn)):
            if isinstance(l, ElemV) and isinstance(r, VS):
                return ElemCond(r.tt if isinstance(op, ast.In) else neg(r.tt))
            if isinstance(l, VarV) and isinstance(r, VS):
                c = ("E", l.tt & r.tt)
                return Cond(c if isinstance(op, ast.In) else c_not(c))
            return Cond(("op", norm(e)))
        if isinstance(op, (ast.Eq, ast.NotEq)):
            if isinstance(l, VarV) and isinstance(r, VarV):
                c = ("E", l.tt & r.tt)
                return Cond(c if isinstance(op, ast.Eq) else c_not(c))
            if isinstance(l, VS) and isinstance(r, VS):
                # list equality is order sensitive; as a membership fact it implies set equality
                c = ("op", "listeq(%s)" % norm(e))
                return Cond(c if isinstance(op, ast.Eq) else c_not(c))
        if isinstance(op, (ast.LtE,)) and isinstance(l, TL) and isinstance(r, TL):
            return self.tl_method(l, "__le__", [r], {}, e)
        if isinstance(op, (ast.GtE,)) and isinstance(l, TL) and isinstance(r, TL) and self.prog.resolve_method("TermList", "__ge__") is None:
            # no __ge__ is defined: Python evaluates  l >= r  through the reflected  r.__le__(l)
            return self.tl_method(r, "__le__", [l], {}, e)
        return Cond(("op", "cmp(%s)" % norm(e)))

    def ev_Attribute(self, e, env):
        base = self.eval(e.value, env)
        if isinstance(base, Obj):
            if e.attr in base.fields:
                return base.fields[e.attr]
            fi = self.prog.resolve_method(base.cls, e.attr)
            if fi is not None and fi.kind == "property":
                return self.call_function(fi, [], {}, self_val=base)
            if fi is not None:
                return ("boundmethod", base, fi)
            raise AnalysisError("unknown attribute %s on %s object in %s" % (e.attr, base.cls, self.cur))
        if isinstance(base, TL):
            if e.attr == "vars":
                return self.vars_of(base)
            return ("tlmethod", base, e.attr)
        if isinstance(base, VS):
            return ("vsmethod", base, e.attr, e.value)
        if isinstance(base, ListV):
            return ("listmethod", base, e.attr)
        if isinstance(base, VarV) and e.attr == "name":
            return StrV()
        if isinstance(base, StrV):
            return ("strmethod", e.attr)
        if isinstance(base, tuple) and base and base[0] == "super":
            fi = self.prog.resolve_super(base[1], e.attr)
            if fi is None:
                raise AnalysisError("super().%s not found from %s" % (e.attr, base[1]))
            return ("boundmethod", base[2], fi)
        if isinstance(base, Opaque) and base.tag == "name:copy" and e.attr == "deepcopy":
            return ("deepcopy",)
        if isinstance(base, Opaque) and base.tag == "name:logging":
            return ("ignore",)
        if isinstance(base, TypeV):
            fi = self.prog.resolve_method(base.cls, e.attr)
            if fi is not None:
                return ("unbound", base.cls, fi)
        if base.__class__.__name__ == "ModInfo":
            # a function / class / constant of a module of the package, reached through the module object
            r = self.prog.resolve_dotted(base.name + "." + e.attr)
            if r is not None:
                return TypeV(r.name) if r.__class__.__name__ == "ClassInfo" else r
            okc, val = self.prog.resolve_constant(base, e.attr)
            if okc:
                return StrV() if isinstance(val, str) else OpaqueNN("const:%r" % (val,))
        if isinstance(base, TupleV) and e.attr in getattr(base, "names", []):
            return base.items[base.names.index(e.attr)]
        if isinstance(base, TupleV) and getattr(base, "cls", None):
            # a property / method defined on the record class
            m = self.prog.resolve_method(base.cls, e.attr)
            if m is not None and m.kind == "property":
                return self.call_function(m, [base], {})
            if m is not None:
                return ("boundmethod", base, m)
        return Opaque("attr:" + norm(e))

    def ev_Subscript(self, e, env):
        base = self.eval(e.value, env)
        idx = e.slice
        if isinstance(idx, ast.UnaryOp) and isinstance(idx.op, ast.USub) and isinstance(idx.operand, ast.Constant) and isinstance(idx.operand.value, int):
            idx = ast.Constant(value=-idx.operand.value)
        if isinstance(base, (TupleV, ListV)) and not getattr(base, "unknown", False) and isinstance(idx, ast.Constant) and isinstance(idx.value, int) and not isinstance(idx.value, bool):
            i = idx.value
            if -len(base.items) <= i < len(base.items):
                return base.items[i]
        return Opaque("subscript:" + norm(e))

    def ev_Dict(self, e, env):
        return Opaque("dict")

    def ev_Set(self, e, env):
        return Opaque("set")

    def ev_Call(self, e: ast.Call, env):
        f = e.func
        # --- special syntactic forms first
        if isinstance(f, ast.Name):
            if f.id == "super" and not e.args:
                cls_ctx = env.get("__class_ctx__")
                return ("super", cls_ctx, env.get(self.func_stack[-1].params[0]) if self.func_stack[-1].params else None)
            if f.id == "type" and len(e.args) == 1:
                v = self.eval(e.args[0], env)
                if isinstance(v, Obj):
                    return TypeV(v.cls)
                if isinstance(v, TL):
                    return ("tltype",)
                return Opaque("type")
            if f.id == "isinstance" and len(e.args) == 2:
                return Cond(("op", "isinstance(%s)" % ", ".join(norm(a) for a in e.args)))
            if f.id == "bool" and len(e.args) == 1 and not e.keywords:
                return Cond(self.to_cond(self.eval(e.args[0], env), e.args[0]))
            if f.id == "len":
                if len(e.args) == 1 and isinstance(e.args[0], ast.Name):
                    v = self.eval(e.args[0], env)
                    if isinstance(v, (VS, SetOf)):
                        return LenV(v, norm(e.args[0]))
                return OpaqueNN("int")
            if f.id == "set" and len(e.args) == 1:
                v = self.eval(e.args[0], env)
                if isinstance(v, VS):
                    return SetOf(v, norm(e.args[0]))
                return OpaqueNN("set")
            if f.id in ("str", "repr", "format"):
                return StrV()
            if f.id in ("int", "float", "set", "tuple", "hash"):
                return OpaqueNN(f.id)
            if f.id == "list" and len(e.args) == 1:
                v = self.eval(e.args[0], env)
                if isinstance(v, VS):
                    return VS(v.tt, v.nodup)
                return OpaqueNN("list")
            if f.id == "Var" and len(e.args) == 1:
                v = self.eval(e.args[0], env)
                if isinstance(v, VarV):
                    return v
                return Opaque("Var")
        if self._is_ignorable_call(e):
            return NONE
        callee = self.eval(f, env)
        pos = []
        for a in e.args:
            if isinstance(a, ast.Starred):
                sv = self.eval(a.value, env)
                if isinstance(sv, TupleV) or (isinstance(sv, ListV) and not getattr(sv, "unknown", False)):
                    pos.extend(sv.items)  # f(*record): the items of a tuple / record whose items are known
                    continue
                raise AnalysisError("star-args call %s in %s" % (norm(e), self.cur))
            pos.append(self.eval(a, env))
        kw = {}
        for k in e.keywords:
            if k.arg is None:
                raise AnalysisError("**kwargs call %s in %s" % (norm(e), self.cur))
            kw[k.arg] = self.eval(k.value, env)
        if isinstance(callee, FuncInfo):
            return self.call_function(callee, pos, kw)
        if isinstance(callee, tuple):
            tag = callee[0]
            if tag == "boundmethod":
                _t, selfv, fi = callee
                if fi.kind == "static":
                    return self.call_function(fi, pos, kw)
                if fi.kind == "classmethod":
                    return self.call_function(fi, [TypeV(selfv.cls) if isinstance(selfv, Obj) else selfv] + list(pos), kw)
                return self.call_function(fi, pos, kw, self_val=selfv)
            if tag == "unbound":
                _t, cname, fi = callee
                if fi.kind == "static":
                    return self.call_function(fi, pos, kw)
                if fi.kind == "classmethod":
                    return self.call_function(fi, [TypeV(cname)] + list(pos), kw)
                return self.call_function(fi, pos[1:], kw, self_val=pos[0] if pos else None)
            if tag == "tlmethod":
                return self.tl_method(callee[1], callee[2], pos, kw, e)
            if tag == "tltype":
                # type(termlist)(list_of_terms) - only the empty list is meaningful here
                if len(pos) == 1 and isinstance(pos[0], VS) and pos[0].tt == 0:
                    return TL(self.prov.top)
                if not pos:
                    return TL(self.prov.top)
                raise AnalysisError("construction of a constraint list from %s in %s" % (norm(e), self.cur))
            if tag == "deepcopy":
                if len(pos) == 1 and isinstance(pos[0], TL):
                    return TL(self.prov.mk("copy", pos[0].n))
                return pos[0] if pos else NONE
            if tag == "vsmethod":
                return self.vs_method(callee[1], callee[2], callee[3], pos, e, env)
            if tag == "listmethod":
                if callee[2] == "append":
                    callee[1].items.append(pos[0] if pos else NONE)
                    return NONE
                if callee[2] == "copy":
                    return ListV(list(callee[1].items))
                if callee[2] == "extend" and len(pos) == 1 and isinstance(pos[0], (ListV, TupleV)) and not getattr(pos[0], "unknown", False):
                    callee[1].items.extend(pos[0].items)
                    return NONE
                if callee[2] == "extend" and len(pos) == 1 and isinstance(pos[0], VS) and pos[0].tt == 0:
                    return NONE
                return Opaque("listmethod")
            if tag == "ignore":
                return NONE
            if tag == "memberpred" and len(pos) == 1 and not kw:
                if isinstance(pos[0], ElemV):
                    return ElemCond(callee[1].tt)
                if isinstance(pos[0], VarV):
                    return Cond(("E", pos[0].tt & callee[1].tt))
            if tag == "strmethod":
                return StrV() if callee[1] in ("format", "join", "strip", "lower", "upper", "replace", "format_map", "lstrip", "rstrip", "capitalize", "title") else OpaqueNN("strmethod")
            if tag == "lambda":
                lam, env0 = callee[1], dict(callee[2])
                names = [a.arg for a in lam.args.args]
                if len(pos) > len(names) or lam.args.vararg or lam.args.kwarg:
                    raise AnalysisError("lambda called with %d arguments in %s" % (len(pos), self.cur))
                for n_, v_ in zip(names, pos):
                    env0[n_] = v_
                env0.update(kw)
                return self.eval(lam.body, env0)
        if isinstance(callee, TypeV):
            return self.construct(callee.cls, pos, kw, e)
        if isinstance(callee, Opaque):
            dotted = self._ext_dotted(callee)
            if dotted == "functools.partial" and len(pos) == 2 and not kw and self._ext_dotted(pos[0]) == "operator.contains" and isinstance(pos[1], VS):
                return ("memberpred", pos[1])  # partial(operator.contains, xs): "is a member of xs"
            if dotted in ("itertools.filterfalse", "filter", "builtins.filter") and len(pos) == 2 and not kw and isinstance(pos[1], VS):
                mask = self._pred_mask(pos[0], pos[1], e)
                if mask is not None:
                    keep = mask if dotted != "itertools.filterfalse" else neg(mask)
                    return VS(pos[1].tt & keep, pos[1].nodup)
            self.unknowns.append("call " + norm(e))
            return Opaque("call:" + norm(f))
        raise AnalysisError("cannot resolve call %s in %s" % (norm(e), self.cur))

    def _ext_dotted(self, v: Any) -> Optional[str]:
        """the dotted name of a third-party / standard-library callable held in an opaque value"""
        if not isinstance(v, Opaque):
            return None
        fi = self.func_stack[-1] if self.func_stack else None
        imports = fi.module.imports if fi is not None else {}
        if v.tag.startswith("name:"):
            n = v.tag[5:]
            return imports.get(n, n)
        if v.tag.startswith("attr:"):
            parts = v.tag[5:].split(".")
            return ".".join([imports.get(parts[0], parts[0])] + parts[1:])
        return None

    def _pred_mask(self, pred: Any, vs: "VS", node: ast.AST) -> Optional[int]:
        """the classes of elements of `vs` on which a one-argument predicate is true, when it is a membership test"""
        if isinstance(pred, tuple) and pred and pred[0] == "memberpred":
            return pred[1].tt
        if isinstance(pred, tuple) and pred and pred[0] == "lambda":
            lam, env0 = pred[1], dict(pred[2])
            if len(lam.args.args) == 1:
                env0[lam.args.args[0].arg] = ElemV(vs.tt, vs.nodup)
                r = self.eval(lam.body, env0)
                if isinstance(r, ElemCond):
                    return r.mask
        return None

    # -------------------------------------------------------------- objects
    def construct(self, cname: str, pos: List[Any], kw: Dict[str, Any], node: ast.AST) -> Any:
        if cname == "Var":
            return Opaque("Var")
        ci = self.prog.classes.get(cname)
        if ci is None:
            return Opaque("new:" + cname)
        if self.prog.is_subclass(cname, "TermList"):
            if (len(pos) == 1 and isinstance(pos[0], VS) and pos[0].tt == 0) or not pos:
                return TL(self.prov.top)
            return Opaque("new:" + cname)
        if any(norm(b).split(".")[-1] == "NamedTuple" for b in ci.node.bases) and self.prog.resolve_method(cname, "__new__") is None:
            # a record of named fields: a tuple whose items can also be read by name
            names = [f for f, _d in ci.fields]
            vals = list(pos) + [None] * (len(names) - len(pos))
            for k, v in kw.items():
                if k not in names:
                    raise AnalysisError("%s has no field %s (in %s)" % (cname, k, self.cur))
                vals[names.index(k)] = v
            for i, (f, d) in enumerate(ci.fields):
                if vals[i] is None:
                    if d is None:
                        raise AnalysisError("%s built without its field %s in %s" % (cname, f, self.cur))
                    vals[i] = self.eval(d, {})
            tv = TupleV(vals)
            tv.names = names
            tv.cls = cname
            return tv
        init = self.prog.resolve_method(cname, "__init__")
        if init is None and ci.is_dataclass and self.prog.resolve_method(cname, "__post_init__") is None:
            # a plain record: one field per annotated name, in order
            obj = Obj(cname)
            names = [f for f, _d in ci.fields]
            if len(pos) > len(names):
                raise AnalysisError("%s built with too many arguments in %s" % (cname, self.cur))
            given = dict(zip(names, pos))
            for k, v in kw.items():
                if k not in names or k in given:
                    raise AnalysisError("%s has no field %s (in %s)" % (cname, k, self.cur))
                given[k] = v
            for f, d in ci.fields:
                if f not in given:
                    if d is None:
                        raise AnalysisError("%s built without its field %s in %s" % (cname, f, self.cur))
                    given[f] = self.eval(d, {})
                obj.fields[f] = given[f]
            return obj
        obj = Obj(cname)
        rec = {"cls": cname, "func": self.cur, "node": node, "pos": pos, "kw": kw, "ok": False}
        self.ctor_calls.append(rec)
        if init is not None:
            self.call_function(init, pos, kw, self_val=obj)
        rec["ok"] = True
        rec["obj"] = obj
        return obj

    def vs_method(self, base: VS, name: str, base_node: ast.AST, pos: List[Any], node: ast.AST, env) -> Any:
        if name == "copy":
            return VS(base.tt, base.nodup)
        if name == "remove" and len(pos) == 1 and isinstance(pos[0], VarV):
            # list.remove deletes the first occurrence only: membership changes only if the list is duplicate-free
            if not base.nodup:
                raise AnalysisError("list.remove on a list that may hold duplicates in %s" % self.cur)
            base.tt = base.tt & neg(pos[0].tt)
            return NONE
        if name == "append" and len(pos) == 1 and isinstance(pos[0], (VarV, ElemV)):
            x = pos[0]
            base.nodup = base.nodup and (base.tt & x.tt & self.allowed) == 0 and (isinstance(x, VarV) or x.nodup)
            base.tt = base.tt | x.tt
            return NONE
        if name == "append" and len(pos) == 1 and base.tt == 0:
            # `x = []` was read as an empty variable list; it is a plain list
            self._store_back(base_node, ListV([pos[0]]), env)
            return NONE
        if name == "extend" and len(pos) == 1:
            x = pos[0]
            if isinstance(x, VS):
                base.nodup = base.nodup and x.nodup and (base.tt & x.tt & self.allowed) == 0
                base.tt = base.tt | x.tt
                return NONE
            if isinstance(x, (ListV, TupleV)) and base.tt == 0 and not getattr(x, "unknown", False):
                self._store_back(base_node, ListV(list(x.items)), env)  # `xs = []` was a plain list after all
                return NONE
        if name == "index":
            if len(pos) == 1 and isinstance(pos[0], VarV):
                return IndexV(base, pos[0])
            return OpaqueNN("int")
        raise AnalysisError("list method .%s on a variable list in %s is outside the fragment" % (name, self.cur))

    # ----------------------------------------------------- TermList methods
    def tl_method(self, recv: TL, name: str, pos: List[Any], kw: Dict[str, Any], node: ast.AST) -> Any:
        P = self.prov
        if name == "__le__":
            name = self.le_target()
            if name.endswith("_swapped"):
                name = name[: -len("_swapped")]
                if len(pos) == 1 and isinstance(pos[0], TL):
                    recv, pos = pos[0], [recv]
        if name not in TL_PRIMS:
            raise AnalysisError("TermList method %s (in %s) is not a known primitive" % (name, self.cur))
        names = TL_PRIMS[name]
        args: Dict[str, Any] = {}
        if len(pos) > len(names):
            raise AnalysisError("too many arguments to %s" % name)
        for n_, v in zip(names, pos):
            args[n_] = v
        for k, v in kw.items():
            if k not in names or k in args:
                raise AnalysisError("bad keyword %s for %s" % (k, name))
            args[k] = v
        site = {"func": self.cur, "text": norm(node)[:160], "line": getattr(node, "lineno", 0)}
        if name == "copy":
            return TL(P.mk("copy", recv.n))
        if name == "is_empty":
            return Cond(("op", "is_empty(#%d)" % recv.n))
        if name == "get_terms_with_vars":
            s = args.get("variable_list")
            sdesc = self._sdesc(s)
            n = P.mk("with_vars", recv.n, sdesc)
            self.events.append({"kind": "with_vars", "E": recv.n, "S": sdesc, "S_tt": s.tt if isinstance(s, VS) else None, "result": n, "outcome": "ok", "site": site})
            if isinstance(s, VS) and (s.tt & self.allowed) == 0:
                P.add_rule([], n, "no variable to look for: the selected sub-list is empty")
            return TL(n)
        if name == "rename_variable":
            s, t = args.get("source_var"), args.get("target_var")
            n = P.mk("rename", recv.n, getattr(s, "name", "?"), getattr(t, "name", "?"))
            if isinstance(s, VarV) and isinstance(t, VarV):
                self.rename_tts[n] = (s.tt, t.tt)
            return TL(n)
        if name == "refines":
            o = args.get("other")
            if not isinstance(o, TL):
                raise AnalysisError("refines() argument is not a constraint list in %s" % self.cur)
            ans = self.run.choose(2, "refines(%s <= %s)" % (P.show(recv.n, 2), P.show(o.n, 2))) == 0
            self.events.append({"kind": "refines", "lhs": recv.n, "rhs": o.n, "answer": ans, "site": site})
            if ans:
                P.add_rule([recv.n], o.n, "refines answered True: lhs |- rhs")
            return Cond(("const", ans))
        if name == "simplify":
            ctx = args.get("context", NONE)
            if isinstance(ctx, NoneV):
                cn = None
            elif isinstance(ctx, TL):
                cn = ctx.n
            else:
                raise AnalysisError("simplify() context is not a constraint list in %s" % self.cur)
            out = self.run.choose(2, "simplify#%d" % len(self.events))
            self.events.append({"kind": "simplify", "E": recv.n, "ctx": cn, "outcome": ["ok", "ValueError"][out], "site": site})
            if out == 1:
                raise RaiseSig("ValueError", node, self.cur, implicit=True)
            return TL(P.mk("simp", recv.n, cn))
        # elimination primitives
        ctx = args.get("context")
        s = args.get("vars_to_elim")
        simp = args.get("simplify", Cond(TRUE))
        if not isinstance(ctx, TL):
            raise AnalysisError("%s context is not a constraint list in %s" % (name, self.cur))
        sdesc = self._sdesc(s)
        simp_c = self.to_cond(simp) if not isinstance(simp, NoneV) else FALSE
        simp_c = self.simp_cond(simp_c)
        if simp_c[0] != "const":
            # the flag's value matters for retention analysis: decide it on this path
            val = self.decide(simp_c, "simplify-flag")
            simp_c = ("const", val)
        op = "refine" if name == "elim_vars_by_refining" else "relax"
        out = self.run.choose(2, "%s#%d" % (op, len(self.events)))
        ev = {
            "kind": op,
            "E": recv.n,
            "ctx": ctx.n,
            "S": sdesc,
            "S_tt": s.tt if isinstance(s, VS) else None,
            "simplify": simp_c[1],
            "outcome": ["ok", "ValueError"][out],
            "site": site,
        }
        self.events.append(ev)
        if out == 1:
            raise RaiseSig("ValueError", node, self.cur, implicit=True)
        n = P.mk(op, recv.n, ctx.n, sdesc, simp_c[1])
        ev["result"] = n
        if op == "relax" and isinstance(s, VS) and (s.tt & self.allowed) == 0:
            P.add_rule([ctx.n, n], recv.n, "relaxing with nothing to eliminate only simplifies: ctx, R |- E")
        stats = Opaque("tactic-stats")
        return TupleV([TL(n), stats])

    def le_target(self) -> str:
        """TermList.__le__ must forward to self.refines(other); derived from the source."""
        from .tlops import le_forwards_to

        name = le_forwards_to(self.prog)
        # a path of __le__ that does not ask the refinement test is reported by rule termlist-operators; the algebra
        # layer is read as written for the operator's documented meaning
        return "refines" if name.startswith("!") else name

    def _sdesc(self, s: Any) -> str:
        """A cheap canonical name for an elimination set (described lazily via Path.s_table)."""
        if isinstance(s, VS):
            t = s.tt & self.allowed
            if t not in self.s_table:
                self.s_table[t] = "S%d" % (len(self.s_table) + 1)
            return self.s_table[t]
        return "?"

    # ------------------------------------------------------------- finishing
    def snapshot(self, path: Path) -> Path:
        path.conds = list(self.conds)
        path.allowed = self.allowed
        path.events = self.events
        path.prov = self.prov
        path.atoms = self.atoms
        path.trace = list(self.run.trace)
        path.extra_rules = self.extra_rules
        path.unknowns = self.unknowns
        path.ctor_calls = self.ctor_calls
        path.mutations = self.mutations
        path.s_table = self.s_table
        return path


def _load(t: ast.AST) -> ast.AST:
    """Copy of an assignment target usable as a load expression."""
    import copy as _copy

    n = _copy.deepcopy(t)
    for x in ast.walk(n):
        if hasattr(x, "ctx"):
            x.ctx = ast.Load()
    return n


def explore(prog: Program, setup: Callable[[Interp], Callable[[], Any]], max_paths: int = 20000) -> List[Path]:
    """Enumerate all paths.  `setup(interp)` prepares the initial state and returns a thunk that runs the entry point."""
    paths: List[Path] = []
    stack: List[List[int]] = [[]]
    n = 0
    while stack:
        prefix = stack.pop()
        n += 1
        if n > max_paths:
            raise AnalysisError("more than %d paths" % max_paths)
        run = Run(prefix)
        it = Interp(prog, run)
        p = Path()
        try:
            thunk = setup(it)
            val = thunk()
            p.terminal = "return"
            p.value = val
        except RaiseSig as r:
            p.terminal = "raise"
            p.exc = r
        except Infeasible:
            p.terminal = "infeasible"
        it.snapshot(p)
        # siblings
        for i in range(len(prefix), len(run.trace)):
            nopt, chosen, _tag = run.trace[i]
            for alt in range(chosen + 1, nopt):
                stack.append([c for (_n, c, _t) in run.trace[:i]] + [alt])
        if p.terminal != "infeasible":
            paths.append(p)
    return paths
