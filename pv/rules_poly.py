"""Rules on the polyhedral layer (polyhedra.py) decided with the path simulator, the rational normal form
and def-use closures."""
from __future__ import annotations

import ast
from fractions import Fraction
from typing import Any, Callable, Dict, List, Optional, Set, Tuple

from .flow import Flow
from .loader import AnalysisError, FuncInfo, Program, norm
from .pathsim import PPath, Sim, const, is_const, mentions, show, walk
from .ratnf import Rat, to_rat
from .report import Ctx

PTL = "PolyhedralTermList."
TOL_MAX = Fraction(1, 1000)


# ----------------------------------------------------------------- helpers
def is_lp(v) -> bool:
    return isinstance(v, tuple) and len(v) >= 2 and v[0] == "call" and str(v[1]).endswith("linprog")


def is_res_field(v, field: str) -> bool:
    if not isinstance(v, tuple) or len(v) < 3:
        return False
    if v[0] == "sub" and v[2] == ("const", field) and is_lp(v[1]):
        return True
    if v[0] == "attr" and v[2] == field and is_lp(v[1]):
        return True
    return False


def status_assume(s: Optional[int], extra: Optional[Callable] = None):
    def f(v):
        if s is not None and is_res_field(v, "status"):
            return const(s)
        if extra is not None:
            r = extra(v)
            if r is not None:
                return r
        # array parameters are arrays (the `if not isinstance(p, np.ndarray): p = default` prologue is not taken)
        if isinstance(v, tuple) and v and v[0] == "call" and v[1] == "isinstance" and v[2] and v[2][0][0] == "param":
            return const(True)
        return None

    return f


def lp_paths(prog: Program, key: str, s: Optional[int], extra=None, **kw) -> List[PPath]:
    fi = prog.func(key)
    ps = Sim(prog, fi, assume=status_assume(s, extra), **kw).paths()
    return [p for p in ps if p.calls("linprog")]


def outcome(p: PPath) -> str:
    if p.terminal == "raise":
        return "raise %s" % p.exc_cls
    v = p.value
    if is_const(v):
        return "return %r" % (v[1],)
    return "return value"


_LINPROG_POSITIONS = {"c": 0, "A_ub": 1, "b_ub": 2, "A_eq": 3, "b_eq": 4, "bounds": 5}


def kw_of(call_event: dict, name: str):
    """Argument `name` of a call event, by keyword or (for scipy's linprog) by position."""
    for k, v in call_event["kws"]:
        if k == name:
            return v
    if str(call_event.get("callee", "")).endswith("linprog") and name in _LINPROG_POSITIONS:
        i = _LINPROG_POSITIONS[name]
        if i < len(call_event.get("args", ())):
            return call_event["args"][i]
    return None


# --------------------------------------------------------------- L1 bounds
def rule_lp_bounds(ctx: Ctx, rule: str = "lp-free-bounds") -> None:
    """Every linprog call passes bounds=(None, None): scipy's default x >= 0 would silently change every answer."""
    prog = ctx.prog
    n = 0
    # a helper that only forwards to linprog (`return linprog(...)`): its call sites are LP call sites too, each as good
    # as the helper's own call, which is judged below like any other
    wrappers = set()
    for fi in prog.all_functions():
        body = [st for st in getattr(fi.node, "body", []) if not (isinstance(st, ast.Expr) and isinstance(st.value, ast.Constant))] if not isinstance(fi.node, ast.Lambda) else []
        if len(body) == 1 and isinstance(body[0], ast.Return) and isinstance(body[0].value, ast.Call) and norm(body[0].value.func).endswith("linprog"):
            wrappers.add(fi.name)
    for fi in prog.all_functions():
        if fi.module.base == "plots":
            continue
        for node in ast.walk(fi.node):
            if isinstance(node, ast.Call) and norm(node.func).split(".")[-1] in wrappers:
                n += 1
                ctx.ok(rule, fi.key, "LP call in %s goes through %s" % (fi.key, norm(node.func)), nontrivial=False)
            is_partial = isinstance(node, ast.Call) and norm(node.func).split(".")[-1] == "partial" and node.args and norm(node.args[0]).endswith("linprog")
            if is_partial:
                # functools.partial(linprog, bounds=...): the LP call site with the fixed arguments
                n += 1
                b = [k.value for k in node.keywords if k.arg == "bounds"]
                construct = "linprog call in %s has free variable bounds" % fi.key
                if b and norm(b[0]).replace(" ", "") in ("(None,None)", "[(None,None)]"):
                    ctx.ok(rule, fi.key, construct)
                else:
                    ctx.cannot_decide(rule, fi.key, construct, "linprog is wrapped by functools.partial without bounds: the bounds of the eventual call are not followed")
                continue
            if isinstance(node, ast.Call) and norm(node.func).endswith("linprog"):
                n += 1
                b = [k.value for k in node.keywords if k.arg == "bounds"]
                if not b and len(node.args) > _LINPROG_POSITIONS["bounds"]:
                    b = [node.args[_LINPROG_POSITIONS["bounds"]]]
                # a name bound once to the literal (a local or a module constant) stands for it
                if b and isinstance(b[0], ast.Name):
                    ds = Flow(fi.node).defs.get(b[0].id, []) if not isinstance(fi.node, ast.Lambda) else []
                    if not ds and b[0].id in fi.module.assigns:
                        ds = [fi.module.assigns[b[0].id]]
                    if len(ds) == 1:
                        b = [ds[0]]
                construct = "linprog call in %s has free variable bounds" % fi.key
                if b and norm(b[0]).replace(" ", "") in ("(None,None)", "[(None,None)]"):
                    ctx.ok(rule, fi.key, construct)
                else:
                    ctx.violation(rule, fi.key, construct, "bounds argument is %s" % (norm(b[0]) if b else "absent (defaults to x >= 0)"), where=fi.where)
    ctx.floor("linprog call sites in the constraint layer", n, 6)


# ------------------------------------------------------- L2 status tables
STATUS_TABLES: Dict[str, Dict[int, Set[str]]] = {
    PTL + "is_polytope_empty": {0: {"return False"}, 3: {"return False"}, 2: {"return True"}, 1: {"raise ValueError"}, 4: {"raise ValueError"}},
    PTL + "optimize": {0: {"return value"}, 3: {"return None"}, 1: {"raise ValueError"}, 2: {"raise ValueError"}, 4: {"raise ValueError"}},
    PTL + "_tactic_2": {2: {"raise ValueError"}, 3: {"raise ValueError"}},
    PTL + "_get_tlp_context": {1: {"raise ValueError"}, 2: {"raise ValueError"}, 3: {"raise ValueError"}, 4: {"raise ValueError"}},
    PTL + "verify_polytope_containment": {2: {"return False"}},
    PTL + "reduce_polytope": {2: {"raise ValueError"}},
}


def rule_status_table(ctx: Ctx, key: str, rule: str = "lp-status-table") -> None:
    """The continuation after a linprog call, per solver status, by constant propagation of res['status']."""
    prog = ctx.prog
    table = STATUS_TABLES[key]
    fi = prog.func(key)
    for s in range(5):
        ps = lp_paths(prog, key, s)
        if not ps:
            ctx.cannot_decide(rule, key, "status %d" % s, "no path through the linprog call was found")
            continue
        outs = {outcome(p) for p in ps}
        # exception classes: accept subclasses of ValueError where ValueError is expected
        if s in table:
            want = table[s]
            construct = "%s: solver status %d leads to %s" % (key.split(".")[-1], s, " / ".join(sorted(want)))
            bad = set()
            for o in outs:
                if o in want:
                    continue
                if o.startswith("raise ") and "raise ValueError" in want and _exc_sub(prog, o[6:], "ValueError"):
                    continue
                bad.add(o)
            if bad:
                ctx.violation(rule, key, construct, "status %d can lead to: %s" % (s, sorted(bad)), where=fi.where)
            else:
                ctx.ok(rule, key, construct)
        elif key == PTL + "reduce_polytope":
            construct = "reduce_polytope: ValueError only for an infeasible system (status %d does not raise)" % s
            bad = {o for o in outs if o.startswith("raise")}
            if bad:
                ctx.violation(rule, key, construct, "status %d leads to %s" % (s, sorted(bad)), where=fi.where)
            else:
                ctx.ok(rule, key, construct)
    if key == PTL + "reduce_polytope":
        # row removal: status 3 removes the row, statuses 1 and 4 keep it
        for s, must_delete in ((3, True), (1, False), (4, False)):
            ps = [p for p in lp_paths(prog, key, s) if p.terminal == "return"]
            construct = "reduce_polytope: status %d %s the tested row" % (s, "removes" if must_delete else "keeps")
            okc = True
            for p in ps:
                deleted = _deletes_after_lp(p)
                if deleted != must_delete:
                    okc = False
            if not ps:
                ctx.cannot_decide(rule, key, construct, "no returning path")
            elif okc:
                ctx.ok(rule, key, construct)
            else:
                ctx.violation(rule, key, construct, "some path %s the row" % ("keeps" if must_delete else "removes"), where=fi.where)


def _deletes_after_lp(p: PPath) -> bool:
    seen_lp = False
    for e in p.events:
        if e["kind"] == "call" and e["callee"].endswith("linprog"):
            seen_lp = True
        elif seen_lp and e["kind"] == "call" and e["callee"].endswith("delete"):
            return True
    return False


def _exc_sub(prog: Program, c: str, base: str) -> bool:
    from .cfg import ExcTable

    return ExcTable(prog).is_sub(c, base)


# ----------------------------------------------- L3 compare / tolerance / boundary
def _is_fun(v) -> bool:
    return is_res_field(v, "fun")


def _isclose_call(v) -> bool:
    return isinstance(v, tuple) and v and v[0] == "call" and str(v[1]).split(".")[-1] in ("isclose", "allclose")


def _numeric_global(prog: Program):
    """atom_map resolving module-level numeric constants (tolerances) to their literal value."""

    def f(v):
        if isinstance(v, tuple) and v and v[0] == "global":
            m = prog.module(v[1])
            node = m.assigns.get(v[2])
            if isinstance(node, ast.Constant) and isinstance(node.value, (int, float)):
                return ("const", node.value)
            if isinstance(node, ast.UnaryOp) and isinstance(node.op, ast.USub) and isinstance(node.operand, ast.Constant):
                return ("const", -node.operand.value)
        return None

    return f


def analyse_accept_condition(prog: Program, cond, taken: bool, bound_ok: Callable[[Any], bool]) -> Dict[str, Any]:
    """Normalise the condition under which an LP optimum is accepted as 'within the bound'.

    Returns {form: 'ok'|'bad'|'unknown', tol: Fraction|None, isclose: bool, why}.
    Accepted form:  (-fun) - B + g  <=  0   (or < 0 with g < 0), B the bound entry, |g| small.
    """
    res = {"form": "unknown", "tol": None, "isclose": False, "why": ""}
    c = cond
    if not taken:
        c = ("un", "Not", c)
    # push negation
    c = _nnf(c)
    parts = [c]
    if c[0] == "boolop" and c[1] == "Or":
        parts = list(c[2])
    cmps = []
    for x in parts:
        if _isclose_call(x) and mentions(x, _is_fun):
            res["isclose"] = True
        elif isinstance(x, tuple) and x[0] == "cmp" and mentions(x, _is_fun):
            cmps.append(x)
        elif mentions(x, _is_fun):
            res["why"] = "unrecognised use of the optimum: %s" % show(x)
            return res
    if len(cmps) != 1:
        if res["isclose"] and not cmps:
            res["form"] = "ok"
            return res
        res["why"] = "expected one comparison of the optimum, found %d" % len(cmps)
        return res
    op, l, r = cmps[0][1], cmps[0][2], cmps[0][3]
    if op in ("Gt", "GtE"):
        l, r = r, l
        op = {"Gt": "Lt", "GtE": "LtE"}[op]
    if op not in ("Lt", "LtE"):
        res["form"] = "bad"
        res["why"] = "comparison operator %s" % op
        return res
    amap = _numeric_global(prog)
    d = to_rat(l, amap) - to_rat(r, amap)
    if set(d.den) != {()}:
        res["why"] = "non-polynomial comparison"
        return res
    k = d.den[()]
    funs, bounds, consts, others = [], [], Fraction(0), []
    for m, coef in d.num.items():
        coef = coef / k
        if m == ():
            consts += coef
        elif len(m) == 1 and m[0][1] == 1 and _is_fun(m[0][0]):
            funs.append(coef)
        elif len(m) == 1 and m[0][1] == 1 and bound_ok(m[0][0]):
            bounds.append(coef)
        else:
            others.append(m)
    if others:
        # a slack that is computed from the matrices is not a tolerance: it grows with coefficients that have nothing
        # to do with the tested row (a big-M bound elsewhere lets a visible violation pass)
        data = [m for m in others if any(mentions(a, lambda y: isinstance(y, tuple) and len(y) == 2 and y[0] == "param" and not bound_ok(("sub", y, const(0)))) for a, _p in m)]
        if data:
            res["form"] = "bad"
            res["why"] = "the slack granted to the optimum is computed from the problem data (%s): it is not bounded by a tolerance" % d.show()[:160]
            return res
        res["why"] = "other quantities in the comparison: %s" % d.show()
        return res
    if len(funs) != 1 or len(bounds) != 1:
        res["why"] = "comparison is not optimum-versus-bound: %s" % d.show()
        return res
    a, b = funs[0], bounds[0]
    if not (a < 0 and a == b):
        res["form"] = "bad"
        res["why"] = "accepted when %s %s 0, which is not 'optimum (= -fun) within the bound'" % (d.show(), "<=" if op == "LtE" else "<")
        return res
    g = consts / (-a)
    res["tol"] = -g
    if g > 0 or (op == "Lt" and g == 0 and not res["isclose"]):
        res["form"] = "bad"
        res["why"] = "an optimum exactly on the bound is not accepted (%s %s 0)" % (d.show(), "<=" if op == "LtE" else "<")
        return res
    if -g > TOL_MAX:
        res["form"] = "bad"
        res["why"] = "the bound is shifted by %s before the comparison" % (-g)
        return res
    res["form"] = "ok"
    return res


def _nnf(c):
    if isinstance(c, tuple) and c and c[0] == "un" and c[1] == "Not":
        x = c[2]
        if x[0] == "un" and x[1] == "Not":
            return _nnf(x[2])
        if x[0] == "cmp":
            neg = {"Lt": "GtE", "LtE": "Gt", "Gt": "LtE", "GtE": "Lt", "Eq": "NotEq", "NotEq": "Eq"}.get(x[1])
            if neg:
                return ("cmp", neg, x[2], x[3])
        if x[0] == "boolop":
            return ("boolop", "Or" if x[1] == "And" else "And", tuple(_nnf(("un", "Not", y)) for y in x[2]))
        return c
    if isinstance(c, tuple) and c and c[0] == "boolop":
        return ("boolop", c[1], tuple(_nnf(y) for y in c[2]))
    return c


def _one_iteration(p: PPath) -> bool:
    its = [c for (t, c) in p.decisions if t.startswith("loop@")]
    return bool(its) and all(c == 1 for c in its)


def rule_lp_compare(ctx: Ctx, key: str, rule_b: str = "lp-boundary", rule_t: str = "lp-tolerance", tolerance_rule: bool = True, require_boundary: bool = True) -> None:
    """C03/C07: a row is accepted (contained / redundant) exactly when the LP optimum is within its bound, boundary
    included; and the comparison of a floating-point LP optimum needs a tolerance (D6)."""
    prog = ctx.prog
    fi = prog.func(key)
    short = key.split(".")[-1]
    if short == "verify_polytope_containment":
        accept = lambda p: p.terminal == "return" and is_const(p.value) and p.value[1] is True  # noqa: E731
        bound_param = "b_r"
    else:
        accept = lambda p: p.terminal == "return" and _deletes_after_lp(p)  # noqa: E731
        bound_param = "b"

    def bound_ok(v) -> bool:
        return isinstance(v, tuple) and v[0] == "sub" and mentions(v[1], lambda x: x == ("param", bound_param)) and not mentions(v, _is_fun)

    ps = [p for p in lp_paths(prog, key, 0) if _one_iteration(p) and accept(p)]
    if not ps:
        ctx.cannot_decide(rule_b, key, "accepting path", "no path on which a row is accepted after an optimal LP")
        return
    n = 0
    for p in ps:
        seen_lp = False
        tests = []
        for e in p.events:
            if e["kind"] == "call" and e["callee"].endswith("linprog"):
                seen_lp = True
            elif seen_lp and e["kind"] == "branch" and mentions(e["test"], _is_fun):
                tests.append(e)
        construct = "%s: a row is accepted iff the LP optimum is within its bound (boundary included)" % short
        if not require_boundary:
            construct = "%s: a row is dropped only if the LP optimum over the others is within its bound" % short
        if not tests:
            ctx.violation(rule_b, key, construct, "a row is accepted on a path that never compares the LP optimum (%s)" % p.label(), where=fi.where)
            continue
        for e in tests:
            n += 1
            r = analyse_accept_condition(prog, e["test"], e["taken"], bound_ok)
            if not require_boundary and r["form"] == "bad" and r["why"].startswith("an optimum exactly on the bound"):
                # dropping only strictly-inside rows is still a sound (if less thorough) simplification
                r["form"] = "ok"
            if r["form"] == "unknown":
                ctx.cannot_decide(rule_b, key, construct, "%s: %s" % (r["why"], show(e["test"])))
            elif r["form"] == "bad":
                ctx.violation(rule_b, key, construct, "%s [condition %s taken=%s]" % (r["why"], norm(e["node"]), e["taken"]), where="%s:%d" % (fi.module.relpath, e["node"].lineno))
            else:
                ctx.ok(rule_b, key, construct + " @ " + norm(e["node"])[:60])
                if tolerance_rule:
                    c2 = "%s: the LP optimum is compared with a tolerance" % short
                    if r["isclose"] or (r["tol"] is not None and r["tol"] > 0):
                        ctx.ok(rule_t, key, c2)
                    else:
                        ctx.violation(
                            rule_t,
                            key,
                            c2,
                            "the floating-point optimum -res['fun'] is compared to the bound with a bare %s (no tolerance): round-off makes exact "
                            "boundary cases (e.g. reflexivity) fail" % norm(e["node"]),
                            where="%s:%d" % (fi.module.relpath, e["node"].lineno),
                        )
    ctx.floor("%s optimum comparisons" % short, n, 1)


# ----------------------------------------------- objective / relaxation / pairing
def rule_lp_objective(ctx: Ctx, key: str, rule: str = "lp-objective") -> None:
    """C03/C07: the LP maximises the tested row (objective = -row) over the other constraints with the row's own
    bound relaxed by a positive amount, and the relaxation is undone before the bound is used again."""
    prog = ctx.prog
    fi = prog.func(key)
    short = key.split(".")[-1]
    ps = [p for p in lp_paths(prog, key, 0) if _one_iteration(p) and p.terminal == "return"]
    if not ps:
        ctx.cannot_decide(rule, key, "lp call", "no single-iteration returning path")
        return
    matp, vecp = ("a_r", "b_r") if short == "verify_polytope_containment" else ("a", "b")
    checked = 0
    for p in ps[:8]:
        lp = p.calls("linprog")[0]
        c = kw_of(lp, "c")
        a_ub = kw_of(lp, "A_ub")
        b_ub = kw_of(lp, "b_ub")
        if c is None or a_ub is None or b_ub is None:
            ctx.cannot_decide(rule, key, "lp call", "linprog is not called with c=, A_ub=, b_ub= keywords")
            return
        checked += 1
        # objective = -row
        rows = [x for x in walk(c) if isinstance(x, tuple) and x and x[0] == "sub" and mentions(x[1], lambda y: y == ("param", matp))]
        construct = "%s: the LP objective is the negated tested row" % short
        okc = False
        for row in rows:
            if (to_rat(c) + to_rat(row)).is_zero():
                okc = True
        if okc:
            ctx.ok(rule, key, construct)
        else:
            ctx.violation(rule, key, construct, "objective is %s" % show(c, 6), where=fi.where)
        # relaxation of the row's own bound by a positive constant
        construct = "%s: the tested row's own bound is relaxed by a positive amount in the LP" % short
        relax = None
        if short == "verify_polytope_containment":
            for x in walk(b_ub):
                if isinstance(x, tuple) and x and x[0] == "bin":
                    r = to_rat(x)
                    for m, coef in r.num.items():
                        pass
                    bs = [y for y in walk(x) if isinstance(y, tuple) and y and y[0] == "sub" and y[1] == ("param", vecp)]
                    for bnd in bs:
                        d = (r - to_rat(bnd)).as_const()
                        if d is not None:
                            relax = d if relax is None else max(relax, d)
            if relax is None:
                # the bound itself (no relaxation) present?
                if mentions(b_ub, lambda y: isinstance(y, tuple) and y[0] == "sub" and y[1] == ("param", vecp)):
                    relax = Fraction(0)
        else:
            relax = _paired_relaxation(ctx, p, key, vecp)
        if relax is None:
            ctx.cannot_decide(rule, key, construct, "could not find the tested row's bound in b_ub = %s" % show(b_ub, 6))
        elif relax > 0:
            ctx.ok(rule, key, construct)
        else:
            ctx.violation(rule, key, construct, "the row's bound enters the LP relaxed by %s" % relax, where=fi.where)
        # the LP is over the left/other rows
        construct = "%s: the LP constraints contain the matrix of the %s" % (short, "left side" if short.startswith("verify") else "list being reduced (and the context)")
        need = ["a_l"] if short.startswith("verify") else ["a", "a_help"]
        missing = [n_ for n_ in need if not mentions(a_ub, lambda y, n_=n_: y == ("param", n_))]
        if short == "reduce_polytope":
            # the context rows are only present on the helper_present branch
            helper = any("helper_present" in t and cval for (t, cval) in p.decisions) or _context_has_entries(p) is True
            if _context_has_entries(p) is False:
                helper = False
            if not helper:
                missing = [m_ for m_ in missing if m_ != "a_help"]
        if missing:
            ctx.violation(rule, key, construct, "A_ub = %s lacks %s" % (show(a_ub, 5), missing), where=fi.where)
        else:
            ctx.ok(rule, key, construct)
    ctx.floor("%s LP call paths" % short, checked, 1)


def _context_has_entries(p) -> Optional[bool]:
    """What a path decided about 'the context matrix has entries' (a test of the size of a_help against 0), however
    the test is written and wherever it sits (a flag, a property of a shapes record): True / False / None."""
    verdict = None
    for e in p.events:
        if e["kind"] != "branch":
            continue
        t, neg = e["test"], False
        while isinstance(t, tuple) and t and t[0] == "un" and t[1] == "Not":
            t, neg = t[2], not neg
        if not (isinstance(t, tuple) and t and t[0] == "cmp" and is_const(t[3]) and t[3][1] == 0):
            continue
        if not mentions(t[2], lambda y: y == ("attr", ("param", "a_help"), "shape")):
            continue
        if mentions(t[2], lambda y: y == ("attr", ("param", "a"), "shape")):
            continue
        positive = {"Gt": True, "NotEq": True, "Eq": False, "LtE": False}.get(t[1])
        if positive is None:
            continue
        holds = bool(e["taken"]) != neg
        verdict = positive if holds else (not positive)
    return verdict


def _row_count_of(v, mat: str, vec: str) -> bool:
    """v is the number of rows of the right-hand side: a_r.shape[0] / len(a_r) / len(b_r) / b_r.shape[0]."""
    if isinstance(v, tuple) and v[0] == "item" and v[2] == 0 and isinstance(v[1], tuple) and v[1][0] == "attr" and v[1][2] == "shape" and v[1][1] in (("param", mat), ("param", vec)):
        return True
    if isinstance(v, tuple) and v[0] == "sub" and v[2] == const(0) and isinstance(v[1], tuple) and v[1][0] == "attr" and v[1][2] == "shape" and v[1][1] in (("param", mat), ("param", vec)):
        return True
    if isinstance(v, tuple) and v[0] == "call" and v[1] == "len" and len(v[2]) == 1 and v[2][0] in (("param", mat), ("param", vec)):
        return True
    return False


def _row_domain(it, mat: str = "a_r", vec: str = "b_r") -> Optional[str]:
    """'all' if iterating `it` visits every row (index) of the right-hand side exactly once or more; a reason if it
    definitely does not; None if unrecognised."""
    if not isinstance(it, tuple):
        return None
    if it in (("param", mat),):
        return "all"
    if it[0] == "call" and it[1] in ("reversed", "enumerate", "list", "tuple", "sorted") and len(it[2]) >= 1:
        return _row_domain(it[2][0], mat, vec)
    if it[0] == "call" and it[1] == "zip" and it[2]:
        rs = [_row_domain(x, mat, vec) for x in it[2]]
        if any(x == ("param", vec) for x in it[2]) and all(r in ("all", None) for r in rs):
            return "all" if any(r == "all" for r in rs) or all(x in (("param", mat), ("param", vec)) for x in it[2]) else None
        return "all" if rs and all(r == "all" for r in rs) else None
    if it[0] == "call" and it[1] == "range":
        a = it[2]
        if len(a) == 1:
            if _row_count_of(a[0], mat, vec):
                return "all"
            other = [m for m in ("a_l", "b_l") if mentions(a[0], lambda y, m=m: y == ("param", m))]
            if other and not mentions(a[0], lambda y: y in (("param", mat), ("param", vec))):
                return "the bound is the row count of the left-hand side (%s)" % other[0]
            r = to_rat(a[0])
            for cand in ((("item", ("attr", ("param", mat), "shape"), 0)), ("sub", ("attr", ("param", mat), "shape"), const(0)), ("call", "len", (("param", vec),), (), 0)):
                try:
                    d = (r - to_rat(cand)).as_const()
                except Exception:
                    d = None
                if d is not None and d < 0:
                    return "stops %s row(s) before the end" % (-d)
            return None
        if len(a) >= 2 and _row_count_of(a[1], mat, vec):
            if is_const(a[0]) and a[0][1] != 0:
                return "starts at row %s" % a[0][1]
            if len(a) == 3 and is_const(a[2]) and a[2][1] not in (1,):
                return "visits every %s-th row only" % a[2][1]
            if is_const(a[0]) and a[0][1] == 0 and (len(a) == 2 or (is_const(a[2]) and a[2][1] == 1)):
                return "all"
        return None
    if it[0] == "slice" or (it[0] == "sub" and it[1] in (("param", mat), ("param", vec))):
        return None
    return None


def _every_row(ctx: Ctx, rule: str, key: str, callee: str, mat: str, vec: str, short: str, what_rows: str, what_done: str, assume=None, floor: int = 2, keep_result: bool = False) -> None:
    """Every row of (mat, vec) is handled by a call to `callee` inside the loop (or comprehension) over the rows.
    A row that is passed over on a condition that does not involve `vec` cannot have been handled correctly (changing
    that row's bound changes what the row means without changing the condition): definite violation; a skip that does
    look at the bounds is not decided here.  The loop must range over all rows."""
    prog = ctx.prog
    fi = prog.func(key)
    ps = [p for p in Sim(prog, fi, assume=assume, loop_iters=(0, 1, 2)).paths() if p.terminal == "return"]
    construct = "%s: every %s is %s" % (short, what_rows, what_done)
    c2 = "%s: the loop ranges over every %s" % (short, what_rows)
    row_loops: Set[int] = set()
    for p in ps:
        stack: List[int] = []
        for e in p.events:
            # loops of inlined helpers are not the loop over the rows; a call made by an inlined helper (a wrapper
            # around the solver) is a call of this iteration
            if e["kind"] == "call" and e["callee"].endswith(callee) and stack:
                row_loops.add(stack[0])
            if e["func"] != key:
                continue
            if e["kind"] == "loop-iter":
                if isinstance(e["node"], (ast.For, ast.While, ast.GeneratorExp, ast.ListComp)):
                    stack.append(e["node"].lineno)
            elif e["kind"] in ("loop-body-end", "loop-continue", "loop-break") and stack:
                stack.pop()
    if not row_loops:
        # comprehension form: the returned value is built by a comprehension whose element makes the call
        comps = set()
        for p in ps:
            for x in walk(p.value):
                if isinstance(x, tuple) and x and x[0] == "listcomp" and mentions(x[1], lambda y: isinstance(y, tuple) and y and y[0] in ("call", "mcall") and str(y[1]).endswith(callee)):
                    comps.add(x)
        if not comps:
            ctx.cannot_decide(rule, key, construct, "could not find the loop over the rows that reaches %s" % callee)
            return
        for cmp_ in sorted(comps, key=repr):
            gens = cmp_[2]
            if len(gens) != 1:
                ctx.cannot_decide(rule, key, construct, "comprehension with %d generators" % len(gens))
                continue
            it, ifs = gens[0]
            v = _row_domain(it, mat, vec)
            if v == "all":
                ctx.ok(rule, key, c2)
            elif v is None:
                ctx.cannot_decide(rule, key, c2, "iterates over %s" % show(it, 5))
            else:
                ctx.violation(rule, key, c2, "iterates over %s: %s" % (show(it, 5), v), where=fi.where)
            if not ifs:
                ctx.ok(rule, key, construct + " (comprehension without filter)")
            elif any(mentions(c, lambda y: y == ("param", vec)) for c in ifs):
                ctx.cannot_decide(rule, key, construct, "rows are filtered by %s" % [show(c, 4) for c in ifs])
            else:
                ctx.violation(rule, key, construct, "a %s is passed over when not (%s) - a condition that does not involve %s" % (what_rows, "; ".join(show(c, 4) for c in ifs), vec), where=fi.where)
        return
    if len(row_loops) != 1:
        ctx.cannot_decide(rule, key, construct, "could not identify the loop over the rows (%s reached from loops at lines %s)" % (callee, sorted(row_loops)))
        return
    (row_loop,) = row_loops
    its = {e["it"] for p in ps for e in p.events if e["kind"] == "loop-iter" and e["func"] == key and e["node"].lineno == row_loop and e.get("it") is not None}
    if not its:
        ctx.cannot_decide(rule, key, c2, "the loop over the rows is not a for loop")
    for it in sorted(its, key=repr):
        v = _row_domain(it, mat, vec)
        if v == "all":
            ctx.ok(rule, key, c2)
        elif v is None:
            ctx.cannot_decide(rule, key, c2, "iterates over %s" % show(it, 5))
        else:
            ctx.violation(rule, key, c2, "iterates over %s: %s" % (show(it, 5), v), where=fi.where)
    n = 0
    verdicts: Dict[str, str] = {}
    for p in ps:
        seg: Optional[List[dict]] = None
        depth = 0
        for e in p.events:
            if e["func"] != key and seg is None:
                continue
            if e["kind"] == "loop-iter" and e["func"] == key and e["node"].lineno == row_loop and seg is None:
                seg = []
                depth = 0
                continue
            if seg is None:
                continue
            if e["kind"] == "loop-iter" and e["func"] == key and isinstance(e["node"], (ast.For, ast.While, ast.GeneratorExp, ast.ListComp)):
                depth += 1
            ends = e["kind"] in ("loop-body-end", "loop-continue", "loop-break") and e["func"] == key
            if ends and depth > 0:
                depth -= 1
                continue
            if not ends:
                seg.append(e)
                continue
            n += 1
            calls_ = [x for x in seg if x["kind"] == "call" and x["callee"].endswith(callee)]
            kept = True
            if calls_ and keep_result:
                # the callee's result has to end up in the list that is returned: an append (or a store) that mentions it
                res_ = calls_[-1].get("result")
                kept = any(
                    (x["kind"] == "call" and x["callee"] in (".append", ".extend", ".insert") and any(mentions(a, lambda y, r=res_: y == r) for a in x.get("args", ())))
                    or (x["kind"] == "store" and mentions(x.get("value"), lambda y, r=res_: y == r))
                    for x in seg
                )
            if not calls_ or not kept:
                tests = [x["test"] for x in seg if x["kind"] == "branch"]
                def _sees_bound(t) -> bool:
                    # the variables of a term say nothing about its constant: `term.vars` / `.variables` of a term built
                    # from the row does not look at the bound
                    if isinstance(t, tuple) and len(t) == 3 and t[0] == "attr" and t[2] in ("vars", "variables"):
                        return False
                    if t == ("param", vec):
                        return True
                    return isinstance(t, tuple) and any(_sees_bound(x) for x in t if isinstance(x, tuple))

                looks_at_bound = any(_sees_bound(t) for t in tests)
                what = "; ".join(sorted({norm(x["node"])[:70] for x in seg if x["kind"] == "branch"})) or "(unconditionally)"
                verdicts[what] = "undecided" if looks_at_bound else "violation"
            seg = None
    for what, v in sorted(verdicts.items()):
        if v == "violation":
            ctx.violation(rule, key, construct, "a %s is passed over when: %s - a condition that does not involve the bounds %s, so the row cannot have been dealt with correctly" % (what_rows, what, vec), where=fi.where)
        else:
            ctx.cannot_decide(rule, key, construct, "a %s is passed over when: %s" % (what_rows, what))
    if not verdicts:
        ctx.ok(rule, key, construct + " (%d iteration paths)" % n)
    ctx.floor("%s row iterations" % short, n, floor)


def rule_containment_every_row(ctx: Ctx, rule: str = "containment-every-row") -> None:
    """C03/C02: verify_polytope_containment decides every row of the right-hand side with an LP."""
    _every_row(ctx, rule, PTL + "verify_polytope_containment", "linprog", "a_r", "b_r", "verify_polytope_containment", "row of the right-hand side", "decided by an LP", assume=status_assume(0))


def rule_back_conversion_every_row(ctx: Ctx, rule: str = "matrix-roundtrip") -> None:
    """C07: polytope_to_termlist turns every row of the matrix into a term (a row without coefficients and a negative
    bound is what makes a list unsatisfiable; dropping it on its coefficients alone changes the meaning)."""
    _every_row(ctx, rule, PTL + "polytope_to_termlist", "polytope_to_term", "matrix", "vector", "polytope_to_termlist", "row of the matrix", "turned into a term of the result", floor=1, keep_result=True)


def _paired_relaxation(ctx: Ctx, p: PPath, key: str, vecp: str) -> Optional[Fraction]:
    """reduce_polytope: `b_temp[i] += k` before the LP must be undone by `b_temp[i] -= k` before the entry is read again."""
    fi = ctx.prog.func(key)
    evs = p.events
    lp_i = next(i for i, e in enumerate(evs) if e["kind"] == "call" and e["callee"].endswith("linprog"))
    inc = None
    for e in evs[:lp_i]:
        if e["kind"] == "augassign" and not e["target_is_name"] and mentions(e["target"], lambda y: y == ("param", vecp)) and is_const(e["rhs"]):
            k = Fraction(e["rhs"][1]) * (1 if e["op"] == "Add" else -1 if e["op"] == "Sub" else 0)
            inc = (e, k)
    if inc is None:
        return Fraction(0)
    e0, k = inc
    construct = "reduce_polytope: the temporary relaxation of the tested bound is undone before the bound is used"
    undone = False
    for e in evs[lp_i + 1:]:
        if e["kind"] == "augassign" and e["target"] == e0["target"] and is_const(e["rhs"]):
            k2 = Fraction(e["rhs"][1]) * (1 if e["op"] == "Add" else -1 if e["op"] == "Sub" else 0)
            if k + k2 == 0:
                undone = True
            break
        base = e0["target"][1] if e0["target"][0] == "sub" else None
        uses = False
        if e["kind"] == "branch" and base is not None and mentions(e["test"], lambda y: y == base):
            uses = True
        if e["kind"] == "call" and base is not None and any(mentions(a, lambda y: y == base) for a in e["args"]):
            uses = True
        if e["kind"] in ("loop-body-end", "loop-continue", "loop-break"):
            uses = True
        if uses:
            break
    if undone:
        ctx.ok("lp-pairing", key, construct)
    else:
        ctx.violation("lp-pairing", key, construct, "after `%s` and the LP call the entry is read (or the iteration ends) without the matching undo on path %s" % (norm(e0["node"]), p.label()), where=fi.where)
    return k


# ----------------------------------------------------- refines / emptiness ordering
def _mcall_on(v, name: str, param: str) -> bool:
    return isinstance(v, tuple) and len(v) >= 3 and v[0] == "mcall" and v[1] == name and v[2] == ("param", param)


def _no_terms_test(v) -> Optional[Tuple[str, bool]]:
    """Recognise 'the list <param> has no terms' in its usual spellings -> (param, polarity) ; polarity False = negated."""
    if not isinstance(v, tuple) or not v:
        return None
    if v[0] == "mcall" and v[1] == "lacks_constraints" and v[2][0] == "param":
        return (v[2][1], True)
    if v[0] == "cmp" and v[1] in ("Eq", "NotEq", "Gt", "LtE", "Lt", "GtE") and is_const(v[3]) and v[3][1] in (0, 1):
        l = v[2]
        if l[0] == "call" and l[1] == "len" and len(l[2]) == 1 and l[2][0][0] == "attr" and l[2][0][2] == "terms" and l[2][0][1][0] == "param":
            k = v[3][1]
            truth = {("Eq", 0): True, ("NotEq", 0): False, ("Gt", 0): False, ("LtE", 0): True, ("Lt", 1): True, ("GtE", 1): False}.get((v[1], k))
            if truth is not None:
                return (l[2][0][1][1], truth)
    if v[0] == "attr" and v[2] == "terms" and v[1][0] == "param":
        return (v[1][1], False)  # truthiness of the list = 'has terms'
    return None


def rule_contract_simplify(ctx: Ctx, rule: str = "contract-simplify") -> None:
    """C07: the documented in-place method IoContract.simplify() replaces the guarantees by their simplification in
    the context of the assumptions - on every path (a contract without assumptions still has guarantees that can be
    redundant among themselves: an empty context is a context)."""
    prog = ctx.prog
    fi = prog.func("IoContract.simplify")
    me = fi.params[0]
    construct = "IoContract.simplify(): self.g = self.g.simplify(self.a) on every path"
    n = 0
    for p in Sim(prog, fi).paths():
        if p.terminal != "return":
            continue
        n += 1
        stores = [e for e in p.events if e["kind"] == "store" and e["target"] == ("attr", ("param", me), "g")]
        okc = False
        for e in stores:
            v = e["value"]
            if isinstance(v, tuple) and v and v[0] == "mcall" and v[1] == "simplify" and v[2] == ("attr", ("param", me), "g") and list(v[3]) + [x for _k, x in v[4]] == [("attr", ("param", me), "a")]:
                okc = True
        if okc:
            ctx.ok(rule, fi.key, construct + " @ " + (p.label()[:40] or "straight line"))
        else:
            ctx.violation(rule, fi.key, construct, "a path returns without simplifying the guarantees against the assumptions (path %s; stores: %s)" % (p.label()[:80] or "straight line", [show(e["value"], 3) for e in stores]), where=fi.where)
    ctx.floor("IoContract.simplify returning paths", n, 1)


def _lacks_constraints_by_run(prog: Program, lc):
    """lacks_constraints() run by the kernel interpreter: True for the empty list only - a list of terms without
    variables (0 <= -1, what is left when like terms cancel) HAS constraints.  True / a description / None."""
    from .termalg import DictV, Key, ListV, Raised, Rec, TermAlg, num
    from .termalg import Undecidable as _Und

    def term(d, c):
        return Rec("PolyhedralTerm", {"variables": DictV({Key(k): num(v) for k, v in d.items()}), "constant": num(c)})

    cases = [([], True, "the empty list"), ([term({}, -1)], False, "the list [0 <= -1] (no variable, unsatisfiable)"), ([term({"x": 1}, 1)], False, "the list [x <= 1]"), ([term({}, 1), term({"x": 1}, 1)], False, "the list [0 <= 1, x <= 1]")]
    try:
        for terms, want, label in cases:
            ta = TermAlg(prog)
            got = ta.truth(ta.call(lc, [], {}, self_val=Rec("PolyhedralTermList", {"terms": ListV(terms)})))
            if got is not want:
                return "%s is said %s constraints" % (label, "to lack" if got else "to have")
    except (AnalysisError, _Und, Raised, KeyError, AttributeError):
        return None
    return True


def rule_refines_order(ctx: Ctx, rule: str = "refines-order") -> None:
    """C03: PolyhedralTermList.refines - an unconstrained right side is refined by anything (decided first), an
    unconstrained left side refines nothing else; otherwise containment of (self) in (other), in that order."""
    prog = ctx.prog
    key = PTL + "refines"
    fi = prog.func(key)
    lc = prog.func(PTL + "lacks_constraints")
    # lacks_constraints is 'no terms'
    rets = [n for n in ast.walk(lc.node) if isinstance(n, ast.Return)]
    construct = "lacks_constraints() is 'the list has no terms'"
    t = norm(rets[0].value).replace(" ", "") if len(rets) == 1 else ""
    verdict = _lacks_constraints_by_run(prog, lc)
    if verdict is True or (verdict is None and t in ("len(self.terms)==0", "notself.terms", "self.terms==[]", "len(self.terms)<1", "0==len(self.terms)")):
        ctx.ok(rule, lc.key, construct)
    elif isinstance(verdict, str):
        ctx.violation(rule, lc.key, construct, verdict, where=lc.where)
    else:
        ctx.cannot_decide(rule, lc.key, construct, "unrecognised body: %s" % t)
    want = {(True, True): "return True", (False, True): "return True", (True, False): "return False"}
    for se in (True, False):
        for oe in (True, False):

            def extra(v, se=se, oe=oe):
                r = _no_terms_test(v)
                if r is not None and r[0] in ("self", "other"):
                    val = se if r[0] == "self" else oe
                    return const(val if r[1] else not val)
                return None

            ps = Sim(prog, fi, assume=status_assume(None, extra)).paths()
            outs = {outcome(p) for p in ps}
            construct = "refines: left %s, right %s" % ("unconstrained" if se else "constrained", "unconstrained" if oe else "constrained")
            if len(ps) != 1 and (se, oe) in want:
                ctx.cannot_decide(rule, key, construct, "the case is not decided by lacks_constraints() alone (%d paths)" % len(ps))
                continue
            if len(ps) != 1:
                # both sides constrained and more than one way through the function: every one of them has to end in
                # the containment test of self in other - an answer given on some other ground (a pre-filter of the
                # left side that comes out empty, a shortcut on shared variables) is not the semantic one
                for p in ps:
                    v = p.value
                    okp = False
                    whyp = "a path answers %s without the containment test (path %s)" % (outcome(p), p.label()[:80])
                    if p.terminal == "return" and isinstance(v, tuple) and v[0] == "call" and v[1].endswith("verify_polytope_containment"):
                        t2p = [e for e in p.calls("termlist_to_polytope")]
                        if len(t2p) == 1 and t2p[0]["args"] == (("param", "self"), ("param", "other")):
                            okp = True
                        else:
                            whyp = "matrices are not built by termlist_to_polytope(self, other): %s (path %s)" % ([show(e["result"], 3) for e in t2p], p.label()[:60])
                    if okp:
                        ctx.ok(rule, key, construct + " -> containment of self in other @ " + p.label()[:40])
                    else:
                        ctx.violation(rule, key, construct, whyp, where=fi.where)
                continue
            p = ps[0]
            if (se, oe) in want:
                if outs == {want[(se, oe)]}:
                    ctx.ok(rule, key, construct + " -> " + want[(se, oe)])
                else:
                    ctx.violation(rule, key, construct, "leads to %s, expected %s" % (sorted(outs), want[(se, oe)]), where=fi.where)
            else:
                # general case: verify_polytope_containment(A(self), b(self), A(other), b(other))
                v = p.value
                okc = False
                why = "returns %s" % show(v, 4)
                if p.terminal == "return" and isinstance(v, tuple) and v[0] == "call" and v[1].endswith("verify_polytope_containment"):
                    t2p = [e for e in p.calls("termlist_to_polytope")]
                    if len(t2p) == 1 and t2p[0]["args"] == (("param", "self"), ("param", "other")):
                        res = t2p[0]["result"]
                        vfi = prog.func(PTL + "verify_polytope_containment")
                        bound = dict(zip(vfi.params, v[2]))
                        bound.update({k_: x for k_, x in v[3]})
                        args = [bound.get(pn) for pn in vfi.params[:4]]
                        want_args = [("item", res, i) for i in (1, 2, 3, 4)]
                        if args == want_args:
                            okc = True
                        else:
                            why = "containment is asked with the matrices in the order %s" % [show(a, 2) for a in args]
                    else:
                        why = "matrices are not built by termlist_to_polytope(self, other): %s" % [show(e["result"], 3) for e in t2p]
                if okc:
                    ctx.ok(rule, key, construct + " -> containment of self in other")
                else:
                    ctx.violation(rule, key, construct, why, where=fi.where)


def rule_emptiness_precheck(ctx: Ctx, rule: str = "emptiness-precheck") -> None:
    """C03: verify_polytope_containment - an empty left side is contained in everything (tested first); otherwise an
    empty right side contains nothing."""
    prog = ctx.prog
    key = PTL + "verify_polytope_containment"
    fi = prog.func(key)

    def side(v) -> Optional[str]:
        if isinstance(v, tuple) and v[0] == "call" and v[1].endswith("is_polytope_empty"):
            args = list(v[2]) + [x for _k, x in v[3]]
            if args == [("param", "a_l"), ("param", "b_l")]:
                return "l"
            if args == [("param", "a_r"), ("param", "b_r")]:
                return "r"
            return "?"
        return None

    want = {(True, True): "return True", (True, False): "return True", (False, True): "return False"}
    for le in (True, False):
        for re_ in (True, False):
            if (le, re_) not in want:
                continue

            def extra(v, le=le, re_=re_):
                s = side(v)
                if s == "l":
                    return const(le)
                if s == "r":
                    return const(re_)
                return None

            ps = Sim(prog, fi, assume=status_assume(None, extra), loop_iters=(0,)).paths()
            outs = {outcome(p) for p in ps}
            construct = "containment: left %s, right %s -> %s" % ("empty" if le else "non-empty", "empty" if re_ else "non-empty", want[(le, re_)])
            if outs == {want[(le, re_)]}:
                ctx.ok(rule, key, construct)
            else:
                ctx.violation(rule, key, construct, "leads to %s" % sorted(outs), where=fi.where)
    # no rows on the right and nothing empty: vacuous truth
    ps = Sim(prog, fi, assume=status_assume(None, lambda v: const(False) if side(v) in ("l", "r") else None), loop_iters=(0,)).paths()
    outs = {outcome(p) for p in ps}
    construct = "containment: no right-hand rows -> return True"
    (ctx.ok(rule, key, construct) if outs == {"return True"} else ctx.violation(rule, key, construct, "leads to %s" % sorted(outs), where=fi.where))


# ----------------------------------------------------------- simplify wiring
def rule_simplify_wiring(ctx: Ctx, rule: str = "simplify-wiring") -> None:
    """C07(c): simplify(context) reduces (self minus the terms already in the context) against the context - never
    the converse - and maps the surviving rows back with the same variable order; ValueError stays ValueError."""
    prog = ctx.prog
    key = PTL + "simplify"
    fi = prog.func(key)
    for with_ctx in (True, False):

        def extra(v, with_ctx=with_ctx):
            if v == ("param", "context"):
                return const(with_ctx)  # truthiness of the context argument
            return None

        ps = Sim(prog, fi, assume=status_assume(None, extra)).paths()
        ps = [p for p in ps if p.terminal == "return"]
        construct = "simplify(%s): wiring" % ("context" if with_ctx else "no context")
        # a path that hands back the operand itself (or its copy) cannot change the meaning: only C13 cares which
        me = ("param", fi.params[0])
        ident = [p for p in ps if p.value == me or (isinstance(p.value, tuple) and p.value[0] == "mcall" and p.value[1] == "copy" and p.value[2] == me)]
        ps = [p for p in ps if p not in ident]
        if ident and not any(p.calls("reduce_polytope") for p in ident):
            ctx.ok(rule, key, "simplify(%s): a shortcut path returns the operand unchanged" % ("context" if with_ctx else "no context"), nontrivial=False)
        if len(ps) != 1:
            ctx.cannot_decide(rule, key, construct, "%d returning paths" % len(ps))
            continue
        p = ps[0]
        t2p = p.calls("termlist_to_polytope")
        red = p.calls("reduce_polytope")
        back = p.calls("polytope_to_termlist")
        if not (len(t2p) == 1 and len(red) == 1 and len(back) == 1):
            ctx.cannot_decide(rule, key, construct, "expected one call each of termlist_to_polytope / reduce_polytope / polytope_to_termlist")
            continue
        a0 = list(t2p[0]["args"]) + [x for _k, x in t2p[0]["kws"]]
        problems = []
        if with_ctx:
            want_first = [("bin", "Sub", ("param", "self"), ("param", "context"))]
            first_ok = len(a0) == 2 and (a0[0] in want_first + [("param", "self")])
            if len(a0) == 2 and not first_ok and a0[0][0] == "new" and a0[0][2]:
                inner = a0[0][2][0]
                # PolyhedralTermList(list_diff(self.terms, context.terms)) is the same list as self - context
                if inner[0] == "call" and inner[1].endswith("list_diff") and list(inner[2]) == [("attr", ("param", "self"), "terms"), ("attr", ("param", "context"), "terms")]:
                    first_ok = True
            if not (first_ok and a0[1] == ("param", "context")):
                problems.append("matrices are built from %s" % [show(x, 3) for x in a0])
        else:
            if not (len(a0) == 2 and a0[0] == ("param", "self") and a0[1][0] == "new" and not a0[1][2]):
                problems.append("matrices are built from %s" % [show(x, 3) for x in a0])
        res = t2p[0]["result"]
        ra = list(red[0]["args"]) + [x for _k, x in red[0]["kws"]]
        if ra != [("item", res, i) for i in (1, 2, 3, 4)] and ra != [("sub", res, const(i)) for i in (1, 2, 3, 4)]:
            problems.append("reduce_polytope receives %s" % [show(x, 2) for x in ra])
        rr = red[0]["result"]
        ba = list(back[0]["args"]) + [x for _k, x in back[0]["kws"]]
        want_back = [[("item", rr, 0), ("item", rr, 1), ("item", res, 0)], [("item", rr, 0), ("item", rr, 1), ("sub", res, const(0))]]
        if ba not in want_back:
            problems.append("polytope_to_termlist receives %s" % [show(x, 2) for x in ba])
        if p.value != back[0]["result"]:
            problems.append("returns %s" % show(p.value, 3))
        if problems:
            ctx.violation(rule, key, construct, "; ".join(problems), where=fi.where)
        else:
            ctx.ok(rule, key, construct)
    # a failing reduction surfaces as ValueError
    ps = Sim(prog, fi, raises=lambda c, v: ["ValueError"] if c.endswith("reduce_polytope") else []).paths()
    outs = {outcome(p) for p in ps if p.terminal == "raise"}
    construct = "simplify: an infeasible system surfaces as ValueError"
    if outs and all(_exc_sub(prog, o[6:], "ValueError") for o in outs):
        ctx.ok(rule, key, construct)
    else:
        ctx.violation(rule, key, construct, "outcomes %s" % sorted(outs), where=fi.where)


def _subst(v, pred, repl):
    if pred(v):
        return repl
    if isinstance(v, tuple):
        return tuple(_subst(x, pred, repl) for x in v)
    return v


def _comp_element(v):
    """If v denotes a list obtained from a base list by (nested) comprehensions without filters - possibly wrapped in
    np.array / list - return (element expression in terms of the base list's iteration element, base list)."""
    if isinstance(v, tuple) and v and v[0] == "call" and str(v[1]) in ("numpy.array", "numpy.asarray", "list") and len(v[2]) == 1:
        return _comp_element(v[2][0])
    if isinstance(v, tuple) and v and v[0] == "ifexp" and len(v) == 4:
        # `rows if <list non-empty> else <empty array>`: the branch that carries rows decides
        cands = [c for c in (_comp_element(v[2]), _comp_element(v[3])) if c is not None]
        return cands[0] if len(cands) == 1 else None
    if isinstance(v, tuple) and v and v[0] == "listcomp":
        elt, gens = v[1], v[2]
        if len(gens) != 1 or gens[0][1]:
            return None
        it = gens[0][0]
        inner = _comp_element(it)
        if inner is None:
            return elt, it
        e_in, base = inner
        isvar = lambda y: isinstance(y, tuple) and len(y) == 4 and y[0] == "iter" and y[1] == it  # noqa: E731
        return _subst(elt, isvar, e_in), base
    return None


def _conversion_laws(ctx: Ctx, rule: str) -> bool:
    """The conversions between constraint lists and matrices, put to the kernel interpreter on symbolic terms: row i /
    column j of the matrix is the coefficient of variable j in term i (0 when absent), the vector holds the constants,
    the context gets the same treatment over the same columns, and the back conversion returns the very terms.  True
    when the interpreter followed all four functions (then the reading of their shape is not needed)."""
    from .rules_kernels import _eq, coefs
    from .termalg import DictV, Key, ListV, Raised, Rec, TermAlg, TupV, num, sym
    from .termalg import Undecidable as _Und

    prog = ctx.prog
    x, y, z, w = Key("x"), Key("y"), Key("z"), Key("w")

    def term(p, ks):
        return Rec("PolyhedralTerm", {"variables": DictV({k: sym("%s_%s" % (p, k.name)) for k in ks}), "constant": sym(p + "_c")})

    def tl(ts):
        return Rec("PolyhedralTermList", {"terms": ListV(ts)})

    # the third term mentions no variable (0 <= e_c, what is left when like terms cancel): it is a row like any other
    T = [term("a", [x, y]), term("b", [y, z]), term("e", []), term("d", [x])]
    C = [term("c", [z, w]), term("f", [])]
    f_fwd = prog.func(PTL + "termlist_to_polytope")
    f_back = prog.func(PTL + "polytope_to_termlist")
    f_t = prog.func("PolyhedralTerm.term_to_polytope")
    f_b = prog.func("PolyhedralTerm.polytope_to_term")
    results = []
    try:
        r = TermAlg(prog).call(f_fwd, [tl(T), tl(C)])
        if not (isinstance(r, TupV) and len(r.items) == 5):
            results.append((f_fwd, "termlist_to_polytope: returns (variables, A, b, A_ctx, b_ctx)", "returns %s" % type(r).__name__))
        else:
            vs, A, b, Ac, bc = r.items
            names = [k.name for k in vs.items] if isinstance(vs, ListV) else None
            prob = None
            if names is None or sorted(names) != ["w", "x", "y", "z"] or len(set(names)) != 4:
                prob = "the column variables are %s for terms over x, y, z and a context over z, w" % names
            else:
                for label, terms, M, v in (("terms", T, A, b), ("context", C, Ac, bc)):
                    rows = M.items if isinstance(M, ListV) else None
                    if rows is None or len(rows) != len(terms) or not isinstance(v, ListV) or len(v.items) != len(terms):
                        prob = "%d %s give %s rows and %s bounds" % (len(terms), label, None if rows is None else len(rows), len(v.items) if isinstance(v, ListV) else None)
                        break
                    for i, t in enumerate(terms):
                        cf = coefs(t)
                        row = rows[i].items if isinstance(rows[i], ListV) else []
                        if len(row) != 4:
                            prob = "row %d of the %s has %d entries for 4 columns" % (i, label, len(row))
                            break
                        for j, nm in enumerate(names):
                            if not _eq(row[j], cf.get(nm, num(0))):
                                prob = "%s row %d, column of %s holds %s, the term's coefficient is %s" % (label, i, nm, row[j].show(), cf.get(nm, num(0)).show())
                                break
                        if prob is None and not _eq(v.items[i], t.f["constant"]):
                            prob = "%s bound %d is %s, the term's constant is %s" % (label, i, v.items[i].show(), t.f["constant"].show())
                        if prob:
                            break
                    if prob:
                        break
            results.append((f_fwd, "termlist_to_polytope: row i / column j is the coefficient of variable j in term i, bounds are the constants, the context over the same columns", prob))
            if prob is None:
                back = TermAlg(prog).call(f_back, [A, b, vs])
                got = back.f["terms"].items if isinstance(back, Rec) and isinstance(back.f.get("terms"), ListV) else None
                prob = None
                if got is None or len(got) != len(T):
                    prob = "%d rows come back as %s terms" % (len(T), None if got is None else len(got))
                else:
                    for i, (t0, t1) in enumerate(zip(T, got)):
                        c0, c1 = coefs(t0), coefs(t1)
                        for nm in sorted(set(c0) | set(c1)):
                            if not _eq(c0.get(nm, num(0)), c1.get(nm, num(0))):
                                prob = "term %d: coefficient of %s comes back as %s, was %s" % (i, nm, c1.get(nm, num(0)).show(), c0.get(nm, num(0)).show())
                        if not _eq(t0.f["constant"], t1.f["constant"]):
                            prob = "term %d: constant comes back as %s, was %s" % (i, t1.f["constant"].show(), t0.f["constant"].show())
                results.append((f_back, "polytope_to_termlist: converting the matrix back gives the very terms (every row, every non-zero coefficient, every bound)", prob))
        # an empty context adds no row and no column
        r2 = TermAlg(prog).call(f_fwd, [tl(T), tl([])])
        vs2 = r2.items[0]
        prob = None
        if sorted(k.name for k in vs2.items) != ["x", "y", "z"] or len(r2.items[1].items) != len(T):
            prob = "with an empty context the columns are %s and there are %d rows" % ([k.name for k in vs2.items], len(r2.items[1].items))
        results.append((f_fwd, "termlist_to_polytope: an empty context adds neither rows nor columns", prob))
        # term level
        rt = TermAlg(prog).call(f_t, [T[0], ListV([z, y, x])])
        prob = None
        if not (isinstance(rt, TupV) and len(rt.items) == 2 and isinstance(rt.items[0], ListV) and len(rt.items[0].items) == 3):
            prob = "returns %s" % type(rt).__name__
        else:
            want = [num(0), sym("a_y"), sym("a_x")]
            if not all(_eq(a_, b_) for a_, b_ in zip(rt.items[0].items, want)) or not _eq(rt.items[1], sym("a_c")):
                prob = "a_x x + a_y y <= a_c over the columns [z, y, x] gives %s, %s" % ([c_.show() for c_ in rt.items[0].items], rt.items[1].show())
        results.append((f_t, "term_to_polytope: coefficient i is the coefficient of variable_list[i], constant passed through", prob))
        rb = TermAlg(prog).call(f_b, [ListV([sym("p0"), sym("p1"), sym("p2")]), sym("k"), ListV([z, y, x])])
        prob = None
        cb = coefs(rb) if isinstance(rb, Rec) else None
        if cb is None or not (_eq(cb.get("z", num(0)), sym("p0")) and _eq(cb.get("y", num(0)), sym("p1")) and _eq(cb.get("x", num(0)), sym("p2")) and _eq(rb.f["constant"], sym("k"))):
            prob = "the row [p0, p1, p2] over [z, y, x] with bound k becomes %s" % (None if cb is None else {k_: v_.show() for k_, v_ in cb.items()})
        results.append((f_b, "polytope_to_term: variables[i] gets poly[i], constant passed through", prob))
    except (AnalysisError, _Und, AttributeError, IndexError, KeyError):
        return False
    except Raised as r_:
        ctx.violation(rule, f_fwd.key, "the conversions between constraint lists and matrices run on well-formed lists", "raises %s" % r_.cls, where=f_fwd.where)
        return True
    for f_, construct, prob in results:
        if prob is None:
            ctx.ok(rule, f_.key, construct)
        else:
            ctx.violation(rule, f_.key, construct, prob, where=f_.where)
    return True


def rule_polytope_roundtrip(ctx: Ctx, rule: str = "matrix-roundtrip") -> None:
    """C07(a): termlist_to_polytope builds (A, b) from its first argument's terms and (A_ctx, b_ctx) from the
    second's, coefficient i <-> variable i; polytope_to_termlist maps row i / column j back to the same variables."""
    prog = ctx.prog
    if _conversion_laws(ctx, rule):
        return
    fi = prog.func(PTL + "termlist_to_polytope")
    ps = [p for p in Sim(prog, fi, loop_iters=(1,)).paths() if p.terminal == "return"]
    if not ps or any(p.value[0] != "tuple" or len(p.value[1]) != 5 for p in ps):
        ctx.cannot_decide(rule, fi.key, "return tuple", "termlist_to_polytope does not return a 5-tuple")
    else:
        p0, p1 = fi.params[0], fi.params[1]
        want = {1: (p0, 0), 2: (p0, 1), 3: (p1, 0), 4: (p1, 1)}
        for i, (src, item) in want.items():
            construct = "termlist_to_polytope: element %d is built from the terms of '%s' (%s)" % (i, src, "coefficients" if item == 0 else "constants")
            okc = True
            why = ""
            for p in ps:
                el = p.value[1][i]
                # comprehension form: the list is a (possibly nested) comprehension over <src>.terms
                ce = _comp_element(el)
                if ce is not None:
                    arg, base = ce
                    if base == ("attr", ("param", src), "terms") and arg[0] == "item" and arg[2] == item and arg[1][0] == "call" and arg[1][1].endswith("term_to_polytope") and arg[1][2] and arg[1][2][0][0] == "iter" and arg[1][2][0][1] == base:
                        continue
                    okc = False
                    why = "built by a comprehension whose element is %s over %s" % (show(arg, 4), show(base, 3))
                    continue
                # appended values per list object
                found = False
                for e in p.events:
                    if e["kind"] == "call" and e["callee"] == ".append" and e["recv"] is not None and mentions(el, lambda x, r=e["recv"]: x == r):
                        arg = e["args"][0]
                        # arg must be item <item> of term_to_polytope(each(<src>.terms), variables)
                        if arg[0] == "item" and arg[2] == item and arg[1][0] == "call" and arg[1][1].endswith("term_to_polytope"):
                            targ = arg[1][2]
                            if targ and targ[0][0] == "iter" and targ[0][1] == ("attr", ("param", src), "terms"):
                                found = True
                            else:
                                okc = False
                                why = "rows come from %s" % show(targ[0] if targ else None, 3)
                        else:
                            okc = False
                            why = "appended value is %s" % show(arg, 3)
                if not found and okc:
                    # the empty-context branch returns np.array([[]]) for element 3: fine when no row was appended
                    empty_literal = isinstance(el, tuple) and el and el[0] == "call" and str(el[1]).endswith("array") and len(el[2]) == 1 and not mentions(el[2][0], lambda y: isinstance(y, tuple) and y and y[0] in ("param", "iter", "call", "mcall"))
                    tested_empty = any(e["kind"] == "branch" and mentions(e["test"], lambda y: y == ("attr", ("param", src), "terms")) for e in p.events)
                    if not (i == 3 and empty_literal and tested_empty):
                        okc = False
                        why = "no row of '%s' flows into it (%s)" % (src, show(el, 3))
            if okc:
                ctx.ok(rule, fi.key, construct)
            else:
                ctx.violation(rule, fi.key, construct, why, where=fi.where)
        # one shared variable order for both sides
        construct = "termlist_to_polytope: both sides use the same variable order (element 0)"
        okc = True
        for p in ps:
            v0 = p.value[1][0]
            for c in p.calls("term_to_polytope"):
                if len(c["args"]) < 2 or c["args"][1] != v0:
                    okc = False
        (ctx.ok(rule, fi.key, construct) if okc else ctx.violation(rule, fi.key, construct, "a row is built with a different variable order", where=fi.where))
    # kernels: term_to_polytope / polytope_to_term index agreement
    t2p = prog.func("PolyhedralTerm.term_to_polytope")
    ps = Sim(prog, t2p, loop_iters=(1,)).paths()
    construct = "term_to_polytope: coefficient i is the coefficient of variable_list[i], constant passed through"
    okc = False
    for p in ps:
        apps = [e for e in p.events if e["kind"] == "call" and e["callee"] == ".append"]
        if len(apps) == 1 and p.terminal == "return" and p.value[0] == "tuple":
            arg = apps[0]["args"][0]
            if arg[0] == "mcall" and arg[1] == "get_coefficient" and arg[2] == ("param", "term") and arg[3] and arg[3][0][0] == "iter" and arg[3][0][1] == ("param", "variable_list"):
                if p.value[1][0] == apps[0]["recv"] and p.value[1][1] == ("attr", ("param", "term"), "constant"):
                    okc = True
    (ctx.ok(rule, t2p.key, construct) if okc else ctx.cannot_decide(rule, t2p.key, construct, "neither followed by the interpreter nor of a shape this reading knows"))
    p2t = prog.func("PolyhedralTerm.polytope_to_term")
    ps = Sim(prog, p2t, loop_iters=(1,)).paths()
    construct = "polytope_to_term: variables[i] gets poly[i], constant passed through"
    okc = False
    for p in ps:
        st = [e for e in p.events if e["kind"] == "store"]
        if len(st) == 1 and p.terminal == "return" and p.value[0] == "new" and p.value[1] == "PolyhedralTerm":
            tgt, val = st[0]["target"], st[0]["value"]
            # variable_dict[var] = poly[i] with (i, var) from enumerate(variables): same position on both sides
            if tgt[0] == "sub" and val[0] == "sub" and val[1] == ("param", "poly"):
                key_v, idx_v = tgt[2], val[2]
                same_pos = (
                    isinstance(key_v, tuple) and key_v[0] == "iter" and key_v[1] == ("param", "variables") and is_const(idx_v) and idx_v[1] == key_v[3]
                ) or (
                    isinstance(key_v, tuple) and key_v[0] == "sub" and key_v[1] == ("param", "variables") and key_v[2] == idx_v
                )
                if same_pos:
                    args = list(p.value[2]) + [x for _k, x in p.value[3]]
                    if len(args) == 2 and args[0] == tgt[1] and args[1] == ("param", "const"):
                        okc = True
    (ctx.ok(rule, p2t.key, construct) if okc else ctx.cannot_decide(rule, p2t.key, construct, "neither followed by the interpreter nor of a shape this reading knows"))
    # ... for every entry: a path that stores nothing for a position may only do so because the entry is exactly zero
    construct = "polytope_to_term: no non-zero coefficient is left out"
    dropped = []
    for p in ps:
        if p.terminal != "return":
            continue
        st = [e for e in p.events if e["kind"] == "store"]
        if st:
            continue
        tests = [(e["test"], e["taken"]) for e in p.events if e["kind"] == "branch"]

        def zero_test(t, taken) -> bool:
            while isinstance(t, tuple) and t and t[0] == "un" and t[1] == "Not":
                t, taken = t[2], not taken
            if isinstance(t, tuple) and t and t[0] == "cmp" and t[1] in ("Eq", "NotEq") and const(0) in (t[2], t[3]):
                x = t[3] if t[2] == const(0) else t[2]
                if isinstance(x, tuple) and x[0] == "sub" and x[1] == ("param", "poly"):
                    return (t[1] == "Eq") == taken  # the path is taken when the entry equals zero
            return False

        if tests and all(zero_test(t, k) for t, k in tests if mentions(t, lambda y: y == ("param", "poly"))) and any(mentions(t, lambda y: y == ("param", "poly")) for t, _ in tests):
            continue
        dropped.append("; ".join("%s is %s" % (show(t, 4), k) for t, k in tests) or "(unconditionally)")
    if dropped:
        ctx.violation(rule, p2t.key, construct, "an entry of the row is not stored when %s: a small but non-zero coefficient changes what the term says (times a variable of size 1000 it outweighs the tolerance)" % dropped[0], where=p2t.where)
    else:
        ctx.ok(rule, p2t.key, construct)
    # polytope_to_termlist: row i with vector[i], same `variables`
    b = prog.func(PTL + "polytope_to_termlist")
    ps = [p for p in Sim(prog, b, loop_iters=(1,)).paths() if p.calls("polytope_to_term")]
    construct = "polytope_to_termlist: row i is paired with vector[i] and the given variable order"
    okc = bool(ps)
    for p in ps:
        c = p.calls("polytope_to_term")[0]
        args = list(c["args"]) + [x for _k, x in c["kws"]]
        if len(args) != 3:
            okc = False
            continue
        row, cst, vs = args
        rows = [x for x in walk(row) if isinstance(x, tuple) and x and x[0] == "sub" and x[1] == ("param", "matrix")]
        if not rows or cst[0] != "sub" or cst[1] != ("param", "vector") or rows[0][2] != cst[2] or vs != ("param", "variables"):
            okc = False
    (ctx.ok(rule, b.key, construct) if okc else ctx.cannot_decide(rule, b.key, construct, "neither followed by the interpreter nor of a pairing this reading knows"))


# ------------------------------------------------------------ relax tail (C04 d)
def rule_relax_tail(ctx: Ctx, rule: str = "relax-tail") -> None:
    """C04: every returning path of elim_vars_by_relaxing drops the terms that still mention an eliminated variable;
    a failing transformation / simplification surfaces as ValueError."""
    prog = ctx.prog
    key = PTL + "elim_vars_by_relaxing"
    fi = prog.func(key)
    ps = [p for p in Sim(prog, fi).paths() if p.terminal == "return"]
    n = 0
    for p in ps:
        n += 1
        construct = "elim_vars_by_relaxing: the returned list excludes every term that mentions an eliminated variable"
        v = p.value
        okc = False
        why = "returns %s" % show(v, 4)
        if v[0] == "tuple" and len(v[1]) == 2:
            tl = v[1][0]
            # form 1: T.terms = list_diff(T.terms, T.get_terms_with_vars(vars_to_elim).terms); return T
            for e in p.events:
                if e["kind"] == "store" and e["target"] == ("attr", tl, "terms"):
                    val = e["value"]
                    if val[0] == "call" and val[1].endswith("list_diff") and len(val[2]) == 2:
                        a0, a1 = val[2]
                        if a0 == ("attr", tl, "terms") and a1[0] == "attr" and a1[2] == "terms" and _is_gtwv(a1[1], tl):
                            okc = True
                    # form 1b: the same difference written as a filter  [t for t in T.terms if t not in <those>.terms]
                    if val[0] == "listcomp" and len(val[2]) == 1 and val[2][0][0] == ("attr", tl, "terms") and len(val[2][0][1]) == 1:
                        elt, cond = val[1], val[2][0][1][0]
                        if cond[0] == "un" and cond[1] == "Not" and cond[2][0] == "cmp" and cond[2][1] == "In":
                            cond = ("cmp", "NotIn", cond[2][2], cond[2][3])
                        if elt[0] == "iter" and elt[1] == ("attr", tl, "terms") and cond[0] == "cmp" and cond[1] == "NotIn" and cond[2] == elt:
                            a1 = cond[3]
                            if a1[0] == "attr" and a1[2] == "terms" and _is_gtwv(a1[1], tl):
                                okc = True
            # form 2: return T - T.get_terms_with_vars(vars_to_elim)
            if tl[0] == "bin" and tl[1] == "Sub" and _is_gtwv(tl[3], tl[2]):
                okc = True
                tl = tl[2]
            # the list must come out of _transform(refine=False)
            tr = p.calls("_transform")
            if okc and not (len(tr) == 1 and (tl == ("item", tr[0]["result"], 0))):
                okc = False
                why = "the filtered list is not the result of _transform"
            if okc:
                kws = dict(tr[0]["kws"])
                pos = list(tr[0]["args"])
                refine = kws.get("refine", pos[2] if len(pos) > 2 else None)
                if refine != const(False):
                    okc = False
                    why = "_transform is called with refine=%s" % show(refine)
                elim = kws.get("vars_to_elim", pos[1] if len(pos) > 1 else None)
                ctxa = kws.get("context", pos[0] if pos else None)
                if elim != ("param", "vars_to_elim") or ctxa != ("param", "context"):
                    okc = False
                    why = "_transform receives context=%s vars_to_elim=%s" % (show(ctxa), show(elim))
        if okc:
            ctx.ok(rule, key, construct + " @ " + p.label()[:60])
        else:
            ctx.violation(rule, key, construct, why + " (path %s)" % p.label(), where=fi.where)
    ctx.floor("elim_vars_by_relaxing returning paths", n, 2)
    _elim_error_discipline(ctx, key, rule)


def _is_gtwv(v, tl) -> bool:
    return isinstance(v, tuple) and v[0] == "mcall" and v[1] == "get_terms_with_vars" and v[2] == tl and list(v[3]) + [x for _k, x in v[4]] == [("param", "vars_to_elim")]


def _elim_error_discipline(ctx: Ctx, key: str, rule: str) -> None:
    prog = ctx.prog
    fi = prog.func(key)
    ps = Sim(prog, fi, raises=lambda c, v: ["ValueError"] if c in (".simplify", "._transform") else []).paths()
    outs = {outcome(p) for p in ps if p.terminal == "raise"}
    construct = "%s: a failing simplification / transformation surfaces as ValueError" % key.split(".")[-1]
    if outs and all(_exc_sub(prog, o[6:], "ValueError") for o in outs):
        ctx.ok(rule, key, construct)
    else:
        ctx.violation(rule, key, construct, "outcomes: %s" % sorted(outs), where=fi.where)


def rule_refine_wrapper(ctx: Ctx, rule: str = "refine-wrapper") -> None:
    """C04: elim_vars_by_refining returns the result of _transform(refine=True) on (optionally simplified) self."""
    prog = ctx.prog
    key = PTL + "elim_vars_by_refining"
    fi = prog.func(key)
    ps = [p for p in Sim(prog, fi).paths() if p.terminal == "return"]
    for p in ps:
        construct = "elim_vars_by_refining: returns _transform(context, vars_to_elim, refine=True)"
        tr = p.calls("_transform")
        okc = len(tr) == 1 and p.value == tr[0]["result"]
        why = "returns %s" % show(p.value, 3)
        if okc:
            kws = dict(tr[0]["kws"])
            pos = list(tr[0]["args"])
            refine = kws.get("refine", pos[2] if len(pos) > 2 else None)
            elim = kws.get("vars_to_elim", pos[1] if len(pos) > 1 else None)
            ctxa = kws.get("context", pos[0] if pos else None)
            if refine != const(True) or elim != ("param", "vars_to_elim") or ctxa != ("param", "context"):
                okc = False
                why = "_transform receives context=%s vars_to_elim=%s refine=%s" % (show(ctxa), show(elim), show(refine))
            recv = tr[0]["recv"]
            if okc and not (recv == ("param", "self") or (recv[0] == "mcall" and recv[1] in ("simplify", "copy") and recv[2] == ("param", "self"))):
                okc = False
                why = "_transform is applied to %s" % show(recv, 3)
            if okc and recv[0] == "mcall" and recv[1] == "simplify" and list(recv[3]) + [x for _k, x in recv[4]] != [("param", "context")]:
                okc = False
                why = "self is simplified against %s" % show(recv[3], 3)
        (ctx.ok(rule, key, construct + " @ " + p.label()[:50]) if okc else ctx.violation(rule, key, construct, why, where=fi.where))
    _elim_error_discipline(ctx, key, rule)


# ------------------------------------------------------------- _transform (C04 a)
def rule_transform(ctx: Ctx, rule: str = "transform") -> None:
    """C04(a): _transform rewrites each touching term with _transform_term(term, context | (all other current terms),
    vars_to_elim, refine, tactics_order), keeps a copy of the term when that fails with ValueError, copies
    non-touching terms unchanged and simplifies only when asked to."""
    prog = ctx.prog
    key = PTL + "_transform"
    fi = prog.func(key)
    ps = Sim(prog, fi, loop_iters=(1,), raises=lambda c, v: ["ValueError"] if c.endswith("_transform_term") else []).paths()
    ps = [p for p in ps if p.terminal == "return"]
    n = 0
    for p in ps:
        n += 1
        stores = [e for e in p.events if e["kind"] == "store" and e["target"][0] == "sub"]
        construct = "_transform: per-term rewrite"
        if not any(e["kind"] == "loop-iter" for e in p.events):
            continue  # returned before looking at any term (nothing to rewrite): not a rewrite path
        if len(stores) != 1:
            ctx.cannot_decide(rule, key, construct, "expected one store of the rewritten term per iteration (path %s)" % p.label())
            continue
        val = stores[0]["value"]
        tt = p.calls("_transform_term")
        raised = any(e.get("raised") for e in tt)
        term_it = None
        for e in p.events:
            if e["kind"] == "loop-iter":
                term_it = e
                break
        if tt:
            c = tt[0]
            args = list(c["args"]) + [x for _k, x in c["kws"]]
            term = args[0] if args else None
            problems = []
            if len(args) < 4 or args[2] != ("param", "vars_to_elim") or args[3] != ("param", "refine"):
                problems.append("arguments are %s" % [show(a, 2) for a in args])
            helpers = args[1] if len(args) > 1 else None
            # helpers = context | X,   X a copy of the current list from which `term` was removed
            okh = False
            if helpers is not None and helpers[0] == "bin" and helpers[1] == "BitOr" and ("param", "context") in (helpers[2], helpers[3]):
                x = helpers[3] if helpers[2] == ("param", "context") else helpers[2]
                # the working list: the one whose i-th term the rewritten term is stored into
                tgt = stores[0]["target"]
                working = tgt[1][1] if isinstance(tgt[1], tuple) and tgt[1][0] == "attr" and tgt[1][2] == "terms" else None
                for e in p.events:
                    if e["kind"] == "call" and e["callee"] == ".remove" and e["recv"] == ("attr", x, "terms") and e["args"] == (term,):
                        if x[0] == "mcall" and x[1] == "copy":
                            if working is None or x[2] == working:
                                okh = True
                            else:
                                problems.append("the helpers are a copy of %s, not of the list being rewritten (%s): a term already rewritten must help in its rewritten form, or two terms are each justified by the other's original" % (show(x[2], 3), show(working, 3)))
                # or: a new list built from the CURRENT terms with the term itself filtered out
                if not okh and x[0] == "new" and x[2] and x[2][0][0] == "listcomp":
                    lc = x[2][0]
                    gens = lc[2]
                    cur_terms = [e_["recv"] for e_ in p.events if e_["kind"] == "call" and e_["callee"] == "._never_"]
                    over_current = all(mentions(g[0], lambda y: isinstance(y, tuple) and y[0] == "attr" and y[2] == "terms" and y[1][0] == "mcall" and y[1][1] == "copy") or mentions(g[0], lambda y: y == ("attr", ("mcall", "copy", ("param", "self"), (), ()), "terms")) for g in gens)
                    filtered = any(g[1] and any(mentions(c_, lambda y: y == term) or mentions(c_, lambda y: isinstance(y, tuple) and y[0] == "item" and y[1][0] == "iter") for c_ in g[1]) for g in gens)
                    if filtered and over_current:
                        okh = True
            if not okh:
                problems.append("the helper context %s is not context | (copy of the current terms minus the term itself)" % show(helpers, 4))
            if raised:
                if not (val[0] == "mcall" and val[1] == "copy" and val[2] == term):
                    problems.append("after a ValueError the term is replaced by %s instead of its copy" % show(val, 3))
            else:
                if val != ("item", c["result"], 0):
                    problems.append("the stored term is %s, not the tactic result" % show(val, 3))
            if problems:
                ctx.violation(rule, key, construct, "; ".join(problems) + " (path %s)" % p.label(), where=fi.where)
            else:
                ctx.ok(rule, key, construct + " @ " + p.label()[:70])
        else:
            # non-touching term: unchanged copy
            if val[0] == "mcall" and val[1] == "copy" and val[2][0] in ("item", "iter"):
                ctx.ok(rule, key, "_transform: a term without eliminated variables is copied unchanged @ " + p.label()[:60])
            else:
                ctx.violation(rule, key, "_transform: a term without eliminated variables is copied unchanged", "it becomes %s" % show(val, 3), where=fi.where)
        # trailing simplification only when asked
        simp = [e for e in p.calls("simplify")]
        asked = _flag_on_path(p, ("param", "simplify")) is True
        construct = "_transform: final simplification against the context only when simplify is set"
        if bool(simp) == asked and all(list(e["args"]) + [x for _k, x in e["kws"]] == [("param", "context")] for e in simp):
            ctx.ok(rule, key, construct + " @ " + p.label()[:60], nontrivial=False)
        else:
            ctx.violation(rule, key, construct, "simplify calls: %s with simplify=%s" % ([show(e["result"], 3) for e in simp], asked), where=fi.where)
    ctx.floor("_transform paths", n, 6)


def _flag_on_path(p, flag) -> Optional[bool]:
    """What a path decided about a Boolean value, whichever way round the test is written (`if flag` / `if not flag`)."""
    for e in p.events:
        if e["kind"] != "branch":
            continue
        t = e["test"]
        if t == flag:
            return bool(e["taken"])
        if isinstance(t, tuple) and t[:2] == ("un", "Not") and t[2] == flag:
            return not e["taken"]
    return None


# ----------------------------------------------------------- dispatcher (C04 a)
def rule_dispatcher(ctx: Ctx, rule: str = "dispatcher") -> None:
    """C04(a): _transform_term tries TACTICS[n](term, context, vars_to_elim, refine) in the given order, returns the
    first non-None result, treats ValueError as 'declined', and falls back to an unchanged copy of the term."""
    prog = ctx.prog
    key = PTL + "_transform_term"
    fi = prog.func(key)

    def is_tactic(c: str) -> bool:
        return "TACTICS" in c

    def extra(v):
        # the irrelevant-call guard is not taken
        if isinstance(v, tuple) and v[0] == "call" and v[1].endswith("list_intersection"):
            return const(True)
        if isinstance(v, tuple) and v[0] == "cmp" and v[1] in ("Is", "IsNot") and v[2] == ("param", "tactics_order"):
            return const(v[1] == "IsNot")
        return None

    for exc in ("ValueError", "IncompatibleArgsError"):
        ps = Sim(prog, fi, assume=status_assume(None, extra), raises=lambda c, v, exc=exc: [exc] if is_tactic(c) else []).paths()
        n = 0
        for p in ps:
            calls = [e for e in p.events if e["kind"] == "call" and is_tactic(e["callee"])]
            iters = [c for (t, c) in p.decisions if t.startswith("loop@")]
            if not calls:
                # no tactic tried: unchanged copy, code -1
                construct = "dispatcher: with no tactic available the term is returned as an unchanged copy"
                v = p.value
                if p.terminal == "return" and v[0] == "tuple" and v[1][0] == ("mcall", "copy", ("param", "term"), (), (), v[1][0][-1]):
                    ctx.ok(rule, key, construct)
                else:
                    ctx.violation(rule, key, construct, "outcome %s %s" % (p.terminal, show(p.value, 3)), where=fi.where)
                continue
            n += 1
            c = calls[0]
            args = list(c["args"]) + [x for _k, x in c["kws"]]
            construct = "dispatcher: tactics receive (term, context, vars_to_elim, refine)"
            if args == [("param", "term"), ("param", "context"), ("param", "vars_to_elim"), ("param", "refine")]:
                ctx.ok(rule, key, construct, nontrivial=False)
            else:
                ctx.violation(rule, key, construct, "arguments are %s" % [show(a, 2) for a in args], where=fi.where)
            # which tactic: TACTICS[<element of tactics_order>]
            construct = "dispatcher: the tactic tried is TACTICS[n] for n iterating over tactics_order"
            f = c["f"]
            if f[0] == "sub" and f[2][0] == "iter" and f[2][1] == ("param", "tactics_order"):
                ctx.ok(rule, key, construct, nontrivial=False)
            else:
                ctx.violation(rule, key, construct, "callee is %s" % show(f, 3), where=fi.where)
            if c.get("raised"):
                construct = "dispatcher: a tactic declining with %s is skipped, fallback is an unchanged copy" % exc
                v = p.value
                if p.terminal == "return" and v[0] == "tuple" and v[1][0][0] == "mcall" and v[1][0][1] == "copy" and v[1][0][2] == ("param", "term"):
                    ctx.ok(rule, key, construct)
                else:
                    ctx.violation(rule, key, construct, "outcome: %s" % (outcome(p) if p.terminal == "raise" else show(p.value, 3)), where=fi.where)
            else:
                res0 = ("item", c["result"], 0)
                none_dec = [cv for (t, cv) in p.decisions if "None" in t]
                v = p.value
                if p.terminal != "return" or v[0] != "tuple":
                    ctx.violation(rule, key, "dispatcher: returns a tuple", "outcome %s" % outcome(p), where=fi.where)
                    continue
                first = v[1][0]
                construct = "dispatcher: the first non-None tactic result is returned, otherwise an unchanged copy"
                if first == res0 or (first[0] == "mcall" and first[1] == "copy" and first[2] == ("param", "term")):
                    ctx.ok(rule, key, construct + " @ " + p.label()[:50])
                else:
                    ctx.violation(rule, key, construct, "returns %s" % show(first, 3), where=fi.where)
        ctx.floor("dispatcher paths with a tactic call", n, 2)


# ----------------------------------------------------- decline discipline (C04 c)
TACTIC_FUNCS = ["_tactic_1", "_tactic_2", "_tactic_3", "_tactic_4", "_tactic_5", "_context_reduction", "_get_kaykobad_context", "_get_tlp_context"]


def rule_decline_discipline(ctx: Ctx, rule: str = "tactic-decline") -> None:
    """C04(c): inside the tactics every explicit failure is a ValueError (so the dispatcher can absorb it);
    tactic 4 refuses to relax."""
    prog = ctx.prog
    n = 0
    for name in TACTIC_FUNCS:
        fi = prog.func(PTL + name)
        for node in ast.walk(fi.node):
            if isinstance(node, ast.Raise):
                n += 1
                from .cfg import exc_class_of

                cls = exc_class_of(node.exc)
                construct = "%s: explicit failures are ValueError" % name
                if cls is None or (isinstance(node.exc, ast.Name) and not _exc_known(prog, cls)):
                    # `raise e` of a caught exception: the handler must catch ValueError
                    ctx.ok(rule, fi.key, construct + " (re-raise)", nontrivial=False)
                elif _exc_sub(prog, cls, "ValueError"):
                    ctx.ok(rule, fi.key, construct + " @ " + norm(node)[:50])
                else:
                    ctx.violation(rule, fi.key, construct, "raises %s: %s" % (cls, norm(node)[:80]), where="%s:%d" % (fi.module.relpath, node.lineno))
    ctx.floor("explicit raises inside tactics", n, 10)
    # tactic 4 refuses refine=False
    fi = prog.func(PTL + "_tactic_4")
    ps = Sim(prog, fi, assume=lambda v: const(False) if v == ("param", "refine") else None, loop_iters=(0, 1)).paths()
    outs = {outcome(p) for p in ps}
    construct = "_tactic_4 declines (ValueError) when asked to relax"
    if outs and all(o.startswith("raise") and _exc_sub(prog, o[6:], "ValueError") for o in outs):
        ctx.ok(rule, fi.key, construct)
    else:
        ctx.violation(rule, fi.key, construct, "with refine=False the outcomes are %s" % sorted(outs), where=fi.where)


def _exc_known(prog: Program, c: str) -> bool:
    from .cfg import ExcTable

    return ExcTable(prog).known(c)


# ------------------------------------------------------------------ polarity
def _coef_of(r: Rat, pred: Callable[[Any], bool]) -> Optional[Fraction]:
    """Coefficient of the single degree-1 monomial whose atom satisfies pred (None if not of that form)."""
    if set(r.den) != {()}:
        return None
    k = r.den[()]
    found = None
    for m, c in r.num.items():
        if len(m) == 1 and m[0][1] == 1 and pred(m[0][0]):
            if found is not None:
                return None
            found = c / k
        elif m != ():
            return None
    return found


def _objective_sign(c_val) -> Optional[Fraction]:
    """Sign factor multiplying the coefficients in an LP objective expression."""
    # list comprehension: [pol * coef(var) for var in ...]
    body = c_val[1] if isinstance(c_val, tuple) and c_val[0] == "listcomp" else c_val
    r = to_rat(body)
    if not r.num and set(r.den) == {()}:
        return Fraction(0)  # the coefficients are multiplied away: a zero objective
    if isinstance(c_val, tuple) and c_val[0] == "listcomp":
        return _coef_of(r, lambda a: isinstance(a, tuple) and a[0] in ("mcall", "sub", "ifexp"))
    return _coef_of(r, lambda a: isinstance(a, tuple) and a[0] in ("call", "sub", "mcall", "listcomp"))


def rule_polarity(ctx: Ctx, key: str, flag: str, neg_when: bool, result_kind: str, rule: str = "polarity") -> None:
    """C04(e)/C12: with s1 the sign multiplying the objective and the LP optimum `fun` entering the result as
    s2*fun: s1 = -1 exactly when `flag` is `neg_when`, and s2 = s1 (max f = -min(-f))."""
    prog = ctx.prog
    fi = prog.func(key)
    short = key.split(".")[-1]
    for fv in (True, False):

        def extra(v, fv=fv):
            if v == ("param", flag):
                return const(fv)
            return None

        ps = [p for p in lp_paths(prog, key, 0, extra) if p.terminal == "return"]
        if not ps:
            ctx.cannot_decide(rule, key, "%s with %s=%s" % (short, flag, fv), "no returning path through the LP")
            continue
        want = Fraction(-1) if fv == neg_when else Fraction(1)
        for p in ps[:6]:
            lp = p.calls("linprog")[0]
            c = kw_of(lp, "c")
            s1 = _objective_sign(c) if c is not None else None
            construct = "%s(%s=%s): objective sign" % (short, flag, fv)
            if s1 is None and mentions(c, lambda y: isinstance(y, tuple) and len(y) == 4 and y[0] == "bin" and y[1] in ("Div", "FloorDiv", "Pow", "Mod")):
                ctx.violation(rule, key, construct, "the objective %s is not a signed copy of the coefficients (it divides / raises them)" % show(c, 4), where=fi.where)
                continue
            if s1 is None:
                ctx.cannot_decide(rule, key, construct, "objective %s is outside the sign fragment" % show(c, 4))
                continue
            if s1 == want:
                ctx.ok(rule, key, construct + " = %s" % s1)
            else:
                ctx.violation(rule, key, construct, "objective is %s x coefficients, expected %s (path %s)" % (s1, want, p.label()), where=fi.where)
            if result_kind == "none":
                continue
            construct = "%s(%s=%s): the optimum enters the result with the objective's sign" % (short, flag, fv)
            s2 = None
            if result_kind == "return":
                s2 = _coef_of(to_rat(p.value), _is_fun)
            elif result_kind == "constant-decrement":
                # find the change applied to <x>.constant
                for e in p.events:
                    if e["kind"] == "augassign" and e["target"][0] == "attr" and e["target"][2] == "constant" and mentions(e["rhs"], _is_fun):
                        k = _coef_of(to_rat(e["rhs"]), _is_fun)
                        if k is not None:
                            s2 = -k if e["op"] == "Sub" else k if e["op"] == "Add" else None
                            s2 = -s2 if s2 is not None else None  # constant -= s2*fun  <=> optimum subtracted
                    if e["kind"] == "store" and e["target"][0] == "attr" and e["target"][2] == "constant" and mentions(e["value"], _is_fun):
                        k = _coef_of(to_rat(e["value"]) - to_rat(("attr", e["target"][1], "constant")), _is_fun)
                        if k is not None:
                            s2 = -k
            if s2 is None and result_kind == "constant-decrement" and not any(mentions(e.get("rhs", e.get("value")), _is_fun) for e in p.events if e["kind"] in ("augassign", "store")):
                # nothing ever combines the optimum with a constant: fine only if the path hands back the untouched term
                first = p.value[1][0] if isinstance(p.value, tuple) and p.value and p.value[0] == "tuple" and p.value[1] else p.value
                untouched = first == ("mcall", "copy", ("param", fi.params[0]), (), ()) or (isinstance(first, tuple) and first[:3] == ("mcall", "copy", ("param", fi.params[0])))
                if untouched or first == ("param", fi.params[0]):
                    ctx.ok(rule, key, construct + " (the term is handed back unchanged)", nontrivial=False)
                else:
                    ctx.violation(rule, key, construct, "the LP optimum is computed but never enters the returned term (%s): the eliminated variables are dropped without accounting for their extreme value" % show(first, 3), where=fi.where)
            elif s2 is None and result_kind == "return" and mentions(p.value, _is_fun) and mentions(p.value, lambda y: isinstance(y, tuple) and len(y) == 4 and y[0] == "bin" and y[1] in ("Div", "FloorDiv", "Pow", "Mod")):
                ctx.violation(rule, key, construct, "the result %s is not the optimum with a sign (it divides by / raises it)" % show(p.value, 4), where=fi.where)
            elif s2 is None and mentions(p.value if result_kind == "return" else None, lambda y: isinstance(y, tuple) and y and y[0] == "call" and str(y[1]).split(".")[-1] in ("round", "around", "rint", "trunc", "floor", "ceil", "format") and mentions(y, _is_fun)):
                ctx.violation(rule, key, construct, "the optimum is rounded before it is returned (%s): an absolute number of decimals is a relative error without bound for optima of small magnitude" % show(p.value, 4), where=fi.where)
            elif s2 is None:
                ctx.cannot_decide(rule, key, construct, "could not find how res['fun'] enters the result")
            elif s2 == s1:
                ctx.ok(rule, key, construct)
            else:
                ctx.violation(rule, key, construct, "objective sign %s but the optimum enters as %s*fun" % (s1, s2), where=fi.where)


def rule_tactic4_sign(ctx: Ctx, rule: str = "tactic4-admissibility") -> None:
    """C04(f): a context row may be used to substitute the eliminated variable only when its coefficient has the
    same sign as the term's (refinement): the product test must be 'coeff(ctx) * coeff(term) > 0'."""
    prog = ctx.prog
    key = PTL + "_tactic_4"
    fi = prog.func(key)
    ps = Sim(prog, fi, assume=lambda v: const(True) if v == ("param", "refine") else None, loop_iters=(1,), max_paths=20000).paths()
    found = 0
    verdicts = set()
    for p in ps:
        for e in p.events:
            if e["kind"] != "branch":
                continue
            for x in walk(e["test"]):
                if isinstance(x, tuple) and x and x[0] == "cmp" and x[1] in ("Gt", "GtE", "Lt", "LtE") and x[2] == const(0) and x[3] != const(0):
                    x = ("cmp", {"Gt": "Lt", "GtE": "LtE", "Lt": "Gt", "LtE": "GtE"}[x[1]], x[3], x[2])
                if isinstance(x, tuple) and x and x[0] == "cmp" and x[1] in ("Gt", "GtE", "Lt", "LtE") and x[3] == const(0):
                    r = to_rat(x[2])
                    if set(r.den) != {()} or len(r.num) != 1:
                        continue
                    (m, c), = r.num.items()
                    atoms = [a for a, _p in m]
                    if len(atoms) == 2 and all(isinstance(a, tuple) and a[0] == "mcall" and a[1] == "get_coefficient" for a in atoms):
                        recvs = {a[2] for a in atoms}
                        if ("param", "term") in recvs and len(recvs) == 2:
                            found += 1
                            sign = c / r.den[()]
                            pos = (sign > 0 and x[1] in ("Gt", "GtE")) or (sign < 0 and x[1] in ("Lt", "LtE"))
                            verdicts.add(bool(pos))
    construct = "_tactic_4: the substitution row must have a coefficient of the same sign as the term's"
    if not found:
        ctx.cannot_decide(rule, key, construct, "sign-product test not found")
    elif verdicts == {True}:
        ctx.ok(rule, key, construct)
    else:
        ctx.violation(rule, key, construct, "the admissibility test accepts rows of the opposite sign", where=fi.where)


# ------------------------------------------------------------------ C11
def rule_contains_behavior(ctx: Ctx, rule: str = "membership") -> None:
    """C11: unassigned variables raise ValueError before evaluation; exactly the ValueError of evaluate() maps to
    False; evaluate() rejects a fully substituted term iff its residual constant is strictly negative."""
    prog = ctx.prog
    key = PTL + "contains_behavior"
    fi = prog.func(key)
    ps = Sim(prog, fi, raises=lambda c, v: ["ValueError"] if c == ".evaluate" else []).paths()
    # unassigned guard
    n_guard = 0
    for p in ps:
        ev = p.calls("evaluate")
        guard = [(t, c) for (t, c) in p.decisions if "raises" not in t]
        construct = "contains_behavior: variables without a value raise ValueError before any evaluation"
        # the guard value: list_diff(self.vars, list(behavior.keys()))
        for e in p.events:
            if e["kind"] == "branch":
                t = e["test"]
                if isinstance(t, tuple) and t[0] == "call" and t[1].endswith("list_diff"):
                    a0, a1 = t[2][0], t[2][1]
                    okshape = a0 == ("attr", ("param", "self"), "vars") and mentions(a1, lambda x: x == ("param", "behavior"))
                    n_guard += 1
                    if not okshape:
                        ctx.violation(rule, key, construct, "the guard tests %s" % show(t, 4), where=fi.where)
                    elif e["taken"]:
                        if p.terminal == "raise" and _exc_sub(prog, p.exc_cls, "ValueError") and not ev:
                            ctx.ok(rule, key, construct)
                        else:
                            ctx.violation(rule, key, construct, "with unassigned variables the outcome is %s" % outcome(p), where=fi.where)
        if ev:
            construct = "contains_behavior: evaluate() failing with ValueError means False, otherwise True"
            raised = bool(ev[0].get("raised"))
            want = "return False" if raised else "return True"
            got = outcome(p)
            # the Boolean may be returned through a variable: fold
            if got == want:
                ctx.ok(rule, key, construct + " (%s)" % want)
            else:
                ctx.violation(rule, key, construct, "evaluate %s -> %s" % ("raises" if raised else "returns", got), where=fi.where)
            args = list(ev[0]["args"]) + [x for _k, x in ev[0]["kws"]]
            if ev[0]["recv"] != ("param", "self") or args != [("param", "behavior")]:
                ctx.violation(rule, key, "contains_behavior: evaluates self on the behaviour", "calls %s" % show(ev[0]["result"], 3), where=fi.where)
    if n_guard == 0 and ps:
        ctx.violation(rule, key, "contains_behavior: variables without a value raise ValueError before any evaluation", "no path tests which variables of the list the behaviour leaves unassigned: a partly assigned behaviour is evaluated (and accepted) instead of being refused with ValueError", where=fi.where)
    else:
        ctx.floor("contains_behavior guard instances", n_guard, 1)


def _strip_wrappers(v):
    """np.asarray(x) / np.array(x) / np.copy(x) / x.copy() / x.astype(..) -> x"""
    while isinstance(v, tuple) and v:
        if v[0] == "call" and str(v[1]).split(".")[-1] in ("asarray", "array", "copy", "atleast_2d", "atleast_1d") and len(v[2]) >= 1:
            v = v[2][0]
        elif v[0] == "mcall" and v[1] in ("copy", "astype"):
            v = v[2]
        else:
            break
    return v


def rule_get_variable_bounds(ctx: Ctx, rule: str = "bounds-order") -> None:
    """C12: get_variable_bounds returns (minimum, maximum) = (optimize(maximize=False), optimize(maximize=True));
    PolyhedralIoContract.optimize optimises over assumptions | guarantees with the objective's coefficients."""
    prog = ctx.prog
    key = "PolyhedralIoContract.get_variable_bounds"
    fi = prog.func(key)
    ps = [p for p in Sim(prog, fi).paths() if p.terminal == "return"]
    construct = "get_variable_bounds returns (optimize(maximize=False), optimize(maximize=True))"
    okc = len(ps) == 1 and ps[0].value[0] == "tuple" and len(ps[0].value[1]) == 2
    if okc:
        flags = []
        for el in ps[0].value[1]:
            if el[0] == "mcall" and el[1] == "optimize" and el[2] == ("param", "self"):
                kws = dict(el[4])
                pos = list(el[3])
                mx = kws.get("maximize", pos[1] if len(pos) > 1 else const(True))
                var = pos[0] if pos else kws.get("expr")
                flags.append((mx, var))
            else:
                flags.append((None, None))
        okc = flags == [(const(False), ("param", fi.params[1])), (const(True), ("param", fi.params[1]))]
    (ctx.ok(rule, key, construct) if okc else ctx.violation(rule, key, construct, "returns %s" % (show(ps[0].value, 4) if ps else "?"), where=fi.where))
    # contract-level optimize
    key = "PolyhedralIoContract.optimize"
    fi = prog.func(key)
    ps = [p for p in Sim(prog, fi).paths() if p.terminal == "return"]
    construct = "PolyhedralIoContract.optimize: objective over assumptions | guarantees, direction forwarded"
    okc = len(ps) == 1
    why = ""
    if okc:
        v = ps[0].value
        okc = v[0] == "mcall" and v[1] == "optimize"
        if okc:
            recv = v[2]
            both = {("attr", ("param", "self"), "a"), ("attr", ("param", "self"), "g")}
            if not (recv[0] == "bin" and recv[1] == "BitOr" and {recv[2], recv[3]} == both):
                okc = False
                why = "optimises over %s" % show(recv, 3)
            kws = dict(v[4])
            pos = list(v[3])
            mx = kws.get("maximize", pos[1] if len(pos) > 1 else None)
            if mx != ("param", "maximize"):
                okc = False
                why += " maximize=%s" % show(mx)
            obj = kws.get("objective", pos[0] if pos else None)
            if not (obj is not None and obj[0] == "attr" and obj[2] == "variables" and mentions(obj, lambda x: x == ("param", "expr"))):
                okc = False
                why += " objective=%s" % show(obj, 4)
            # the objective is the FIRST (only) term the parser returns for  "<expr> <= 0"
            idx = [x[2] for x in walk(obj) if isinstance(x, tuple) and len(x) == 3 and x[0] == "sub" and is_const(x[2]) and isinstance(x[1], tuple) and x[1] and x[1][0] == "call" and str(x[1][1]).endswith("polyhedral_termlist_from_string")] if obj is not None else []
            if idx and any(i_ != const(0) for i_ in idx):
                okc = False
                why += " the objective is read from term %s of a one-term parse" % [i_[1] for i_ in idx]
    (ctx.ok(rule, key, construct) if okc else ctx.violation(rule, key, construct, why or "unexpected shape", where=fi.where))
    # termlist-level: the objective row is built with constant 0 and optimised over self
    key = PTL + "optimize"
    fi = prog.func(key)
    seen_shapes = set()
    for p in lp_paths(prog, key, 0):
        lp = p.calls("linprog")[0]
        a_ub, b_ub = kw_of(lp, "A_ub"), kw_of(lp, "b_ub")
        shape = (show(a_ub, 6), show(b_ub, 6), tuple(show(e["args"][0], 4) for e in p.calls("termlist_to_polytope") if e["args"]))
        if shape in seen_shapes:
            continue
        seen_shapes.add(shape)
        t2p = p.calls("termlist_to_polytope")
        construct = "PolyhedralTermList.optimize: the LP is over self's matrix and bounds"
        okc = len(t2p) == 1 and t2p[0]["args"] and t2p[0]["args"][0] == ("param", "self") and _strip_wrappers(a_ub) == ("item", t2p[0]["result"], 1) and _strip_wrappers(b_ub) == ("item", t2p[0]["result"], 2)
        (ctx.ok(rule, key, construct) if okc else ctx.violation(rule, key, construct, "A_ub=%s b_ub=%s" % (show(a_ub, 3), show(b_ub, 3)), where=fi.where))
        c_lp = kw_of(lp, "c")
        rows_read = [x for x in walk(c_lp) if isinstance(x, tuple) and len(x) == 3 and x[0] == "sub" and isinstance(x[1], tuple) and x[1][:1] == ("item",) and len(x[1]) == 3 and x[1][2] == 3 and is_const(x[2])] if c_lp is not None else []
        if rows_read and len(t2p) == 1:
            construct = "PolyhedralTermList.optimize: the objective is the one row of the objective's matrix"
            # the context handed to the conversion is a one-term list: its matrix has exactly row 0
            idx = {x[2][1] for x in rows_read}
            (ctx.ok(rule, key, construct) if idx == {0} else ctx.violation(rule, key, construct, "reads row %s of a one-row matrix (IndexError at run time)" % sorted(idx), where=fi.where))
        # the columns of the LP are the variables the conversion was shown: the objective has to be among what it is
        # shown, or a variable that only the objective mentions (unbounded in its direction) silently drops out
        construct = "PolyhedralTermList.optimize: every variable of the objective is a column of the LP"
        isobj = lambda y: y == ("param", "objective")  # noqa: E731
        shown = len(t2p) == 1 and any(mentions(a, isobj) for a in list(t2p[0]["args"]) + [v_ for _k, v_ in t2p[0]["kws"]])
        if shown:
            ctx.ok(rule, key, construct)
        else:
            ctx.violation(rule, key, construct, "the matrices are built from %s alone: a variable that occurs in the objective but in no constraint gets no column, so an unbounded problem is answered with a finite optimum" % [show(a, 3) for e in t2p for a in e["args"]], where=fi.where)


# ------------------------------------------------ Kaykobad context guards (C04 g)
def rule_kaykobad_guards(ctx: Ctx, rule: str = "kaykobad-guards") -> None:
    """C04(g): when rows for the elimination system are picked from the context, (1) the term itself is skipped,
    (2) rows mentioning *other* eliminated variables are skipped, (3) the sign condition is checked on EVERY
    eliminated variable of the term that the row mentions (not only on the pivot), with the polarity of the
    direction (refine: same sign as the term, relax: opposite)."""
    prog = ctx.prog
    key = PTL + "_get_kaykobad_context"
    fi = prog.func(key)
    from .rules_kernels import reduction_sound_for_arbitrary_rows

    if reduction_sound_for_arbitrary_rows(prog) is True:
        # _context_reduction checks the sign of every multiplier itself (decided on arbitrary rows by the
        # context-reduction analysis): a weaker row selection makes the tactic decline more often, never unsound
        ctx.ok(rule, key, "_get_kaykobad_context: soundness does not rest on the selection guards (the reduction verifies the multipliers of whatever rows it is handed)", nontrivial=False)
        return
    fl = Flow(fi.node)
    term_p, ctx_p, elim_p, refine_p = fi.params[0], fi.params[1], fi.params[2], fi.params[3]

    def iter_sources(it: ast.AST) -> Set[str]:
        return fl.sources(it)

    # loops over the term's own eliminated variables / over the other eliminated variables
    own_loops, other_loops, ctx_loops = [], [], []
    binders = []
    for node in ast.walk(fi.node):
        if isinstance(node, ast.For):
            binders.append(node)
        elif isinstance(node, (ast.ListComp, ast.GeneratorExp, ast.SetComp)):
            for g in node.generators:
                # a comprehension generator behaves like a loop whose body is the comprehension itself
                b = ast.For(target=g.target, iter=g.iter, body=[ast.Expr(value=node)], orelse=[])
                binders.append(b)
    for node in binders:
        if isinstance(node.target, (ast.Name, ast.Tuple)):
            src = iter_sources(node.iter)
            calls = {s for s in src if s.startswith("call:")}
            if elim_p in src and ("%s.vars" % term_p) in src:
                if any(s.endswith("list_intersection") for s in calls) and not any(s.endswith("list_diff") for s in calls):
                    own_loops.append(node)
                elif any(s.endswith("list_diff") for s in calls) and not any(s.endswith("list_intersection") for s in calls):
                    other_loops.append(node)
            if ("%s.terms" % ctx_p) in src:
                ctx_loops.append(node)
    if not ctx_loops:
        ctx.cannot_decide(rule, key, "context loop", "no loop over the context terms found")
        return
    ctx_vars = {n.target.id for n in ctx_loops if isinstance(n.target, ast.Name)}

    def loopvar(n: ast.For) -> Optional[str]:
        t = n.target
        if isinstance(t, ast.Name):
            return t.id
        if isinstance(t, ast.Tuple) and isinstance(t.elts[-1], ast.Name):
            return t.elts[-1].id
        return None

    # (1) the term itself is skipped
    construct = "_get_kaykobad_context never uses the term being transformed as one of its own context rows"
    okc = False
    for node in ast.walk(fi.node):
        if isinstance(node, ast.If) and isinstance(node.test, ast.Compare) and len(node.test.ops) == 1 and isinstance(node.test.ops[0], (ast.Eq, ast.Is)):
            names = {norm(node.test.left), norm(node.test.comparators[0])}
            if term_p in names and (names - {term_p}) <= ctx_vars and any(isinstance(x, ast.Continue) for x in node.body):
                okc = True
    (ctx.ok(rule, key, construct) if okc else ctx.violation(rule, key, construct, "no `if context_term == term: continue` guard", where=fi.where))
    # (2) rows with other eliminated variables are skipped
    construct = "_get_kaykobad_context skips context rows that mention other eliminated variables"
    okc = False
    for lp in other_loops:
        v = loopvar(lp)
        for x in ast.walk(lp):
            if isinstance(x, ast.Compare) and isinstance(x.ops[0], ast.NotEq) and "get_coefficient(%s)" % v in norm(x.left) and norm(x.comparators[0]) == "0":
                okc = True
    (ctx.ok(rule, key, construct) if okc else ctx.violation(rule, key, construct, "no test of the row's coefficients on the other eliminated variables", where=fi.where))
    # (3) sign condition on every own eliminated variable
    construct = "_get_kaykobad_context checks the sign condition on every eliminated variable of the term that the row mentions"
    sign_cmps = []
    for node in ast.walk(fi.node):
        if isinstance(node, ast.Compare) and len(node.ops) == 1 and isinstance(node.ops[0], (ast.NotEq, ast.Eq)):
            t = norm(node)
            if t.count("get_sign(") >= 2:
                sign_cmps.append(node)
    good = False
    pivot_only = False
    for c in sign_cmps:
        # variables used in the get_sign calls
        vs = set()
        for x in ast.walk(c):
            if isinstance(x, ast.Call) and isinstance(x.func, ast.Attribute) and x.func.attr == "get_sign" and x.args:
                vs.add(norm(x.args[0]))
        if len(vs) != 1:
            continue
        v = vs.pop()
        enclosing = [lp for lp in own_loops if any(n is c for n in ast.walk(lp)) and loopvar(lp) == v]
        # the innermost own-loop binding v must range over all own eliminated variables (not be the pivot loop that
        # also encloses the context loop)
        inner = [lp for lp in enclosing if not any(cl in list(ast.walk(lp)) for cl in ctx_loops)]
        if inner:
            good = True
        elif enclosing:
            pivot_only = True
    if good:
        ctx.ok(rule, key, construct)
    elif pivot_only or sign_cmps:
        ctx.violation(rule, key, construct, "the sign comparison is made only for the pivot variable, not for every eliminated variable of the term", where=fi.where)
    else:
        ctx.violation(rule, key, construct, "no sign comparison between the row's and the term's coefficients", where=fi.where)
    # (4) the dominance bookkeeping: an accepted row adds its residual to the running sum of EVERY column
    construct = "_get_kaykobad_context: an accepted row's residuals are accumulated for every column (full range)"
    acc = []
    for node in ast.walk(fi.node):
        if isinstance(node, ast.For):
            for st in node.body:
                if isinstance(st, ast.AugAssign) and isinstance(st.op, ast.Add) and isinstance(st.target, ast.Subscript) and isinstance(st.value, ast.Subscript):
                    if norm(st.target.slice) == norm(st.value.slice) and isinstance(node.target, ast.Name) and norm(st.target.slice) == node.target.id:
                        acc.append((node, st))
    n_src = None
    for node in ast.walk(fi.node):
        if isinstance(node, ast.Assign) and isinstance(node.targets[0], ast.Name) and isinstance(node.value, ast.Call) and norm(node.value.func) == "len":
            src = fl.sources(node.value.args[0])
            if elim_p in src and ("%s.vars" % term_p) in src:
                n_src = node.targets[0].id
    if not acc:
        # a comprehension / zip rewrite covers all columns by construction
        zipped = any(isinstance(n_, (ast.ListComp, ast.GeneratorExp)) and "zip(" in norm(n_) and "residuals" in norm(n_) for n_ in ast.walk(fi.node))
        (ctx.ok(rule, key, construct, nontrivial=False) if zipped else ctx.cannot_decide(rule, key, construct, "accumulation of residuals not found"))
    else:
        for loop, st in acc:
            it = loop.iter
            full = False
            if isinstance(it, ast.Call) and norm(it.func) == "range" and len(it.args) == 1:
                a0 = it.args[0]
                full = (isinstance(a0, ast.Name) and a0.id == n_src) or (isinstance(a0, ast.Call) and norm(a0.func) == "len")
            if isinstance(it, ast.Call) and norm(it.func) == "enumerate":
                full = True
            if full:
                ctx.ok(rule, key, construct)
            else:
                ctx.violation(rule, key, construct, "`for %s in %s: %s` covers only part of the columns: contributions to the others are lost and the dominance test accepts rows it must reject" % (norm(loop.target), norm(it), norm(st)), where="%s:%d" % (fi.module.relpath, loop.lineno))
    # polarity of the sign condition:  transform_coeff = +1 iff refine
    construct = "_get_kaykobad_context: the sign condition uses +1 when refining and -1 when relaxing"
    for rv, want in ((True, 1), (False, -1)):
        ps_ = Sim(prog, fi, assume=lambda v, rv=rv: const(rv) if v == ("param", refine_p) else None, loop_iters=(0,)).paths()
        vals = set()
        for p in ps_:
            for nm in ("transform_coeff",):
                if nm in p.env and is_const(p.env[nm]):
                    vals.add(p.env[nm][1])
        # find how the coefficient multiplies the context sign in the comparison
        if vals == {want}:
            ctx.ok(rule, key, construct + " (refine=%s)" % rv, nontrivial=False)
        elif vals:
            ctx.violation(rule, key, construct, "with refine=%s the factor is %s" % (rv, sorted(vals)), where=fi.where)
    for c in sign_cmps:
        t = norm(c)
        construct2 = "_get_kaykobad_context: the polarity factor multiplies the context row's sign, compared for equality with the term's sign"
        okp = "transform_coeff" in t and isinstance(c.ops[0], ast.NotEq)
        (ctx.ok(rule, key, construct2, nontrivial=False) if okp else ctx.cannot_decide(rule, key, construct2, "unrecognised sign comparison %s" % t))


# ------------------------------------------------------------ small wiring rules
def rule_is_empty_wiring(ctx: Ctx, rule: str = "is-empty-wiring") -> None:
    """C11/C03/C17: is_empty() asks is_polytope_empty about the list's own matrix and bounds."""
    prog = ctx.prog
    key = PTL + "is_empty"
    fi = prog.func(key)
    ps = [p for p in Sim(prog, fi).paths() if p.terminal == "return"]
    construct = "is_empty: is_polytope_empty(A(self), b(self))"
    okc = len(ps) == 1
    why = "unexpected shape"
    if okc:
        v = ps[0].value
        t2p = ps[0].calls("termlist_to_polytope")
        okc = v[0] == "call" and v[1].endswith("is_polytope_empty") and len(t2p) == 1 and t2p[0]["args"] and t2p[0]["args"][0] == ("param", "self")
        if okc:
            args = list(v[2]) + [x for _k, x in v[3]]
            res = t2p[0]["result"]
            okc = args == [("item", res, 1), ("item", res, 2)]
            why = "asks about %s" % [show(a, 2) for a in args]
    (ctx.ok(rule, key, construct) if okc else ctx.violation(rule, key, construct, why, where=fi.where))


def rule_rename_variables_chain(ctx: Ctx, rule: str = "rename-sequence") -> None:
    """C16: rename_variables applies the mappings one after the other, each to the result of the previous one,
    source = mapping[0], target = mapping[1], starting from a copy."""
    prog = ctx.prog
    key = "PolyhedralIoContract.rename_variables"
    fi = prog.func(key)
    me, mp = fi.params[0], fi.params[1]
    ps = [p for p in Sim(prog, fi, loop_iters=(0, 1, 2)).paths() if p.terminal == "return"]
    n = 0
    for p in ps:
        n += 1
        calls = p.calls("rename_variable")
        k = len(calls)
        construct = "rename_variables: %d mapping(s) applied in order, each to the previous result" % k
        okc = True
        why = ""
        prev = None
        # a mapping may be skipped only by looking at the mapping itself or at the current (partially renamed)
        # contract - never at the original contract, whose interface is stale after the first renaming
        for e in p.events:
            if e["kind"] == "branch" and e["loop"] > 0 and mentions(e["test"], lambda x: x == ("param", me)):
                okc, why = False, "a mapping is skipped / selected by a test on the ORIGINAL contract (%s): names introduced by earlier mappings are not seen" % show(e["test"], 4)
        last_idx = -1
        for i, c in enumerate(calls):
            recv = c["recv"]
            if i == 0:
                if not (recv == ("param", me) or (recv[0] == "mcall" and recv[1] == "copy" and recv[2] == ("param", me))):
                    okc, why = False, "the first renaming is applied to %s" % show(recv, 3)
            elif recv != prev:
                okc, why = False, "renaming %d is applied to %s, not to the result of renaming %d" % (i + 1, show(recv, 3), i)
            args = list(c["args"]) + [x for _k, x in c["kws"]]
            got = []
            idxs = set()
            for a in args:
                if a[0] == "new" and a[1] == "Var" and len(a[2]) == 1 and a[2][0][0] == "sub" and a[2][0][1][0] == "iter" and a[2][0][1][1] == ("param", mp):
                    got.append(a[2][0][2])
                    idxs.add(a[2][0][1][3])
                else:
                    got.append(None)
            if got != [const(0), const(1)] or len(idxs) != 1:
                okc, why = False, "renaming %d uses (source, target) = %s" % (i + 1, [show(a, 3) for a in args])
            else:
                idx = idxs.pop()
                if idx <= last_idx:
                    okc, why = False, "mappings are not applied in list order"
                last_idx = idx
            prev = c["result"]
        if okc:
            v = p.value
            if k == 0:
                okc = v == ("param", me) or (v[0] == "mcall" and v[1] == "copy" and v[2] == ("param", me))
                why = "with no mapping the result is %s" % show(v, 3)
            else:
                okc = v == prev
                why = "the result is %s, not the last renaming" % show(v, 3)
        (ctx.ok(rule, key, construct) if okc else ctx.violation(rule, key, construct, why, where=fi.where))
    ctx.floor("rename_variables paths", n, 3)


# ------------------------------------------------ matrix provenance (C03 / C07)
_ROW_PRESERVING = ("copy", "array", "asarray", "atleast_2d", "concatenate", "vstack", "delete", "astype", "zeros")


def rule_matrix_provenance(ctx: Ctx, key: str, rule: str = "matrix-provenance") -> None:
    """C03/C07: the rows handed to the LP are the operand's rows, untouched: the only row removal is np.delete of the
    tested row; no other selection / de-duplication / re-ordering of the parameter matrices (a looser duplicate kept
    instead of a tighter one changes the polyhedron)."""
    prog = ctx.prog
    fi = prog.func(key)
    short = key.split(".")[-1]
    known = {"verify_polytope_containment": ["a_l", "b_l", "a_r", "b_r"], "reduce_polytope": ["a", "b", "a_help", "b_help"], "is_polytope_empty": ["a", "b"]}
    mats = known.get(short, [])
    ps = [p for p in lp_paths(prog, key, 0) if p.terminal in ("return", "raise")]
    if not ps:
        ctx.cannot_decide(rule, key, "lp paths", "no returning path through the LP")
        return
    seen = set()
    n = 0
    for p in ps:
        for lp in p.calls("linprog"):
            for kwn in ("A_ub", "b_ub", "c"):
                v = kw_of(lp, kwn)
                if v is None:
                    continue
                sig = show(v, 8)
                if (kwn, sig) in seen:
                    continue
                seen.add((kwn, sig))
                n += 1
                t2p_results = [e_["result"] for e_ in p.calls("termlist_to_polytope")]
                bad = _foreign_matrix_ops(v, mats, allow_row_pick=True, roots=t2p_results)
                construct = "%s: %s is built from the operand matrices without re-selecting rows" % (short, kwn)
                if bad:
                    ctx.violation(rule, key, construct, "%s passes through %s before the LP: rows are selected / merged / re-ordered outside the LP-justified np.delete" % (kwn, bad), where=fi.where)
                else:
                    ctx.ok(rule, key, construct + " @ " + sig[:50], nontrivial=False)
    ctx.floor("%s LP argument shapes" % short, n, 2)


def _computed_index(idx) -> bool:
    """True if the index is computed by a call (np.sort(first), a mask, ...) rather than being the loop position."""
    st = [idx]
    while st:
        x = st.pop()
        if not isinstance(x, tuple) or not x:
            continue
        if x[0] == "iter":
            continue  # the position of the loop: do not look inside (range(n), enumerate(...))
        if x[0] in ("call", "mcall"):
            return True
        for y in x:
            if isinstance(y, tuple):
                st.append(y)
    return False


def _foreign_matrix_ops(v, mats: List[str], allow_row_pick: bool, roots: Optional[List[Any]] = None) -> Optional[str]:
    """Name of the first operation applied to (something derived from) an operand matrix that is not row preserving.
    Operand matrices: the named array parameters and the items of termlist_to_polytope(...) results."""
    roots = roots or []

    def is_root(y) -> bool:
        if isinstance(y, tuple) and len(y) == 2 and y[0] == "param" and y[1] in mats:
            return True
        if isinstance(y, tuple) and len(y) == 3 and y[0] == "item" and y[1] in roots:
            return True
        return isinstance(y, tuple) and len(y) == 3 and y[0] == "sub" and y[1] in roots and is_const(y[2])

    def derived(x) -> bool:
        return mentions(x, is_root)

    def walk_no_iter(root):
        st = [root]
        while st:
            y = st.pop()
            yield y
            if isinstance(y, tuple) and y and y[0] != "iter":
                for z in y:
                    if isinstance(z, tuple):
                        st.append(z)

    for x in walk_no_iter(v):
        if not isinstance(x, tuple) or not x:
            continue
        if x[0] == "call" and any(derived(a) for a in list(x[2]) + [b for _k, b in x[3]]):
            nm = str(x[1]).split(".")[-1]
            if nm not in _ROW_PRESERVING and nm not in ("len", "float", "int", "isinstance", "shape", "range", "enumerate", "zip"):
                return "%s(...)" % x[1]
        if x[0] == "mcall" and derived(x[2]) and x[1] not in ("copy", "astype", "reshape", "tolist"):
            return ".%s(...)" % x[1]
        if x[0] == "sub" and derived(x[1]) and not (x[1] in roots) and not is_root(x):
            idx = x[2]
            # a single row / entry addressed by the loop index is the tested row; anything computed (np.sort(first),
            # masks, np.unique indices) is a re-selection
            if _computed_index(idx):
                return "indexing with %s" % show(idx, 3)
    return None


def rule_reduce_loop_discipline(ctx: Ctx, rule: str = "reduce-loop") -> None:
    """C07: in reduce_polytope a deleted row shrinks the row count and leaves the position where it is (the next row
    moved into it); a kept row advances the position.  Otherwise rows are skipped untested or read past the end."""
    prog = ctx.prog
    key = PTL + "reduce_polytope"
    fi = prog.func(key)
    n = 0
    for s_ in (0, 3, 1):
        for p in lp_paths(prog, key, s_):
            if not _one_iteration(p) or p.terminal != "return":
                continue
            deleted = _deletes_after_lp(p)
            pos_moves = count_moves = None
            for nm in _position_names(fi) & set(p.env):
                d = _delta_from_start(p.env[nm])
                if d is not None and nm in _loop_counter_names(fi):
                    pos_moves = d
            for nm in _count_names(fi) & set(p.env):
                d = _delta_from_start(p.env[nm])
                if d is not None:
                    count_moves = d
            if count_moves is None and _live_count_arrays(fi):
                # `while i < a_temp.shape[0]` / `len(b_temp)`: the bound is read off the array that rows are deleted
                # from, so it shrinks exactly when a row is removed
                count_moves = Fraction(-1) if deleted else Fraction(0)
            if pos_moves is None or count_moves is None:
                ctx.cannot_decide(rule, key, "loop counters", "could not follow the position / row-count variables")
                continue
            n += 1
            construct = "reduce_polytope: %s" % ("a removed row shrinks the count and keeps the position" if deleted else "a kept row advances the position by one")
            want = (Fraction(0), Fraction(-1)) if deleted else (Fraction(1), Fraction(0))
            if (pos_moves, count_moves) == want:
                ctx.ok(rule, key, construct + " (status %d)" % s_, nontrivial=False)
            else:
                ctx.violation(rule, key, construct, "status %d, row %s: position moves by %s and row count by %s" % (s_, "removed" if deleted else "kept", pos_moves, count_moves), where=fi.where)
    ctx.floor("reduce_polytope iteration paths", n, 3)
    # a row is only ever removed on the LP's verdict
    construct = "reduce_polytope: a row is removed only after the LP has shown it redundant"
    verdict = None
    for p in Sim(prog, fi, assume=status_assume(0), loop_iters=(1,)).paths():
        if p.terminal != "return" or p.calls("linprog"):
            continue
        dels = [e for e in p.events if e["kind"] == "call" and e["callee"].endswith("delete")]
        if not dels:
            continue
        pending = [e for e in p.events if e["kind"] == "augassign" and not e["target_is_name"] and mentions(e["target"], lambda y: y == ("param", "b"))]
        tests = [e for e in p.events if e["kind"] == "branch"]
        relaxed_read = False
        for a_ in pending:
            base = a_["target"][1] if a_["target"][0] == "sub" else None
            after = p.events[p.events.index(a_) + 1:]
            undone = False
            for e in after:
                if e["kind"] == "augassign" and e["target"] == a_["target"]:
                    undone = True
                    break
                if e["kind"] == "branch" and base is not None and mentions(e["test"], lambda y, base=base: y == base):
                    relaxed_read = True
            _ = undone
        what = "; ".join(sorted({norm(e["node"])[:70] for e in tests if e["taken"]})) or "(unconditionally)"
        if relaxed_read:
            verdict = ("violation", "a row is deleted without an LP when %s - and that test reads the bound while it is still relaxed by the `+= 1` meant for the LP: a row up to 1 tighter than its twin is dropped" % what)
            break
        verdict = verdict or ("undecided", "a row is deleted without an LP when %s" % what)
    if verdict is None:
        ctx.ok(rule, key, construct)
    elif verdict[0] == "violation":
        ctx.violation(rule, key, construct, verdict[1], where=fi.where)
    else:
        ctx.cannot_decide(rule, key, construct, verdict[1])


def _any_negative(v, bname: str):
    """Is the value `any(b < 0)` (through bool(), np.any / any, np.asarray / np.array)?  -> (True, "") when exactly
    that, (False, why) when it is a comparison of the bounds with something else, (None, "") when of another shape."""
    while isinstance(v, tuple) and v:
        if v[0] == "call" and str(v[1]).split(".")[-1] in ("bool", "any") and len(v[2]) == 1:
            v = v[2][0]
        elif v[0] == "mcall" and v[1] == "any" and not v[3]:
            v = v[2]  # (b < 0).any()
        else:
            break
    if not (isinstance(v, tuple) and v and v[0] == "cmp"):
        return (None, "")
    op, l, r = v[1], v[2], v[3]

    def is_b(x) -> bool:
        x = _strip_wrappers(x)
        return x == ("param", bname)

    if is_b(l) and is_const(r):
        if op == "Lt" and r[1] == 0:
            return (True, "")
        return (False, "tests b %s %r" % ({"Lt": "<", "LtE": "<=", "Gt": ">", "GtE": ">=", "Eq": "==", "NotEq": "!="}.get(op, op), r[1]))
    if is_b(r) and is_const(l):
        if op == "Gt" and l[1] == 0:
            return (True, "")
        return (False, "tests %r %s b" % (l[1], {"Lt": "<", "LtE": "<=", "Gt": ">", "GtE": ">=", "Eq": "==", "NotEq": "!="}.get(op, op)))
    return (None, "")


def rule_zero_column_exactness(ctx: Ctx, rule: str = "lp-zero-columns") -> None:
    """C11/C03/C07: rows without any column read 0 <= b.  They are unsatisfiable exactly when some b < 0 (0 <= 0 holds)
    and otherwise say nothing: is_polytope_empty answers any(b < 0); reduce_polytope raises for any(b < 0) (for its
    own rows and for the context's) and otherwise returns no rows at all."""
    prog = ctx.prog

    def shape_is(v, mat: str, idx: int) -> bool:
        return isinstance(v, tuple) and v and v[0] in ("item", "sub") and isinstance(v[1], tuple) and v[1][0] == "attr" and v[1][2] == "shape" and v[1][1] == ("param", mat) and (v[2] == idx or v[2] == const(idx))

    def scen_for(mat: str, others_have_columns: bool = False):
        def scen(v):
            if shape_is(v, mat, 1):
                return const(0)
            if isinstance(v, tuple) and v and v[0] == "bin" and v[1] == "Mult" and any(shape_is(o, mat, 1) or o == const(0) for o in (v[2], v[3])):
                return const(0)
            if isinstance(v, tuple) and v and v[0] == "cmp" and v[1] in ("Eq", "NotEq", "Gt") and v[3] == const(0):
                x = v[2]
                if shape_is(x, mat, 0) or (isinstance(x, tuple) and x[0] == "call" and x[1] == "len" and x[2] and x[2][0] == ("param", mat)):
                    return const(v[1] != "Eq")
            return None

        return scen

    # is_polytope_empty
    key = PTL + "is_polytope_empty"
    fi = prog.func(key)
    construct = "is_polytope_empty: rows without columns are empty exactly when some bound is negative"
    verdict = None
    n = 0
    for p in Sim(prog, fi, assume=status_assume(None, scen_for("a")), loop_iters=(0, 1)).paths():
        if p.terminal != "return" or p.calls("linprog"):
            continue
        n += 1
        okv, why = _any_negative(p.value, "b")
        if okv is False:
            verdict = ("violation", "answers with `%s`: %s, but 0 <= b fails exactly for b < 0" % (show(p.value, 5), why))
        elif okv is None and verdict is None:
            verdict = ("undecided", "answers with %s" % show(p.value, 5))
    if verdict is None and n:
        ctx.ok(rule, key, construct)
    elif verdict is None:
        ctx.cannot_decide(rule, key, construct, "no path decides rows without columns before the LP")
    elif verdict[0] == "violation":
        ctx.violation(rule, key, construct, verdict[1], where=fi.where)
    else:
        ctx.cannot_decide(rule, key, construct, verdict[1])
    # no rows at all: nothing is required, the set is not empty - and the one-dimensional `np.array([])` the conversion
    # produces for an empty list must not reach `a.shape` unpacking or the solver
    construct = "is_polytope_empty: a system without rows is not empty"

    def norows(v):
        if isinstance(v, tuple) and v and v[0] == "cmp" and v[1] in ("Eq", "NotEq", "Gt") and v[3] == const(0):
            x = v[2]
            if shape_is(x, "a", 0) or (isinstance(x, tuple) and x[0] == "call" and x[1] == "len" and x[2] and x[2][0] == ("param", "a")):
                return const(v[1] == "Eq")
        if isinstance(v, tuple) and v and v[0] == "un" and v[1] == "Not" and isinstance(v[2], tuple) and v[2][:2] == ("call", "len") and v[2][2] and v[2][2][0] == ("param", "a"):
            return const(True)
        return None

    ps = Sim(prog, fi, assume=status_assume(None, norows), loop_iters=(0, 1)).paths()
    bad = None
    for p in ps:
        unpack = any(e["kind"] == "call" and False for e in p.events)
        reads_shape = any(mentions(e.get("test"), lambda y: isinstance(y, tuple) and len(y) == 3 and y[0] == "attr" and y[2] == "shape" and y[1] == ("param", "a")) for e in p.events if e["kind"] == "branch")
        _ = unpack
        if p.calls("linprog") or reads_shape:
            bad = "with no rows the function goes on to %s (the empty list is converted to a one-dimensional array: unpacking its shape, or handing it to the solver, fails)" % ("the solver" if p.calls("linprog") else "tests on a.shape")
        elif p.terminal == "return" and p.value != const(False):
            bad = "with no rows the answer is %s" % show(p.value, 3)
        elif p.terminal != "return":
            bad = "with no rows the function raises %s" % p.exc_cls
    if bad:
        ctx.violation(rule, key, construct, bad, where=fi.where)
    elif ps:
        ctx.ok(rule, key, construct)
    else:
        ctx.cannot_decide(rule, key, construct, "no path")
    # reduce_polytope: own rows, then the context's rows
    key = PTL + "reduce_polytope"
    fi = prog.func(key)
    for mat, vec, what in (("a", "b", "its own rows"), ("a_help", "b_help", "the context's rows")):
        construct = "reduce_polytope: %s without columns make the system unsatisfiable exactly when some bound is negative" % what
        verdict = None
        n = 0
        for p in Sim(prog, fi, assume=status_assume(None, scen_for(mat)), loop_iters=(0, 1)).paths():
            tests = [(e["test"], e["taken"]) for e in p.events if e["kind"] == "branch" and mentions(e["test"], lambda y, vec=vec: y == ("param", vec))]
            for t, taken in tests:
                neg = False
                while isinstance(t, tuple) and t and t[0] == "un" and t[1] == "Not":
                    t, neg = t[2], not neg
                okv, why = _any_negative(t, vec)
                n += 1
                if okv is False:
                    verdict = ("violation", "%s (`%s`), but 0 <= b fails exactly for b < 0" % (why, show(t, 5)))
                elif okv is True:
                    found_negative = bool(taken) != neg
                    if found_negative and not (p.terminal == "raise" and _exc_sub(prog, p.exc_cls, "ValueError")):
                        verdict = verdict or ("violation", "a negative bound on a row without columns ends in %s, not in ValueError" % outcome(p))
                    if not found_negative and mat == "a" and p.terminal == "return" and not p.calls("linprog"):
                        v = p.value
                        items = v[1] if isinstance(v, tuple) and v and v[0] == "tuple" else ()

                        def empty(x) -> bool:
                            return isinstance(x, tuple) and x and x[0] == "sub" and isinstance(x[2], tuple) and x[2][0] == "slice" and x[2][1] is None and x[2][2] == const(0)

                        if len(items) == 2 and not all(empty(x) for x in items):
                            verdict = verdict or ("violation", "rows 0 <= b with b >= 0 say nothing, yet %s is returned (both the matrix and the vector have to come back without rows)" % show(v, 4))
        if verdict is None and n:
            ctx.ok(rule, key, construct)
        elif verdict is None:
            ctx.cannot_decide(rule, key, construct, "no test of %s was found on the paths without columns" % vec)
        elif verdict[0] == "violation":
            ctx.violation(rule, key, construct, verdict[1], where=fi.where)
        else:
            ctx.cannot_decide(rule, key, construct, verdict[1])


def rule_lp_emptiness_shortcuts(ctx: Ctx, rule: str = "lp-shortcut") -> None:
    """C11/C03: is_polytope_empty is handed matrices that were widened by the columns of another list, so a row may be
    all zeros (0 <= b) although there are columns.  With at least one row and one column, an answer that comes neither
    from the LP nor from an examination of the bounds cannot be right: the single row 0*x <= -1 is empty, 0*x <= 1 is not,
    and nothing but b tells them apart."""
    prog = ctx.prog
    key = PTL + "is_polytope_empty"
    fi = prog.func(key)

    def shape_atom(v, idx):
        return isinstance(v, tuple) and v and v[0] in ("item", "sub") and isinstance(v[1], tuple) and v[1][0] == "attr" and v[1][2] == "shape" and v[1][1] == ("param", "a") and (v[2] == idx or v[2] == const(idx))

    def scen(v):
        # at least one row, at least one column
        if isinstance(v, tuple) and v and v[0] == "cmp" and v[1] in ("Eq", "NotEq", "Gt", "LtE", "Lt", "GtE") and v[3] == const(0):
            x = v[2]
            rows = shape_atom(x, 0) or (isinstance(x, tuple) and x[0] == "call" and x[1] == "len" and x[2] and x[2][0] == ("param", "a"))
            if rows or shape_atom(x, 1):
                return const({"Eq": False, "NotEq": True, "Gt": True, "LtE": False, "Lt": False, "GtE": True}[v[1]])
        return None

    construct = "is_polytope_empty: with rows and columns present the answer comes from the LP or from the bounds"
    ps = [p for p in Sim(prog, fi, assume=status_assume(None, scen), loop_iters=(0, 1)).paths() if p.terminal == "return"]
    if not ps:
        ctx.cannot_decide(rule, key, construct, "no returning path")
        return
    isb = lambda y: y == ("param", "b")  # noqa: E731
    for p in ps:
        if p.calls("linprog"):
            continue
        looked = any(e["kind"] == "branch" and mentions(e["test"], isb) for e in p.events) or (p.value is not None and mentions(p.value, isb))
        if not looked:
            ctx.violation(rule, key, construct, "returns %s without the LP and without looking at b when %s: a single row 0*x <= b (columns contributed by the other list of a comparison) is empty exactly when b < 0" % (show(p.value, 3), p.label()[:160] or "(always)"), where=fi.where)
            return
    ctx.ok(rule, key, construct + " (%d paths)" % len(ps))


def rule_optimize_unconstrained(ctx: Ctx, rule: str = "lp-zero-rows") -> None:
    """C12: a list without terms constrains nothing: the optimum is None (unbounded) for every objective but the zero
    one.  termlist_to_polytope turns such a list into `np.array([])` - one dimension, no columns - which scipy's
    linprog rejects with a ValueError of its own ("A_ub must have exactly two dimensions"): the caller is told the
    contract is unsatisfiable although everything satisfies it.  Decided with `self.terms` fixed to empty: linprog
    must not be reached with the converted matrix."""
    prog = ctx.prog
    key = PTL + "optimize"
    fi = prog.func(key)
    me = ("param", fi.params[0])
    terms = ("attr", me, "terms")

    def scen(v):
        if not isinstance(v, tuple) or not v:
            return None
        if v == ("un", "Not", terms):
            return const(True)
        if v[0] == "cmp" and v[2] == ("call", "len", (terms,), ()) or (v[0] == "cmp" and isinstance(v[2], tuple) and v[2][:2] == ("call", "len") and v[2][2] == (terms,)):
            if v[3] == const(0) and v[1] in ("Eq", "NotEq", "Gt", "LtE"):
                return const(v[1] in ("Eq", "LtE"))
            if v[3] == const(1) and v[1] in ("Lt", "GtE"):
                return const(v[1] == "Lt")
        if v[0] == "mcall" and v[1] == "lacks_constraints" and v[2] == me:
            return const(True)
        return None

    construct = "PolyhedralTermList.optimize: a list without terms is answered without handing the solver a matrix that has no columns"
    ps = Sim(prog, fi, assume=status_assume(None, scen), loop_iters=(0, 1)).paths()
    bad = None
    for p in ps:
        for lp in p.calls("linprog"):
            a_ub = kw_of(lp, "A_ub")
            if a_ub is not None and a_ub != const(None) and any(isinstance(x, tuple) and x and x[0] == "call" and str(x[1]).endswith("termlist_to_polytope") for x in walk(a_ub)):
                bad = (p, a_ub)
    if bad is not None:
        ctx.violation(rule, key, construct, "with self.terms empty linprog is still called with A_ub=%s: the conversion of an empty list is a one-dimensional empty array, scipy refuses it with its own ValueError, and an unconstrained (hence unbounded) problem is reported as unsatisfiable" % show(bad[1], 3), where=fi.where)
    elif not ps:
        ctx.cannot_decide(rule, key, construct, "no path")
    else:
        ctx.ok(rule, key, construct + " (%d paths)" % len(ps))


def _position_names(fi: FuncInfo) -> Set[str]:
    """Names used to index the tested row ( a_temp[i, :] / b_temp[i] )."""
    out: Set[str] = set()
    for node in ast.walk(fi.node):
        if isinstance(node, ast.Subscript):
            sl = node.slice
            elts = sl.elts if isinstance(sl, ast.Tuple) else [sl]
            for e in elts:
                if isinstance(e, ast.Name):
                    out.add(e.id)
    return out


def _count_names(fi: FuncInfo) -> Set[str]:
    """Names compared with the position in the loop condition ( while i < n )."""
    out: Set[str] = set()
    for node in ast.walk(fi.node):
        if isinstance(node, ast.While) and isinstance(node.test, ast.Compare):
            for e in [node.test.left] + list(node.test.comparators):
                if isinstance(e, ast.Name):
                    out.add(e.id)
    return out - _position_names(fi)


def _live_count_arrays(fi: FuncInfo) -> Set[str]:
    """Arrays whose current row count bounds the loop ( while i < X.shape[0] / len(X) ) and that are re-bound to
    np.delete(X, ...) in the function."""
    out: Set[str] = set()
    for node in ast.walk(fi.node):
        if isinstance(node, ast.While) and isinstance(node.test, ast.Compare):
            for e in [node.test.left] + list(node.test.comparators):
                nm = None
                if isinstance(e, ast.Subscript) and isinstance(e.value, ast.Attribute) and e.value.attr == "shape" and isinstance(e.value.value, ast.Name) and norm(e.slice) == "0":
                    nm = e.value.value.id
                if isinstance(e, ast.Call) and isinstance(e.func, ast.Name) and e.func.id == "len" and len(e.args) == 1 and isinstance(e.args[0], ast.Name):
                    nm = e.args[0].id
                if nm is not None:
                    out.add(nm)
    rebound = set()
    for node in ast.walk(fi.node):
        if isinstance(node, ast.Assign) and len(node.targets) == 1 and isinstance(node.targets[0], ast.Name) and isinstance(node.value, ast.Call) and norm(node.value.func).endswith("delete") and node.value.args and isinstance(node.value.args[0], ast.Name) and node.value.args[0].id == node.targets[0].id:
            rebound.add(node.targets[0].id)
    return out & rebound


def _delta_from_start(v) -> Optional[Fraction]:
    """net constant added to a counter over the path: value = start + d  ->  d  (start = any single non-arithmetic atom or 0)."""
    r = to_rat(v)
    if set(r.den) != {()}:
        return None
    k = r.den[()]
    const_part = Fraction(0)
    atoms = 0
    for m, c in r.num.items():
        if m == ():
            const_part += c / k
        elif len(m) == 1 and m[0][1] == 1 and c / k == 1:
            atoms += 1
        else:
            return None
    if atoms > 1:
        return None
    return const_part


def _loop_counter_names(fi: FuncInfo) -> Set[str]:
    out: Set[str] = set()
    for node in ast.walk(fi.node):
        if isinstance(node, ast.While) and isinstance(node.test, ast.Compare):
            for e in [node.test.left] + list(node.test.comparators):
                if isinstance(e, ast.Name):
                    out.add(e.id)
    return out


def rule_lp_result_use(ctx: Ctx, key: str, rule: str = "lp-result-use") -> None:
    """C14: when the solver does not finish with status 0 the result has no optimum (`fun`, `x`, `slack` are None).
    On every path taken under status 1..4 these fields must not enter arithmetic or a comparison: otherwise
    TypeError escapes instead of a documented error."""
    prog = ctx.prog
    fi = prog.func(key)
    short = key.split(".")[-1]
    n = 0
    for s in (1, 2, 3, 4):
        ps = lp_paths(prog, key, s)
        bad: Dict[str, str] = {}
        for p in ps:
            n += 1
            roots = [p.value] if p.value is not None else []
            for e in p.events:
                roots += [v for v in list(e.get("args", ())) + [x for _k, x in e.get("kws", ())] + [e.get("recv"), e.get("value"), e.get("test"), e.get("rhs")] if v is not None]
            for r in roots:
                for x in walk(r):
                    if not (isinstance(x, tuple) and x and x[0] in ("un", "bin", "cmp")):
                        continue
                    ops = [x[2]] if x[0] == "un" else [x[2], x[3]]
                    if x[0] == "un" and x[1] == "Not":
                        continue
                    for o in ops:
                        for fld in ("fun", "x", "slack"):
                            if is_res_field(o, fld):
                                bad[show(x, 3)] = p.label()
        construct = "%s: the solver's optimum is not used when the solve ended with status %d" % (short, s)
        if not ps:
            ctx.cannot_decide(rule, key, construct, "no path through the linprog call")
        elif bad:
            k0 = sorted(bad)[0]
            ctx.violation(rule, key, construct, "%s is evaluated although the result has no optimum (None): TypeError (path %s)" % (k0, bad[k0]), where=fi.where)
        else:
            ctx.ok(rule, key, construct)
    ctx.floor("%s LP paths under a failed solve" % short, n, 2)


def rule_lp_zero_columns(ctx: Ctx, key: str, mats: List[str], vecs: List[str], rule: str = "lp-zero-columns", any_of: bool = False, allow_lp: bool = False) -> None:
    """C11/C03/C07/C14: a list whose terms mention no variable at all (rows '0 <= b', e.g. after like terms cancel)
    becomes a matrix with rows and no columns.  Decided with the column count fixed to 0 and at least one row:
    (i) linprog is never reached (scipy rejects an empty objective with a ValueError of its own, so the answer would be
    an error for a perfectly decidable question); (ii) whatever is returned has been made to depend on the bounds
    (a row '0 <= b' is satisfiable iff b >= 0; an answer that never looks at b cannot be right for both signs)."""
    prog = ctx.prog
    fi = prog.func(key)
    short = key.split(".")[-1]

    def shape_atom(v, idx: int) -> bool:
        return (
            isinstance(v, tuple)
            and v
            and v[0] in ("item", "sub")
            and isinstance(v[1], tuple)
            and v[1][0] == "attr"
            and v[1][2] == "shape"
            and v[1][1] in [("param", m) for m in mats]
            and (v[2] == idx or v[2] == const(idx))
        )

    def scen(v):
        if shape_atom(v, 1):
            return const(0)
        if isinstance(v, tuple) and v and v[0] == "bin" and v[1] == "Mult":
            if any(shape_atom(o, 1) or o == const(0) for o in (v[2], v[3])):
                return const(0)
        if isinstance(v, tuple) and v and v[0] == "cmp" and v[1] in ("Eq", "NotEq", "Gt") and v[3] == const(0):
            x = v[2]
            if shape_atom(x, 0) or (isinstance(x, tuple) and x[0] == "call" and x[1] == "len" and x[2] and x[2][0] in [("param", m) for m in mats]):
                return const(v[1] != "Eq")  # at least one row
        return None

    ps = Sim(prog, fi, assume=status_assume(None, scen), loop_iters=(0, 1)).paths()
    construct = "%s: rows without any column (0 <= b) are decided from the bounds, without an LP" % short
    if not ps:
        ctx.cannot_decide(rule, key, construct, "no path")
        return
    if allow_lp:
        construct = "%s: %s rows without any column (0 <= b) are decided from their bounds %s" % (short, "/".join(mats), "/".join(vecs))
    lp = [p for p in ps if p.calls("linprog")] if not allow_lp else []
    if lp:
        ctx.violation(rule, key, construct, "linprog is reached with an empty objective (no columns): scipy rejects the call although the question is decidable from the bounds alone (path %s)" % lp[0].label()[:160], where=fi.where)
        return
    blind = []
    for p in ps:
        if p.terminal != "return":
            continue
        missing = []
        for bname in vecs:
            isb = lambda y, bname=bname: y == ("param", bname)  # noqa: E731
            def examines(v, isb=isb) -> bool:
                """a comparison over the bounds, or the answer of a routine of the package that was handed the bounds"""
                for x in walk(v):
                    if isinstance(x, tuple) and x and x[0] == "cmp" and mentions(x, isb):
                        return True
                    if isinstance(x, tuple) and x and x[0] == "call" and "." in str(x[1]) and not str(x[1]).startswith("numpy") and any(mentions(a, isb) for a in x[2]):
                        return True
                return False

            looked = examines(p.value) if p.value is not None else False
            for e in p.events:
                if e["kind"] == "branch" and examines(e["test"]):
                    looked = True
            if not looked:
                missing.append(bname)
        if missing and (not any_of or len(missing) == len(vecs)):
            blind.append((p, missing))
    if blind:
        p, missing = blind[0]
        ctx.violation(rule, key, construct, "returns %s without ever looking at the bounds %s (path %s): a row 0 <= b with b < 0 is unsatisfiable, with b >= 0 it is trivially true" % (show(p.value, 3), missing, p.label()[:160] or "straight line"), where=fi.where)
    else:
        ctx.ok(rule, key, construct + " (%d paths)" % len(ps))
