"""Mechanical mutation operators over the syntax tree (used by the development sweep tools/mutate.py and by the
self-test's `mutant` variants, which re-apply a recorded mutant to the current source and check that the checks still
report it, or - for the mutants confirmed equivalent - stay silent)."""
from __future__ import annotations

import ast
import copy
import difflib
from typing import Dict, List, Optional, Tuple

CMP = {ast.Lt: ast.LtE, ast.LtE: ast.Lt, ast.Gt: ast.GtE, ast.GtE: ast.Gt, ast.Eq: ast.NotEq, ast.NotEq: ast.Eq, ast.In: ast.NotIn, ast.NotIn: ast.In, ast.Is: ast.IsNot, ast.IsNot: ast.Is}
BIN = {ast.Add: ast.Sub, ast.Sub: ast.Add, ast.Mult: ast.Div, ast.Div: ast.Mult, ast.BitOr: ast.BitAnd, ast.BitAnd: ast.BitOr}


SEMANTIC_OPS = False  # the second sweep: role swaps in the algebra layer
NAME_SWAP = {"self": "other", "other": "self", "assumptions": "guarantees", "guarantees": "assumptions", "inputvars": "outputvars", "outputvars": "inputvars", "input_vars": "output_vars", "output_vars": "input_vars", "g1": "g2", "g2": "g1", "source_var": "target_var", "target_var": "source_var"}
ATTR_SWAP = {"a": "g", "g": "a", "inputvars": "outputvars", "outputvars": "inputvars"}
CALL_FAMILIES = [("list_union", "list_intersection", "list_diff"), ("elim_vars_by_refining", "elim_vars_by_relaxing"), ("can_compose_with", "can_quotient_by", "shares_io_with")]


def functions(tree):
    out = []

    def rec(node, prefix):
        for ch in ast.iter_child_nodes(node):
            if isinstance(ch, (ast.FunctionDef, ast.AsyncFunctionDef)):
                out.append((prefix + ch.name, ch))
                rec(ch, prefix + ch.name + ".")
            elif isinstance(ch, ast.ClassDef):
                rec(ch, prefix + ch.name + ".")
            else:
                rec(ch, prefix)

    rec(tree, "")
    return out


def is_doc(stmt):
    return isinstance(stmt, ast.Expr) and isinstance(stmt.value, ast.Constant) and isinstance(stmt.value.value, str)


def is_log(stmt):
    return isinstance(stmt, ast.Expr) and isinstance(stmt.value, ast.Call) and "logging" in ast.unparse(stmt.value.func)


def sites(fn):
    """yield (op, lineno, mutate(node_in_copy)) descriptions as (op, index) over a deterministic walk"""
    res = []
    nodes = list(ast.walk(fn))
    for i, n in enumerate(nodes):
        ln = getattr(n, "lineno", 0)
        if isinstance(n, ast.Compare) and len(n.ops) == 1 and type(n.ops[0]) in CMP:
            res.append(("cmp", i, ln))
            if isinstance(n.ops[0], (ast.Lt, ast.LtE, ast.Gt, ast.GtE)):
                res.append(("cmp-flip", i, ln))
        elif isinstance(n, ast.BoolOp):
            res.append(("boolop", i, ln))
            res.append(("bool-drop-last", i, ln))
        elif isinstance(n, ast.UnaryOp) and isinstance(n.op, ast.Not):
            res.append(("not-drop", i, ln))
        elif isinstance(n, ast.UnaryOp) and isinstance(n.op, ast.USub) and not isinstance(n.operand, ast.Constant):
            res.append(("neg-drop", i, ln))
        elif isinstance(n, ast.BinOp) and type(n.op) in BIN:
            res.append(("binop", i, ln))
        elif isinstance(n, (ast.If, ast.While, ast.IfExp)):
            res.append(("negate-test", i, ln))
        elif isinstance(n, ast.Constant) and isinstance(n.value, bool):
            res.append(("bool-const", i, ln))
        elif isinstance(n, ast.Constant) and isinstance(n.value, (int, float)) and not isinstance(n.value, bool):
            res.append(("num-const", i, ln))
        elif isinstance(n, ast.Break):
            res.append(("break-continue", i, ln))
        elif isinstance(n, ast.Continue):
            res.append(("continue-break", i, ln))
        elif isinstance(n, ast.Call):
            if isinstance(n.func, ast.Attribute) and n.func.attr in ("copy", "deepcopy") and not n.args:
                res.append(("copy-drop", i, ln))
            if len(n.args) >= 2 and not any(isinstance(a, ast.Starred) for a in n.args[:2]) and ast.dump(n.args[0]) != ast.dump(n.args[1]):
                res.append(("arg-swap", i, ln))
            if n.keywords:
                res.append(("kw-drop", i, ln))
        elif isinstance(n, ast.comprehension) and n.ifs:
            res.append(("comp-if-drop", i, ln))
        elif isinstance(n, ast.Subscript) and isinstance(n.slice, ast.Slice):
            res.append(("slice-drop", i, ln))
        if SEMANTIC_OPS:
            if isinstance(n, ast.Name) and isinstance(n.ctx, ast.Load) and n.id in NAME_SWAP:
                res.append(("name-swap", i, ln))
            if isinstance(n, ast.Attribute) and isinstance(n.ctx, ast.Load) and n.attr in ATTR_SWAP:
                res.append(("attr-swap", i, ln))
            if isinstance(n, ast.Call):
                fnm = n.func.attr if isinstance(n.func, ast.Attribute) else n.func.id if isinstance(n.func, ast.Name) else None
                for k_, fam in enumerate(CALL_FAMILIES):
                    if fnm in fam:
                        for alt in fam:
                            if alt != fnm:
                                res.append(("call-swap:%s" % alt, i, ln))
        if isinstance(n, (ast.FunctionDef, ast.For, ast.While, ast.If, ast.With, ast.Try, ast.ExceptHandler)):
            for fld in ("body", "orelse", "finalbody"):
                body = getattr(n, fld, None)
                if not isinstance(body, list):
                    continue
                for j, st in enumerate(body):
                    if is_doc(st) or is_log(st) or isinstance(st, (ast.FunctionDef, ast.ClassDef, ast.Pass, ast.Import, ast.ImportFrom)):
                        continue
                    if isinstance(st, ast.Return) and st.value is None:
                        continue
                    res.append(("del-stmt:%s:%d" % (fld, j), i, st.lineno))
            if isinstance(n, ast.If) and n.orelse:
                res.append(("drop-else", i, ln))
        if isinstance(n, ast.Return) and n.value is not None and isinstance(n.value, (ast.BoolOp, ast.Compare, ast.Call, ast.Name)) :
            pass
    return res


def apply(fn, op, idx):
    nodes = list(ast.walk(fn))
    n = nodes[idx]
    if op == "cmp":
        n.ops[0] = CMP[type(n.ops[0])]()
    elif op == "cmp-flip":
        flip = {ast.Lt: ast.Gt, ast.LtE: ast.GtE, ast.Gt: ast.Lt, ast.GtE: ast.LtE}
        n.ops[0] = flip[type(n.ops[0])]()
    elif op == "boolop":
        n.op = ast.Or() if isinstance(n.op, ast.And) else ast.And()
    elif op == "bool-drop-last":
        n.values = n.values[:-1]
        if len(n.values) == 1:
            n.values = [n.values[0], copy.deepcopy(n.values[0])]
    elif op == "not-drop":
        n.op = ast.UAdd() if False else n.op
        # replace `not X` by `bool(X)`: keeps the type
        new = ast.Call(func=ast.Name(id="bool", ctx=ast.Load()), args=[n.operand], keywords=[])
        _replace(fn, n, new)
    elif op == "neg-drop":
        _replace(fn, n, n.operand)
    elif op == "binop":
        n.op = BIN[type(n.op)]()
    elif op == "negate-test":
        n.test = ast.UnaryOp(op=ast.Not(), operand=n.test)
    elif op == "bool-const":
        n.value = not n.value
    elif op == "num-const":
        n.value = 1 if n.value == 0 else (0 if n.value == 1 else n.value + 1)
    elif op == "break-continue":
        _replace(fn, n, ast.Continue())
    elif op == "continue-break":
        _replace(fn, n, ast.Break())
    elif op == "copy-drop":
        _replace(fn, n, n.func.value)
    elif op == "arg-swap":
        n.args[0], n.args[1] = n.args[1], n.args[0]
    elif op == "kw-drop":
        n.keywords = n.keywords[:-1]
    elif op == "comp-if-drop":
        n.ifs = n.ifs[:-1]
    elif op == "slice-drop":
        _replace(fn, n, n.value)
    elif op == "drop-else":
        n.orelse = []
    elif op == "name-swap":
        n.id = NAME_SWAP[n.id]
    elif op == "attr-swap":
        n.attr = ATTR_SWAP[n.attr]
    elif op.startswith("call-swap:"):
        alt = op.split(":", 1)[1]
        if isinstance(n.func, ast.Attribute):
            n.func.attr = alt
        else:
            n.func.id = alt
    elif op.startswith("del-stmt:"):
        _, fld, j = op.split(":")
        body = getattr(n, fld)
        body[int(j)] = ast.Pass()
    else:
        raise ValueError(op)


def _replace(root, old, new):
    for parent in ast.walk(root):
        for fld, val in ast.iter_fields(parent):
            if val is old:
                setattr(parent, fld, new)
                return
            if isinstance(val, list):
                for k, x in enumerate(val):
                    if x is old:
                        val[k] = new
                        return
    raise ValueError("node not found")




def mutate_source(src: str, function: str, op: str, idx: int, line: Optional[int] = None) -> Optional[Tuple[str, List[str], List[str]]]:
    """Apply mutant (function, op, idx) to a module's source.  -> (new text, removed lines, added lines) of the
    re-printed module, or None when the site no longer exists."""
    tree = ast.parse(src)
    base = ast.unparse(tree)
    fns = [(q, f) for q, f in functions(tree) if q == function]
    if not fns:
        return None
    fn = fns[0][1]
    if line is not None and len(fns) > 1:
        fn = min((f for _q, f in fns), key=lambda f: abs(f.lineno - line))
    nodes = list(ast.walk(fn))
    if idx >= len(nodes):
        return None
    try:
        apply(fn, op, idx)
        ast.fix_missing_locations(tree)
        text = ast.unparse(tree) + "\n"
        compile(text, "<mutant>", "exec")
    except Exception:
        return None
    d = [x for x in difflib.unified_diff(base.splitlines(), text.splitlines(), lineterm="", n=0) if not x.startswith(("---", "+++", "@@"))]
    minus = [x[1:].strip() for x in d if x.startswith("-")]
    plus = [x[1:].strip() for x in d if x.startswith("+")]
    if not minus and not plus:
        return None
    return text, minus, plus
