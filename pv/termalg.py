"""Arithmetic-kernel normaliser: the term-algebra methods are read over a *generic* term whose
coefficients are symbols (rational normal forms, pv.ratnf), never numbers.

A record value has a finite, known set of variable keys (x, y, z, ...) with symbolic, generically non-zero
coefficients; dictionary comprehensions and loops over `.variables.items()` are unfolded over that key set; a
coefficient that is identically zero in the field of rational functions is dropped where the source drops it
(`if value != 0`).  The result of a kernel is then compared with its algebraic law by cross-multiplication.
This is syntactic algebra on the source expressions: no float is ever supplied and nothing is executed.
"""
from __future__ import annotations

import ast
from fractions import Fraction
from typing import Any, Dict, List, Optional, Tuple

from .loader import AnalysisError, FuncInfo, Program, norm
from .ratnf import Rat, p_atom, p_const, sign_under


def sym(name: str) -> Rat:
    return Rat(p_atom(("sym", name)))


def num(k) -> Rat:
    return Rat(p_const(k))


class Key:
    """A variable key (Var object / str); equal by name."""

    def __init__(self, name: str):
        self.name = name

    def __eq__(self, other):
        return isinstance(other, Key) and other.name == self.name

    def __hash__(self):
        return hash(("key", self.name))

    def __repr__(self):
        return "<%s>" % self.name


class LinV:
    """A symbolic linear expression (what sympy would hold): {Key: Rat} + constant."""

    def __init__(self, coefs=None, const=None):
        self.coefs: Dict[Key, Rat] = dict(coefs or {})
        self.const: Rat = const if const is not None else num(0)

    def add(self, o, sign=1):
        r = LinV(self.coefs, self.const)
        if isinstance(o, Rat):
            r.const = r.const + (o if sign == 1 else -o)
            return r
        for k, v in o.coefs.items():
            r.coefs[k] = r.coefs.get(k, num(0)) + (v if sign == 1 else -v)
        r.const = r.const + (o.const if sign == 1 else -o.const)
        return r

    def scale(self, f: Rat):
        return LinV({k: v * f for k, v in self.coefs.items()}, self.const * f)


class DictV:
    def __init__(self, d: Optional[Dict[Key, Any]] = None):
        self.d: Dict[Key, Any] = dict(d or {})


class ListV:
    def __init__(self, items: Optional[List[Any]] = None):
        self.items = list(items or [])


class TupV:
    def __init__(self, items):
        self.items = list(items)


class Rec:
    def __init__(self, cls: str, fields: Optional[Dict[str, Any]] = None):
        self.cls = cls
        self.f: Dict[str, Any] = dict(fields or {})


class NoneT:
    def __repr__(self):
        return "None"


NONE = NoneT()


class Raised(Exception):
    def __init__(self, cls: str):
        self.cls = cls


class SetV(ListV):
    """a set / frozenset of known elements: membership needs a hashable left side"""


_SENTINELS: Dict[Tuple[str, str], Tuple[str, str, str]] = {}
_DUNDER = {ast.BitOr: "__or__", ast.BitAnd: "__and__", ast.Sub: "__sub__", ast.Mult: "__mul__"}


class _Ret(Exception):
    def __init__(self, v):
        self.v = v


class Undecidable(AnalysisError):
    pass


class TermAlg:
    def __init__(self, prog: Program, stubs: Optional[Dict[str, Any]] = None):
        self.prog = prog
        self.stubs = stubs or {}
        self.depth = 0
        self.fstack: List[FuncInfo] = []
        self.signs: Dict[Any, int] = {}  # sign assumptions on symbols: ("sym", name) -> +1 / -1
        self.ext_stubs: Dict[str, Any] = {}  # dotted name of a third-party callable -> fn(ta, pos, kw)
        self._class_vals: Dict[Any, Any] = {}
        self._yields: List[List[Any]] = []
        self._text_depth = 0  # (class, name) -> the one object a class-level binding denotes

    # ------------------------------------------------------------ builders
    def term(self, keys: List[Key], prefix: str, const_name: Optional[str] = None) -> Rec:
        d = DictV({k: sym("%s_%s" % (prefix, k.name)) for k in keys})
        return Rec("PolyhedralTerm", {"variables": d, "constant": sym(const_name or (prefix + "_c"))})

    # ------------------------------------------------------------ calls
    def call(self, fi: FuncInfo, pos: List[Any], kw: Optional[Dict[str, Any]] = None, self_val: Any = None) -> Any:
        kw = kw or {}
        if fi.key in self.stubs:
            full = ([self_val] + list(pos)) if (self_val is not None and fi.kind in ("method", "property")) else list(pos)
            # arguments given by keyword are handed to the stub in the callee's parameter order as well
            rest = dict(kw)
            for p in fi.params[len(full):]:
                if p in rest:
                    full.append(rest.pop(p))
                else:
                    break
            return self.stubs[fi.key](self, full, rest)
        if self.depth > 12:
            raise AnalysisError("kernel inlining too deep at %s" % fi.key)
        env: Dict[str, Any] = {}
        params = fi.params
        pos = list(pos)
        if fi.kind in ("method", "property") and self_val is not None:
            pos = [self_val] + pos
        for p, v in zip(params, pos):
            env[p] = v
        env.update(kw)
        for p, d in fi.defaults().items():
            if p not in env:
                env[p] = self.eval(d, {})
        for p in params:
            if p not in env:
                if len(self.fstack) > 0:
                    raise Raised("TypeError")  # the interpreted code calls %s without its argument %s
                raise AnalysisError("missing argument %s for %s" % (p, fi.key))
        is_gen = not isinstance(fi.node, ast.Lambda) and any(isinstance(n_, (ast.Yield, ast.YieldFrom)) for n_ in ast.walk(fi.node))
        self.depth += 1
        self.fstack.append(fi)
        if is_gen:
            # a generator function: run to the end, what it yields collected in order (its callers only iterate it)
            self._yields.append([])
        try:
            self.block(fi.body, env)
        except _Ret as r:
            if not is_gen:
                return r.v
        finally:
            self.depth -= 1
            self.fstack.pop()
            got_ = self._yields.pop() if is_gen else None
        if is_gen:
            return ListV(got_)
        return NONE

    def x_Yield(self, e, env):
        if not self._yields:
            raise AnalysisError("yield outside a generator function")
        self._yields[-1].append(self.eval(e.value, env) if e.value is not None else NONE)
        return NONE

    def x_YieldFrom(self, e, env):
        if not self._yields:
            raise AnalysisError("yield outside a generator function")
        self._yields[-1].extend(self.iterate(self.eval(e.value, env), e))
        return NONE

    def method(self, obj: Rec, name: str, pos: List[Any], kw: Optional[Dict[str, Any]] = None) -> Any:
        fi = self.prog.resolve_method(obj.cls, name)
        if fi is None:
            raise AnalysisError("method %s.%s not found" % (obj.cls, name))
        if fi.kind == "static":
            return self.call(fi, pos, kw)
        return self.call(fi, pos, kw, self_val=obj)

    def construct(self, cname: str, pos: List[Any], kw: Dict[str, Any]) -> Any:
        ci = self.prog.classes.get(cname)
        if ci is None:
            raise AnalysisError("unknown class %s" % cname)
        if any(norm(b).split(".")[-1] == "NamedTuple" for b in ci.node.bases) and self.prog.resolve_method(cname, "__new__") is None:
            # a record of named fields: a tuple whose items are also read by name
            names = [n for n, _d in ci.fields]
            if len(pos) > len(names):
                raise Raised("TypeError")
            vals: Dict[str, Any] = dict(zip(names, pos))
            for k, v in kw.items():
                if k not in names or k in vals:
                    raise Raised("TypeError")
                vals[k] = v
            for n, d in ci.fields:
                if n not in vals:
                    if d is None:
                        raise Raised("TypeError")
                    vals[n] = self.eval(d, {})
            tv = TupV([vals[n] for n in names])
            tv.names = names
            tv.cls = cname
            return tv
        ob = Rec(cname)
        init = self.prog.resolve_method(cname, "__init__")
        if init is not None:
            self.call(init, pos, kw, self_val=ob)
            return ob
        if ci.is_dataclass:
            names = [n for n, _d in ci.fields]
            for n, v in zip(names, pos):
                ob.f[n] = v
            for k, v in kw.items():
                ob.f[k] = v
            for n, d in ci.fields:
                if n not in ob.f:
                    if d is None:
                        raise AnalysisError("dataclass %s field %s missing" % (cname, n))
                    ob.f[n] = self.dc_default(d)
            post = self.prog.resolve_method(cname, "__post_init__")
            if post is not None:
                self.call(post, [], {}, self_val=ob)
            return ob
        return ob

    def dc_default(self, d: ast.AST) -> Any:
        t = norm(d)
        if "default_factory=dict" in t:
            return DictV()
        if "default_factory=list" in t:
            return ListV()
        if "default=None" in t:
            return NONE
        if "init=False" in t:
            return NONE
        return self.eval(d, {})

    # ------------------------------------------------------------ statements
    def block(self, stmts, env):
        for s in stmts:
            self.stmt(s, env)

    def truth(self, v, node=None) -> bool:
        if isinstance(v, bool):
            return v
        if isinstance(v, NoneT):
            return False
        if isinstance(v, ListV):
            return bool(v.items)
        if isinstance(v, DictV):
            return bool(v.d)
        if isinstance(v, (Rec, Key)):
            return True
        if isinstance(v, Rat):
            c = v.as_const()
            if c is not None:
                return c != 0
            # generic symbols (as for ==): an expression that is not identically zero is not zero; the laws add the
            # concrete zero cases themselves
            return not v.is_zero()
        if isinstance(v, tuple) and v and v[0] == "str":
            return v[1] != ""
        raise Undecidable("cannot decide the truth of %s in %s" % (norm(node) if node is not None else v, self.fstack[-1].key))

    def stmt(self, s, env):
        if isinstance(s, ast.Expr):
            if isinstance(s.value, ast.Constant):
                return
            if isinstance(s.value, ast.Call) and norm(s.value.func).startswith("logging."):
                return
            self.eval(s.value, env)
            return
        if isinstance(s, ast.Assign):
            v = self.eval(s.value, env)
            for t in s.targets:
                self.assign(t, v, env)
            return
        if isinstance(s, ast.AnnAssign):
            if s.value is not None:
                self.assign(s.target, self.eval(s.value, env), env)
            return
        if isinstance(s, ast.AugAssign):
            cur = self.eval(_load(s.target), env)
            v = self.arith(s.op, cur, self.eval(s.value, env), s)
            self.assign(s.target, v, env)
            return
        if isinstance(s, ast.If):
            if self.truth(self.eval(s.test, env), s.test):
                self.block(s.body, env)
            else:
                self.block(s.orelse, env)
            return
        if isinstance(s, ast.For):
            it = self.iterate(self.eval(s.iter, env), s.iter)
            for x in it:
                self.assign(s.target, x, env)
                try:
                    self.block(s.body, env)
                except _Brk:
                    break
                except _Cont:
                    continue
            else:
                self.block(s.orelse, env)
            return
        if isinstance(s, ast.While):
            # on concrete data a loop runs as often as its test says; a bound keeps a loop the data cannot end finite
            rounds = 0
            broke = False
            while self.truth(self.eval(s.test, env), s.test):
                rounds += 1
                if rounds > 200:
                    raise AnalysisError("while loop in %s does not end on the scenario's data" % self.fstack[-1].key)
                try:
                    self.block(s.body, env)
                except _Brk:
                    broke = True
                    break
                except _Cont:
                    continue
            if not broke:
                self.block(s.orelse, env)
            return
        if isinstance(s, ast.Return):
            raise _Ret(self.eval(s.value, env) if s.value is not None else NONE)
        if isinstance(s, ast.Raise):
            from .cfg import exc_class_of

            raise Raised(exc_class_of(s.exc) or "?")
        if isinstance(s, ast.Assert):
            return
        if isinstance(s, ast.Pass):
            return
        if isinstance(s, ast.Break):
            raise _Brk()
        if isinstance(s, ast.Continue):
            raise _Cont()
        if isinstance(s, ast.Try):
            try:
                self.block(s.body, env)
            except Raised as r:
                from .cfg import ExcTable, handler_classes

                ex = ExcTable(self.prog)
                for h in s.handlers:
                    if any(ex.is_sub(r.cls, hc) for hc in handler_classes(h)):
                        self.block(h.body, env)
                        break
                else:
                    raise
            return
        if isinstance(s, ast.Delete):
            for t in s.targets:
                if isinstance(t, ast.Subscript):
                    b = self.eval(t.value, env)
                    k = self.eval(t.slice, env)
                    if isinstance(b, DictV):
                        if k not in b.d:
                            raise Raised("KeyError")
                        del b.d[k]
                        continue
                    if isinstance(b, ListV) and isinstance(k, Rat) and k.as_const() is not None:
                        i_ = int(k.as_const())
                        if not -len(b.items) <= i_ < len(b.items):
                            raise Raised("IndexError")
                        del b.items[i_]
                        continue
                elif isinstance(t, ast.Name) and t.id in env:
                    del env[t.id]
                    continue
                raise AnalysisError("del %s outside the kernel fragment in %s" % (norm(t), self.fstack[-1].key))
            return
        if isinstance(s, ast.FunctionDef):
            # a local function: a value that remembers where it was defined
            env[s.name] = ("closure", s, env, self.fstack[-1] if self.fstack else None)
            return
        if isinstance(s, ast.With):
            # context managers are not modelled: the resource is whatever the (stubbed) call gives, the body runs once
            for item in s.items:
                v = self.eval(item.context_expr, env)
                if item.optional_vars is not None:
                    self.assign(item.optional_vars, v, env)
            self.block(s.body, env)
            return
        raise AnalysisError("statement %s outside the kernel fragment in %s" % (type(s).__name__, self.fstack[-1].key))

    def assign(self, t, v, env):
        if isinstance(t, ast.Name):
            env[t.id] = v
            return
        if isinstance(t, (ast.Tuple, ast.List)):
            items = v.items if isinstance(v, (TupV, ListV)) else None
            stars = [k for k, e in enumerate(t.elts) if isinstance(e, ast.Starred)]
            if items is not None and len(stars) == 1 and len(items) >= len(t.elts) - 1:
                # a, *rest, z = items
                k = stars[0]
                tail = len(t.elts) - 1 - k
                for e, x in zip(t.elts[:k], items[:k]):
                    self.assign(e, x, env)
                self.assign(t.elts[k].value, ListV(list(items[k: len(items) - tail])), env)
                for e, x in zip(t.elts[k + 1:], items[len(items) - tail:]):
                    self.assign(e, x, env)
                return
            if items is not None and len(items) != len(t.elts) and not stars:
                raise Raised("ValueError")  # too many / not enough values to unpack
            if items is None or len(items) != len(t.elts):
                raise AnalysisError("cannot unpack in %s" % self.fstack[-1].key)
            for e, x in zip(t.elts, items):
                self.assign(e, x, env)
            return
        if isinstance(t, ast.Attribute):
            b = self.eval(t.value, env)
            if isinstance(b, Rec):
                b.f[t.attr] = v
                return
        if isinstance(t, ast.Subscript):
            b = self.eval(t.value, env)
            k = self.eval(t.slice, env)
            if isinstance(b, DictV) and isinstance(k, Key):
                b.d[k] = v
                return
            if isinstance(b, ListV) and not isinstance(b, (TupV, SetV)) and isinstance(k, Rat) and k.as_const() is not None and k.as_const().denominator == 1:
                i_ = int(k.as_const())
                if not -len(b.items) <= i_ < len(b.items):
                    raise Raised("IndexError")
                b.items[i_] = v  # xs[i] = v
                return
        raise AnalysisError("assignment to %s outside the kernel fragment" % norm(t))

    def iterate(self, v, node) -> List[Any]:
        if isinstance(v, ListV):
            return list(v.items)
        if isinstance(v, TupV):
            return list(v.items)
        if isinstance(v, DictV):
            return list(v.d.keys())
        if isinstance(v, tuple) and v and v[0] == "str" and "?" not in v[1]:
            return [("str", ch) for ch in v[1]]  # a string is iterated character by character
        if isinstance(v, (Rat, NoneT)) or isinstance(v, bool):
            raise Raised("TypeError")  # a number / None is not iterable
        raise AnalysisError("cannot iterate over %s in %s" % (norm(node), self.fstack[-1].key))

    # ------------------------------------------------------------ expressions
    def eval(self, e, env) -> Any:
        m = getattr(self, "x_" + type(e).__name__, None)
        if m is None:
            raise AnalysisError("expression %s outside the kernel fragment in %s" % (norm(e), self.fstack[-1].key if self.fstack else "?"))
        return m(e, env)

    def x_Constant(self, e, env):
        v = e.value
        if v is None:
            return NONE
        if isinstance(v, bool):
            return v
        if isinstance(v, (int, float)):
            return num(Fraction(v).limit_denominator(10**9))
        if isinstance(v, str):
            return ("str", v)
        return ("const", v)

    def x_Name(self, e, env):
        if e.id in env:
            return env[e.id]
        fi = self.fstack[-1] if self.fstack else None
        if fi is not None:
            r = self.prog.resolve_name(fi.module, e.id)
            if r is not None:
                return r
        if fi is not None and e.id in fi.module.assigns and isinstance(fi.module.assigns[e.id], ast.Call) and norm(fi.module.assigns[e.id].func).startswith("logging."):
            return ("logger",)  # logger = logging.getLogger(__name__): calls on it are ignored like logging.debug(...)
        if fi is not None and e.id in fi.module.assigns and isinstance(fi.module.assigns[e.id], ast.Call) and norm(fi.module.assigns[e.id].func) == "object" and not fi.module.assigns[e.id].args:
            # a module-level sentinel `_MISSING = object()`: one value, equal only to itself
            return _SENTINELS.setdefault((fi.module.name, e.id), ("sentinel", fi.module.name, e.id))
        if fi is not None and e.id in fi.module.assigns and isinstance(fi.module.assigns[e.id], ast.Call) and norm(fi.module.assigns[e.id].func) in ("frozenset", "set", "tuple", "list") and len(fi.module.assigns[e.id].args) <= 1 and all(isinstance(a_, (ast.Tuple, ast.List, ast.Set)) for a_ in fi.module.assigns[e.id].args):
            return self.eval(fi.module.assigns[e.id], {})
        if fi is not None and e.id in fi.module.assigns and isinstance(fi.module.assigns[e.id], (ast.Tuple, ast.List, ast.Constant, ast.Dict, ast.Set)):
            # a constant table / literal of the module
            return self.eval(fi.module.assigns[e.id], {})
        if fi is not None and e.id in fi.module.assigns and isinstance(fi.module.assigns[e.id], (ast.BinOp, ast.Name)) and all(isinstance(x_, (ast.BinOp, ast.Name, ast.Tuple, ast.List, ast.Constant, ast.Add, ast.Load, ast.UnaryOp, ast.USub)) for x_ in ast.walk(fi.module.assigns[e.id])):
            # a table put together from other tables of the module (KEYS = TERM_KEYS + VARIABLE_KEYS)
            return self.eval(fi.module.assigns[e.id], {})
        if e.id == "open":
            return ("extmod", "builtins.open")
        if e.id == "print":
            return ("ignore",)  # writes to the terminal: no value, no effect on the records
        if e.id in ("float", "int", "str", "list", "len", "isinstance", "abs", "enumerate", "sorted", "dict", "type", "all", "any", "zip", "range", "bool", "tuple", "set", "next", "iter", "reversed", "min", "max", "sum", "frozenset", "format"):
            return ("builtin", e.id)
        if e.id in ("product", "reduce", "map", "filter"):
            return ("builtin", e.id)
        if fi is not None and fi.module.imports.get(e.id) in _STDLIB_ALIASES:
            return ("builtin", _STDLIB_ALIASES[fi.module.imports[e.id]])  # from itertools import chain / combinations ...
        if fi is not None and e.id in fi.module.imports and not fi.module.imports[e.id].startswith("pacti"):
            return ("extmod", fi.module.imports[e.id])
        if e.id == "Var":
            return ("builtin", "Var")
        raise AnalysisError("unknown name %s in %s" % (e.id, self.fstack[-1].key if self.fstack else "?"))

    def x_Attribute(self, e, env):
        b = self.eval(e.value, env)
        if isinstance(b, Rec):
            if e.attr in b.f:
                return b.f[e.attr]
            fi = self.prog.resolve_method(b.cls, e.attr)
            if fi is not None:
                if fi.kind == "property":
                    return self.call(fi, [], {}, self_val=b)
                return ("bound", b, fi)
            # a class-level value (one object per class, shared by the instances that do not store their own)
            cname_ = b.cls
            seen_ = set()
            while cname_ in self.prog.classes and cname_ not in seen_:
                seen_.add(cname_)
                ci_ = self.prog.classes[cname_]
                if e.attr in ci_.class_assigns:
                    key_ = (cname_, e.attr)
                    if key_ not in self._class_vals:
                        self._class_vals[key_] = self.eval(ci_.class_assigns[e.attr], {})
                    return self._class_vals[key_]
                cname_ = ci_.base_names[0] if ci_.base_names else ""
            raise AnalysisError("unknown attribute %s.%s" % (b.cls, e.attr))
        if b == ("builtin", "chain") and e.attr == "from_iterable":
            return ("builtin", "chain.from_iterable")
        if isinstance(b, TupV) and e.attr in getattr(b, "names", ()):
            return b.items[b.names.index(e.attr)]
        if isinstance(b, TupV) and getattr(b, "cls", None):
            m_ = self.prog.resolve_method(b.cls, e.attr)
            if m_ is not None and m_.kind == "property":
                return self.call(m_, [], {}, self_val=b)
            if m_ is not None:
                return ("bound", b, m_)
        if isinstance(b, tuple) and b and b[0] == "extmod":
            return ("extmod", b[1] + "." + e.attr)
        if isinstance(b, LinV):
            return ("linm", b, e.attr)
        if isinstance(b, DictV):
            return ("dictm", b, e.attr)
        if isinstance(b, ListV) and e.attr == "shape":
            # a list standing for a numpy array: its dimensions
            if b.items and all(isinstance(r_, ListV) for r_ in b.items):
                return TupV([num(len(b.items)), num(len(b.items[0].items))])
            return TupV([num(len(b.items))])
        if isinstance(b, ListV):
            return ("listm", b, e.attr)
        if b.__class__.__name__ == "ClassInfo":
            fi = self.prog.resolve_method(b.name, e.attr)
            if fi is not None:
                return ("unbound", b.name, fi)
        if b == ("logger",):
            return ("ignore",)
        if b.__class__.__name__ == "ModInfo":
            r = self.prog.resolve_dotted(b.name + "." + e.attr)
            if r is not None:
                return r  # a function / class / sub-module of a module of the package
            if e.attr in b.assigns:
                # a constant / table of that module, read through the module object: evaluated among its own names
                class _Frame:
                    module = b
                    key = b.base + ".<module>"
                    cls = None
                    params: List[str] = []
                    kind = "function"

                self.fstack.append(_Frame())  # type: ignore[arg-type]
                try:
                    return self.eval(ast.Name(id=e.attr, ctx=ast.Load()), {})
                finally:
                    self.fstack.pop()
        if isinstance(b, Key) and e.attr == "name":
            return ("str", b.name)
        if isinstance(b, tuple) and b and b[0] == "str" and e.attr == "join":
            return ("strjoin", b[1])
        if isinstance(b, tuple) and b and b[0] == "str" and e.attr in ("format", "strip", "lower", "upper", "rstrip", "lstrip", "replace"):
            return ("strmeth", b[1], e.attr)
        if isinstance(b, tuple) and b and b[0] == "enumv":
            return ("enumv", e.attr)
        if b.__class__.__name__ == "ClassInfo" and b.name == "PolyhedralSyntaxOperator":
            return ("enum", e.attr)
        raise AnalysisError("attribute %s outside the kernel fragment in %s" % (norm(e), self.fstack[-1].key))

    def x_Subscript(self, e, env):
        b = self.eval(e.value, env)
        if isinstance(e.slice, ast.Slice) and isinstance(b, (ListV, TupV)):
            def bound(x):
                if x is None:
                    return None
                v = self.eval(x, env)
                c = v.as_const() if isinstance(v, Rat) else None
                if c is None:
                    raise AnalysisError("slice bound %s" % norm(x))
                return int(c)
            return ListV(b.items[bound(e.slice.lower):bound(e.slice.upper):bound(e.slice.step)])
        k = self.eval(e.slice, env)
        if isinstance(b, DictV) and (isinstance(k, (Key, Rat)) or (isinstance(k, tuple) and k and k[0] == "str")):
            if k not in b.d:
                raise Raised("KeyError")
            return b.d[k]
        if isinstance(b, (ListV, TupV)) and isinstance(k, Rat):
            c = k.as_const()
            if c is not None and c.denominator == 1 and -len(b.items) <= int(c) < len(b.items):
                return b.items[int(c)]
            if c is not None and c.denominator == 1:
                raise Raised("IndexError")  # a concrete list indexed beyond its end
        raise AnalysisError("subscript %s outside the kernel fragment in %s" % (norm(e), self.fstack[-1].key))

    def x_Tuple(self, e, env):
        return TupV([self.eval(x, env) for x in e.elts])

    def x_List(self, e, env):
        return ListV([self.eval(x, env) for x in e.elts])

    def x_Set(self, e, env):
        return SetV([self.eval(x, env) for x in e.elts])

    def x_Dict(self, e, env):
        d = DictV()
        for k, v in zip(e.keys, e.values):
            kk = self.eval(k, env)
            if not (isinstance(kk, Key) or (isinstance(kk, tuple) and kk and kk[0] == "str" and "?" not in kk[1])):
                raise AnalysisError("dict key %s" % norm(k))
            d.d[kk] = self.eval(v, env)
        return d

    def x_JoinedStr(self, e, env):
        # f"{x}" of a single value: a canonical text of that value (enough for the equality tests the parser uses)
        if len(e.values) == 1 and isinstance(e.values[0], ast.FormattedValue) and e.values[0].format_spec is None:
            return ("str", self.text_of(self.eval(e.values[0].value, env)))
        if len(e.values) == 1 and isinstance(e.values[0], ast.FormattedValue):
            fs = e.values[0].format_spec
            v = self.eval(e.values[0].value, env)
            if isinstance(v, Rat) and v.as_const() is not None and isinstance(fs, ast.JoinedStr) and len(fs.values) == 1 and isinstance(fs.values[0], ast.Constant):
                # a literal format applied to a literal number: constant folding
                return ("str", format(float(v.as_const()), fs.values[0].value))
        # the general case: the literal pieces and the texts of the values, one after the other
        out = ""
        for part in e.values:
            if isinstance(part, ast.Constant) and isinstance(part.value, str):
                out += part.value
                continue
            if not isinstance(part, ast.FormattedValue) or part.conversion not in (-1, 115):
                return ("str", "?")
            v = self.eval(part.value, env)
            fs = part.format_spec
            if fs is None:
                out += self.text_of(v)
            elif isinstance(v, Rat) and v.as_const() is not None and isinstance(fs, ast.JoinedStr) and len(fs.values) == 1 and isinstance(fs.values[0], ast.Constant):
                out += format(float(v.as_const()), fs.values[0].value)
            else:
                return ("str", "?")
        return ("str", out)

    def _str_format(self, template: str, pos, kw) -> Optional[str]:
        """'...{0:.4g}...'.format(values) for values whose text is known; None when a piece cannot be followed"""
        import string

        out = ""
        auto = 0
        try:
            pieces = list(string.Formatter().parse(template))
        except ValueError:
            return None
        for lit, field, spec, conv in pieces:
            out += lit
            if field is None:
                continue
            if conv not in (None, "s") or "{" in (spec or "") or "." in field or "[" in field:
                return None
            if field == "":
                key_ = auto
                auto += 1
            elif field.isdigit():
                key_ = int(field)
            else:
                key_ = field
            if isinstance(key_, int):
                if key_ >= len(pos):
                    raise Raised("IndexError")
                v = pos[key_]
            else:
                if key_ not in kw:
                    raise Raised("KeyError")
                v = kw[key_]
            if spec:
                if isinstance(v, Rat) and v.as_const() is not None:
                    try:
                        out += format(float(v.as_const()), spec)
                    except ValueError:
                        return None
                else:
                    return None
            else:
                t_ = self.text_of(v)
                if "?" in t_:
                    return None
                out += t_
        return out

    def text_of(self, v) -> str:
        if isinstance(v, Rat):
            if v.is_zero():
                return "0.0"
            c = v.as_const()
            if c is not None:
                return repr(float(c))
            return "<%s>" % v.show()
        if isinstance(v, Rec):
            # the class's own text (what str() / an f-string gives): __str__, else __repr__ - this is what code that
            # identifies objects by their printed form actually compares
            m_ = self.prog.resolve_method(v.cls, "__str__") or self.prog.resolve_method(v.cls, "__repr__")
            if m_ is not None and m_.cls is not None and len(self.fstack) < 30 and self._text_depth < 6:
                self._text_depth += 1
                try:
                    r_ = self.call(m_, [], {}, self_val=v)
                    if isinstance(r_, tuple) and r_ and r_[0] == "str" and "?" not in r_[1]:
                        return r_[1]
                except (AnalysisError, Undecidable, Raised):
                    pass
                finally:
                    self._text_depth -= 1
            parts = []
            for k in sorted(v.f):
                parts.append("%s=%s" % (k, self.text_of(v.f[k])))
            return "%s(%s)" % (v.cls, ",".join(parts))
        if isinstance(v, DictV):
            return "{" + ",".join("%s:%s" % (k.name, self.text_of(x)) for k, x in sorted(v.d.items(), key=lambda kv: kv[0].name)) + "}"
        if isinstance(v, (ListV, TupV)):
            return "[" + ",".join(self.text_of(x) for x in v.items) + "]"
        if isinstance(v, NoneT):
            return "None"
        if isinstance(v, tuple) and v and v[0] == "str":
            return v[1]
        if isinstance(v, Key):
            return v.name
        return "?"

    def x_Lambda(self, e, env):
        return ("lambda", e, dict(env), self.fstack[-1] if self.fstack else None)

    _OPERATOR = {"neg": (1, None), "add": (2, ast.Add), "sub": (2, ast.Sub), "mul": (2, ast.Mult), "truediv": (2, ast.Div)}

    def apply(self, fn, pos, kw, node):
        """Call a function value: a function / method of the package, a lambda (with its closure), operator.<op>."""
        if isinstance(fn, FuncInfo):
            return self.call(fn, pos, kw)
        if isinstance(fn, tuple) and fn:
            if fn[0] == "bound":
                return self.call(fn[2], pos, kw) if fn[2].kind == "static" else self.call(fn[2], pos, kw, self_val=fn[1])
            if fn[0] == "unbound":
                return self.call(fn[2], pos, kw) if fn[2].kind == "static" else self.call(fn[2], pos[1:], kw, self_val=pos[0])
            if fn[0] == "lambda" and len(fn) == 4:
                lam, env0, frame = fn[1], dict(fn[2]), fn[3]
                names = [a.arg for a in lam.args.args]
                if len(pos) > len(names) or lam.args.vararg or lam.args.kwarg:
                    raise AnalysisError("lambda called with %d arguments" % len(pos))
                for n_, d_ in zip(reversed(names), reversed(lam.args.defaults)):
                    env0[n_] = self.eval(d_, dict(fn[2]))
                for n_, v_ in zip(names, pos):
                    env0[n_] = v_
                env0.update(kw)
                if frame is not None:
                    self.fstack.append(frame)
                try:
                    return self.eval(lam.body, env0)
                finally:
                    if frame is not None:
                        self.fstack.pop()
            if fn[0] == "partialv":
                return self.apply(fn[1], list(fn[2]) + list(pos), dict(fn[3], **kw), node)
            if fn[0] == "closure":
                node_, env0, frame = fn[1], dict(fn[2]), fn[3]
                a_ = node_.args
                names = [x.arg for x in a_.args]
                if len(pos) > len(names) or a_.vararg or a_.kwarg:
                    raise AnalysisError("local function %s called with %d arguments" % (node_.name, len(pos)))
                for n_, d_ in zip(reversed(names), reversed(a_.defaults)):
                    env0[n_] = self.eval(d_, dict(fn[2]))
                for n_, v_ in zip(names, pos):
                    env0[n_] = v_
                env0.update(kw)
                if frame is not None:
                    self.fstack.append(frame)
                try:
                    self.block(node_.body, env0)
                    return NONE
                except _Ret as r_:
                    return r_.v
                finally:
                    if frame is not None:
                        self.fstack.pop()
            if fn[0] == "extmod" and fn[1] == "operator.contains" and len(pos) == 2 and not kw:
                return self.member(pos[1], pos[0], node)  # operator.contains(a, b) is `b in a`
            if fn[0] == "extmod" and fn[1] in ("operator.eq", "operator.ne") and len(pos) == 2 and not kw:
                same_ = self.same(pos[0], pos[1])
                return same_ if fn[1] == "operator.eq" else not same_
            if fn[0] == "extmod" and fn[1].startswith("operator.") and fn[1].split(".")[1] in self._OPERATOR:
                ar, op = self._OPERATOR[fn[1].split(".")[1]]
                if len(pos) == ar and not kw:
                    if op is None:
                        if isinstance(pos[0], Rat):
                            return -pos[0]
                        if isinstance(pos[0], LinV):
                            return pos[0].scale(num(-1))
                    else:
                        return self.arith(op(), pos[0], pos[1], node)
        raise AnalysisError("call of %s outside the kernel fragment in %s" % (norm(node), self.fstack[-1].key if self.fstack else "?"))

    def x_UnaryOp(self, e, env):
        v = self.eval(e.operand, env)
        if isinstance(e.op, ast.USub) and isinstance(v, Rat):
            return -v
        if isinstance(e.op, ast.USub) and isinstance(v, LinV):
            return v.scale(num(-1))
        if isinstance(e.op, ast.Not):
            return not self.truth(v, e.operand)
        raise AnalysisError("unary %s" % norm(e))

    def x_BoolOp(self, e, env):
        # Python value semantics: `a or b` is a if a is truthy else b
        last = None
        for i, x in enumerate(e.values):
            last = self.eval(x, env)
            if i == len(e.values) - 1:
                break
            t = self.truth(last, x)
            if isinstance(e.op, ast.And) and not t:
                return last
            if isinstance(e.op, ast.Or) and t:
                return last
        return last

    def x_BinOp(self, e, env):
        return self.arith(e.op, self.eval(e.left, env), self.eval(e.right, env), e)

    def arith(self, op, l, r, node):
        if isinstance(l, NoneT) or isinstance(r, NoneT):
            raise Raised("TypeError")  # arithmetic on None
        if isinstance(op, ast.Add) and isinstance(l, ListV) and isinstance(r, ListV):
            return ListV(list(l.items) + list(r.items))
        if isinstance(op, ast.Add) and isinstance(l, TupV) and isinstance(r, TupV):
            return TupV(list(l.items) + list(r.items))
        if isinstance(op, ast.Add) and isinstance(l, (ListV, TupV)) and isinstance(r, (ListV, TupV)):
            raise Raised("TypeError")  # list + tuple
        if isinstance(l, Rat) and isinstance(r, Rat):
            if isinstance(op, ast.Add):
                return l + r
            if isinstance(op, ast.Sub):
                return l - r
            if isinstance(op, ast.Mult):
                return l * r
            if isinstance(op, ast.Div):
                if r.is_zero():
                    raise Raised("ZeroDivisionError")
                return l / r
        if isinstance(l, LinV) or isinstance(r, LinV):
            if isinstance(op, ast.Add):
                return (l if isinstance(l, LinV) else LinV(const=l)).add(r)
            if isinstance(op, ast.Sub):
                return (l if isinstance(l, LinV) else LinV(const=l)).add(r, -1)
            if isinstance(op, ast.Mult) and isinstance(l, LinV) and isinstance(r, Rat):
                return l.scale(r)
            if isinstance(op, ast.Mult) and isinstance(r, LinV) and isinstance(l, Rat):
                return r.scale(l)
            if isinstance(op, ast.Div) and isinstance(l, LinV) and isinstance(r, Rat):
                return l.scale(num(1) / r)
        if isinstance(l, ListV) and isinstance(r, ListV) and isinstance(op, ast.Add):
            return ListV(l.items + r.items)
        if isinstance(op, ast.Mult) and isinstance(node, ast.BinOp) and (
            (isinstance(node.left, (ast.List, ast.Tuple)) and isinstance(l, ListV) and isinstance(r, Rat)) or (isinstance(node.right, (ast.List, ast.Tuple)) and isinstance(r, ListV) and isinstance(l, Rat))
        ):
            # a list DISPLAY times a number is Python's repetition ([0.0] * n), not an array scaled by a number
            seq_, k_ = (l, r) if isinstance(l, ListV) else (r, l)
            c_ = k_.as_const()
            if c_ is None or c_.denominator != 1:
                raise AnalysisError("list repetition %s by a number that is not a known integer" % norm(node))
            rep_ = list(seq_.items) * max(int(c_), 0)
            return TupV(rep_) if isinstance(seq_, TupV) else ListV(rep_)
        if isinstance(l, ListV) and isinstance(r, Rat) and isinstance(op, (ast.Mult, ast.Div)) and all(isinstance(x, Rat) for x in l.items):
            return ListV([self.arith(op, x, r, node) for x in l.items])  # array * scalar
        if isinstance(r, ListV) and isinstance(l, Rat) and isinstance(op, ast.Mult) and all(isinstance(x, Rat) for x in r.items):
            return ListV([self.arith(op, l, x, node) for x in r.items])
        if isinstance(l, Rec) and isinstance(r, Rec) and isinstance(op, ast.Add):
            return self.method(l, "__add__", [r])
        if isinstance(l, Rec) and type(op) in _DUNDER and self.prog.resolve_method(l.cls, _DUNDER[type(op)]) is not None:
            return self.method(l, _DUNDER[type(op)], [r])
        if isinstance(op, ast.Add) and ((isinstance(l, Key) and isinstance(r, tuple) and r and r[0] == "str") or (isinstance(r, Key) and isinstance(l, tuple) and l and l[0] == "str")):
            # a name used as text, joined with text
            lt_ = l.name if isinstance(l, Key) else l[1]
            rt_ = r.name if isinstance(r, Key) else r[1]
            return ("str", lt_ + rt_)
        if isinstance(l, tuple) and l and l[0] == "str" and isinstance(r, tuple) and r and r[0] == "str" and isinstance(op, ast.Add):
            return ("str", l[1] + r[1])
        if isinstance(l, tuple) and l and l[0] == "str":
            return ("str", "?")
        if isinstance(l, bool) and isinstance(r, bool):
            if isinstance(op, ast.BitAnd):
                return l and r
            if isinstance(op, ast.BitOr):
                return l or r
        raise AnalysisError("arithmetic %s outside the kernel fragment in %s" % (norm(node), self.fstack[-1].key))

    def member(self, l, r, e) -> bool:
        """`l in r`"""
        if isinstance(r, SetV) and isinstance(l, (ListV, DictV)) and not isinstance(l, TupV):
            raise Raised("TypeError")  # unhashable value looked up in a set
        if isinstance(r, DictV) and isinstance(l, (ListV, DictV)) and not isinstance(l, TupV):
            raise Raised("TypeError")  # unhashable value looked up in a dict
        if isinstance(r, (ListV, TupV)):
            return any(self.same(l, x) for x in r.items)
        if isinstance(r, DictV):
            return l in r.d
        if isinstance(r, tuple) and r and r[0] == "str" and isinstance(l, tuple) and l and l[0] == "str" and "?" not in r[1] + l[1]:
            return l[1] in r[1]  # substring test
        if isinstance(r, (Rat, NoneT)) or isinstance(r, bool):
            raise Raised("TypeError")  # `x in 3` / `x in None`
        raise AnalysisError("membership %s" % norm(e))

    def x_Compare(self, e, env):
        if len(e.ops) != 1:
            raise AnalysisError("chained comparison %s" % norm(e))
        l = self.eval(e.left, env)
        r = self.eval(e.comparators[0], env)
        op = e.ops[0]
        if isinstance(op, (ast.In, ast.NotIn)):
            res = self.member(l, r, e)
            return res if isinstance(op, ast.In) else not res
        if isinstance(op, (ast.Eq, ast.NotEq)):
            if isinstance(l, Rat) and isinstance(r, Rat):
                d = l - r
                if d.is_zero():
                    res = True
                else:
                    # generic symbols: a non-identically-zero rational function is non-zero
                    res = False
                return res if isinstance(op, ast.Eq) else not res
            res = self.same(l, r)
            return res if isinstance(op, ast.Eq) else not res
        if isinstance(op, (ast.Is, ast.IsNot)):
            res = (l is r) or (isinstance(l, NoneT) and isinstance(r, NoneT)) or (isinstance(l, tuple) and isinstance(r, tuple) and l[:1] in (("builtin",), ("sentinel",)) and l == r)
            return res if isinstance(op, ast.Is) else not res
        if isinstance(l, ListV) and isinstance(r, Rat) and isinstance(op, (ast.Lt, ast.LtE, ast.Gt, ast.GtE)):
            out = []
            for x in l.items:
                if not isinstance(x, Rat):
                    raise AnalysisError("comparison %s outside the kernel fragment" % norm(e))
                d = x - r
                c = d.as_const()
                sg = ((c > 0) - (c < 0)) if c is not None else (sign_under(d, self.signs) if self.signs else None)
                if sg is None:
                    raise Undecidable("sign of %s is not determined (%s)" % (d.show(), norm(e)))
                out.append({ast.Lt: sg < 0, ast.LtE: sg <= 0, ast.Gt: sg > 0, ast.GtE: sg >= 0}[type(op)])
            return ListV(out)
        if isinstance(l, Rat) and isinstance(r, Rat):
            c = (l - r).as_const()
            if c is not None:
                if isinstance(op, ast.Lt):
                    return c < 0
                if isinstance(op, ast.LtE):
                    return c <= 0
                if isinstance(op, ast.Gt):
                    return c > 0
                if isinstance(op, ast.GtE):
                    return c >= 0
            sg = sign_under(l - r, self.signs) if self.signs else None
            if sg is not None:
                return {ast.Lt: sg < 0, ast.LtE: sg <= 0, ast.Gt: sg > 0, ast.GtE: sg >= 0}[type(op)]
            raise Undecidable("sign of %s is not determined (%s)" % ((l - r).show(), norm(e)))
        raise AnalysisError("comparison %s outside the kernel fragment" % norm(e))

    def same(self, a, b) -> bool:
        if isinstance(a, Key) and isinstance(b, Key):
            return a == b
        if isinstance(a, tuple) and isinstance(b, tuple):
            return a == b
        if a is b:
            return True
        return self.py_eq(a, b)

    def py_eq(self, a, b, depth: int = 0) -> bool:
        """Python's `a == b`: identity first, then the class's own __eq__ for records of the package, element by
        element for lists / tuples / dictionaries, the value for numbers and text."""
        if a is b:
            return True
        if depth > 6:
            return False
        if isinstance(a, Rat) and isinstance(b, Rat):
            return (a - b).is_zero()
        if isinstance(a, Key) and isinstance(b, Key):
            return a == b
        if isinstance(a, NoneT) and isinstance(b, NoneT):
            return True
        if isinstance(a, bool) and isinstance(b, bool):
            return a == b
        if isinstance(a, Rec) and isinstance(b, Rec):
            fi = self.prog.resolve_method(a.cls, "__eq__")
            if fi is None or len(self.fstack) > 40:
                return False
            return bool(self.truth(self.call(fi, [b], {}, self_val=a)))
        if isinstance(a, TupV) != isinstance(b, TupV):
            return False
        if isinstance(a, (ListV, TupV)) and isinstance(b, (ListV, TupV)) and not isinstance(a, SetV) and not isinstance(b, SetV):
            return len(a.items) == len(b.items) and all(self.py_eq(x, y, depth + 1) for x, y in zip(a.items, b.items))
        if isinstance(a, DictV) and isinstance(b, DictV):
            return set(a.d) == set(b.d) and all(self.py_eq(a.d[k], b.d[k], depth + 1) for k in a.d)
        if isinstance(a, tuple) and isinstance(b, tuple):
            return a == b
        return False

    def linsolve(self, m, v) -> "ListV":
        """numpy.linalg.solve on a square matrix of generic symbols (Gauss-Jordan; a singular matrix raises
        LinAlgError, which is a ValueError)."""
        if not (isinstance(m, ListV) and isinstance(v, ListV) and all(isinstance(r, ListV) for r in m.items)):
            raise AnalysisError("numpy.linalg.solve on something that is not a matrix of numbers")
        n = len(m.items)
        if any(len(r.items) != n for r in m.items) or len(v.items) != n:
            raise Raised("LinAlgError")
        a = [[x for x in r.items] + [v.items[i]] for i, r in enumerate(m.items)]
        for col in range(n):
            piv = next((r for r in range(col, n) if not a[r][col].is_zero()), None)
            if piv is None:
                raise Raised("LinAlgError")
            a[col], a[piv] = a[piv], a[col]
            pv = a[col][col]
            a[col] = [x / pv for x in a[col]]
            for r in range(n):
                if r != col and not a[r][col].is_zero():
                    f = a[r][col]
                    a[r] = [x - f * y for x, y in zip(a[r], a[col])]
        return ListV([a[i][n] for i in range(n)])

    def lstsq(self, m, v) -> "TupV":
        """numpy.linalg.lstsq: for a square matrix that is invertible the solution of the system; otherwise, on
        numbers, the least-squares solution of smallest norm (pseudo-inverse through a full-rank factorisation, in exact
        rationals) - which solves nothing exactly when the system has no solution."""
        if not (isinstance(m, ListV) and isinstance(v, ListV) and m.items and all(isinstance(r, ListV) for r in m.items)):
            raise AnalysisError("numpy.linalg.lstsq on something that is not a matrix of numbers")
        rows, n = len(m.items), len(m.items[0].items)
        if any(len(r.items) != n for r in m.items) or len(v.items) != rows:
            raise Raised("LinAlgError")
        if rows == n:
            try:
                x = self.linsolve(m, v)
                return TupV([x, ListV([]), num(n), ListV([])])
            except Raised:
                pass
        a = [[x.as_const() if isinstance(x, Rat) else None for x in r.items] for r in m.items]
        b = [x.as_const() if isinstance(x, Rat) else None for x in v.items]
        if any(x is None for r in a for x in r) or any(x is None for x in b):
            raise AnalysisError("numpy.linalg.lstsq on a symbolic system without an exact solution")
        # reduced row echelon form -> pivot columns
        red = [list(r) for r in a]
        piv: List[int] = []
        r0 = 0
        for col in range(n):
            pr = next((r for r in range(r0, rows) if red[r][col] != 0), None)
            if pr is None:
                continue
            red[r0], red[pr] = red[pr], red[r0]
            pv_ = red[r0][col]
            red[r0] = [x / pv_ for x in red[r0]]
            for r in range(rows):
                if r != r0 and red[r][col] != 0:
                    f_ = red[r][col]
                    red[r] = [x - f_ * y for x, y in zip(red[r], red[r0])]
            piv.append(col)
            r0 += 1
        rank = len(piv)
        if rank == 0:
            return TupV([ListV([num(0) for _ in range(n)]), ListV([]), num(0), ListV([])])
        C = [[a[r][c] for c in piv] for r in range(rows)]  # rows x rank
        F = [red[k] for k in range(rank)]  # rank x n

        def mul(X, Y):
            return [[sum(X[i][k] * Y[k][j] for k in range(len(Y))) for j in range(len(Y[0]))] for i in range(len(X))]

        def tr(X):
            return [list(c) for c in zip(*X)]

        def inv(X):
            k = len(X)
            aug = [list(X[i]) + [Fraction(int(i == j)) for j in range(k)] for i in range(k)]
            for c in range(k):
                pr = next(r for r in range(c, k) if aug[r][c] != 0)
                aug[c], aug[pr] = aug[pr], aug[c]
                d = aug[c][c]
                aug[c] = [x / d for x in aug[c]]
                for r in range(k):
                    if r != c and aug[r][c] != 0:
                        f_ = aug[r][c]
                        aug[r] = [x - f_ * y for x, y in zip(aug[r], aug[c])]
            return [row[k:] for row in aug]

        pinv = mul(mul(tr(F), inv(mul(F, tr(F)))), mul(inv(mul(tr(C), C)), tr(C)))
        x = [sum(pinv[i][k] * b[k] for k in range(rows)) for i in range(n)]
        return TupV([ListV([num(q) for q in x]), ListV([]), num(rank), ListV([])])

    def struct_eq(self, a, b) -> bool:
        """Structural equality of symbolic values (what == means for terms: same keys, identical coefficients)."""
        if a is b:
            return True
        if isinstance(a, Rat) and isinstance(b, Rat):
            return a.equals(b)
        if isinstance(a, Key) and isinstance(b, Key):
            return a == b
        if isinstance(a, Rec) and isinstance(b, Rec):
            return a.cls == b.cls and set(a.f) == set(b.f) and all(self.struct_eq(a.f[k], b.f[k]) for k in a.f)
        if isinstance(a, DictV) and isinstance(b, DictV):
            return set(a.d) == set(b.d) and all(self.struct_eq(a.d[k], b.d[k]) for k in a.d)
        if isinstance(a, (ListV, TupV)) and type(a) is type(b):
            return len(a.items) == len(b.items) and all(self.struct_eq(x, y) for x, y in zip(a.items, b.items))
        if isinstance(a, NoneT) and isinstance(b, NoneT):
            return True
        if isinstance(a, (tuple, bool)) and isinstance(b, (tuple, bool)):
            return a == b
        return False

    def x_IfExp(self, e, env):
        return self.eval(e.body if self.truth(self.eval(e.test, env), e.test) else e.orelse, env)

    def _comp(self, e, env, out):
        def rec(gi, env2):
            if gi == len(e.generators):
                out(env2)
                return
            g = e.generators[gi]
            for x in self.iterate(self.eval(g.iter, env2), g.iter):
                env3 = dict(env2)
                self.assign(g.target, x, env3)
                if all(self.truth(self.eval(c, env3), c) for c in g.ifs):
                    rec(gi + 1, env3)

        rec(0, dict(env))

    def x_NamedExpr(self, e, env):
        v = self.eval(e.value, env)
        if not isinstance(e.target, ast.Name):
            raise AnalysisError("walrus target %s" % norm(e.target))
        env[e.target.id] = v  # (name := value): bound where it stands (inside a comprehension: for that iteration)
        return v

    def x_ListComp(self, e, env):
        res = ListV()
        self._comp(e, env, lambda en: res.items.append(self.eval(e.elt, en)))
        return res

    def x_GeneratorExp(self, e, env):
        return self.x_ListComp(e, env)

    def x_DictComp(self, e, env):
        res = DictV()

        def add(en):
            k = self.eval(e.key, en)
            if not (isinstance(k, Key) or (isinstance(k, tuple) and k and k[0] == "str" and "?" not in k[1])):
                raise AnalysisError("dict comprehension key %s" % norm(e.key))
            res.d[k] = self.eval(e.value, en)

        self._comp(e, env, add)
        return res

    def x_Call(self, e, env):
        f = self.eval(e.func, env) if not (isinstance(e.func, ast.Attribute) and norm(e.func).startswith("logging.")) else ("ignore",)
        if f == ("ignore",):
            return NONE
        if isinstance(f, tuple) and len(f) == 2 and f[0] == "extmod" and f[1] in _STDLIB_ALIASES and f[1] not in self.ext_stubs:
            f = ("builtin", _STDLIB_ALIASES[f[1]])  # functools.reduce / itertools.product ... : the same functions, qualified
        if isinstance(f, tuple) and f == ("builtin", "isinstance") and len(e.args) == 2 and isinstance(e.args[1], ast.Name) and self.fstack and e.args[1].id not in env:
            # the kinds named through a module-level constant: `_SYMBOL_TYPES = (str, sympy.Symbol)`
            lit = self.fstack[-1].module.assigns.get(e.args[1].id)
            if isinstance(lit, (ast.Tuple, ast.Name, ast.Attribute)):
                e = ast.Call(func=e.func, args=[e.args[0], lit], keywords=[])
        if isinstance(f, tuple) and f == ("builtin", "isinstance") and len(e.args) == 2 and isinstance(e.args[1], ast.Tuple):
            v0 = self.eval(e.args[0], env)
            tname = norm(e.args[1])
            if isinstance(v0, Key):
                return "Symbol" in tname or "str" in tname
            if isinstance(v0, Rat):
                return "float" in tname or "int" in tname
            if isinstance(v0, tuple) and v0 and v0[0] == "str":
                return "str" in tname
            if not isinstance(v0, (ListV, TupV, DictV, bool)):
                return False
            # containers: decided by the general test below
        if isinstance(f, tuple) and f == ("builtin", "isinstance") and len(e.args) == 2:
            root = e.args[1]
            while isinstance(root, ast.Attribute):
                root = root.value
            if isinstance(root, ast.Name) and isinstance(e.args[1], ast.Attribute) and self.fstack and root.id in self.fstack[-1].module.imports and not self.fstack[-1].module.imports[root.id].startswith("pacti"):
                return False  # a third-party type (sympy Float, pp.ParseResults): our symbolic values are not instances of it
        pos = []
        for a in e.args:
            if isinstance(a, ast.Starred):
                pos.extend(self.iterate(self.eval(a.value, env), a.value))  # f(*xs)
            else:
                pos.append(self.eval(a, env))
        kw = {}
        for k in e.keywords:
            if k.arg is None:
                dv = self.eval(k.value, env)  # f(**d)
                if not isinstance(dv, DictV):
                    raise AnalysisError("** of %s" % norm(k.value))
                for kk, vv in dv.d.items():
                    kw[kk[1] if isinstance(kk, tuple) else getattr(kk, "name", kk)] = vv
            else:
                kw[k.arg] = self.eval(k.value, env)
        if isinstance(f, FuncInfo):
            return self.call(f, pos, kw)
        if f.__class__.__name__ == "ClassInfo":
            if f.name == "Var":
                if pos and isinstance(pos[0], Key):
                    return pos[0]
                if pos and isinstance(pos[0], tuple) and pos[0][0] == "str":
                    return Key(pos[0][1])
                return Key("v?")
            return self.construct(f.name, pos, kw)
        if isinstance(f, tuple):
            t = f[0]
            if t == "typeof" and isinstance(f[1], Rec):
                return self.construct(f[1].cls, pos, kw)
            if t == "strmeth":
                if f[2] == "format" and "?" not in f[1]:
                    done_ = self._str_format(f[1], pos, kw)
                    if done_ is not None:
                        return ("str", done_)
                return ("str", "?")  # some text: only its being text matters to the rules
            if t == "strjoin" and len(pos) == 1:
                parts = self.iterate(pos[0], e)
                if all(isinstance(x, tuple) and x and x[0] == "str" for x in parts):
                    return ("str", f[1].join(x[1] for x in parts))
                return ("str", "?")
            if t == "bound":
                fi = f[2]
                if fi.kind == "static":
                    return self.call(fi, pos, kw)
                return self.call(fi, pos, kw, self_val=f[1])
            if t == "unbound":
                fi = f[2]
                if fi.kind == "static":
                    return self.call(fi, pos, kw)
                return self.call(fi, pos[1:], kw, self_val=pos[0])
            if t in ("lambda", "closure", "partialv") or (t == "extmod" and f[1].startswith("operator.")):
                return self.apply(f, pos, kw, e)
            if t == "extmod" and f[1] in ("functools.partial", "partial") and pos:
                return ("partialv", pos[0], list(pos[1:]), dict(kw))
            if t == "extmod":
                if f[1] in self.ext_stubs:
                    return self.ext_stubs[f[1]](self, pos, kw)
                if f[1] in ("numpy.array", "numpy.asarray") and pos and isinstance(pos[0], (ListV, TupV)):
                    return ListV([ListV(list(x.items)) if isinstance(x, (ListV, TupV)) else x for x in pos[0].items])
                if f[1] in ("numpy.any", "numpy.all") and pos and isinstance(pos[0], ListV) and all(isinstance(x, bool) for x in pos[0].items):
                    return any(pos[0].items) if f[1].endswith("any") else all(pos[0].items)
                if f[1] in ("numpy.isclose", "math.isclose") and len(pos) >= 2 and isinstance(pos[0], Rat) and isinstance(pos[1], Rat):
                    d = pos[0] - pos[1]
                    if d.is_zero():
                        return True
                    cd, cb = d.as_const(), pos[1].as_const()
                    if cd is not None and cb is not None:
                        return abs(cd) <= Fraction(1, 10**8) + Fraction(1, 10**5) * abs(cb)
                    return False  # generic symbols: not within a tolerance of each other
                if f[1] in ("numpy.abs", "numpy.absolute", "numpy.fabs", "math.fabs") and len(pos) == 1 and isinstance(pos[0], Rat):
                    c_ = pos[0].as_const()
                    if c_ is None:
                        sg_ = sign_under(pos[0], self.signs) if self.signs else None
                        if sg_ is None:
                            raise Undecidable("abs of a symbol")
                        return pos[0] if sg_ >= 0 else -pos[0]
                    return num(abs(c_))
                if f[1] in ("numpy.equal", "numpy.not_equal", "operator.eq", "operator.ne") and len(pos) == 2 and not isinstance(pos[0], ListV) and not isinstance(pos[1], ListV):
                    same_ = self.py_eq(pos[0], pos[1])
                    return same_ if f[1] in ("numpy.equal", "operator.eq") else not same_
                if f[1] in ("numpy.linalg.solve", "scipy.linalg.solve") and len(pos) == 2:
                    return self.linsolve(pos[0], pos[1])
                if f[1] in ("numpy.linalg.lstsq", "scipy.linalg.lstsq") and len(pos) >= 2:
                    return self.lstsq(pos[0], pos[1])
                if f[1].endswith("sympy.symbols") and pos and isinstance(pos[0], tuple) and pos[0][0] == "str":
                    return LinV({Key(pos[0][1]): num(1)})
                raise AnalysisError("external call %s outside the kernel fragment in %s" % (f[1], self.fstack[-1].key))
            if t == "linm":
                if f[2] == "as_coefficients_dict":
                    d = DictV()
                    for k_, v_ in f[1].coefs.items():
                        if not v_.is_zero():
                            d.d[k_] = v_
                    if not f[1].const.is_zero():
                        d.d[num(1)] = f[1].const  # sympy keys the constant part by the number 1
                    return d
                raise AnalysisError("sympy method %s outside the kernel fragment" % f[2])
            if t == "dictm":
                d, name = f[1], f[2]
                if name == "items":
                    return ListV([TupV([k, v]) for k, v in d.d.items()])
                if name == "keys":
                    return ListV(list(d.d.keys()))
                if name == "values":
                    return ListV(list(d.d.values()))
                if name == "copy":
                    return DictV(d.d)
                if name == "pop":
                    if pos[0] not in d.d:
                        raise Raised("KeyError")
                    return d.d.pop(pos[0])
                if name == "get":
                    return d.d.get(pos[0], pos[1] if len(pos) > 1 else NONE)
                if name == "update" and len(pos) == 1 and isinstance(pos[0], DictV) and not kw:
                    d.d.update(pos[0].d)
                    return NONE
                if name == "setdefault" and len(pos) == 2:
                    return d.d.setdefault(pos[0], pos[1])
            if t == "listm":
                l, name = f[1], f[2]
                if name == "append":
                    l.items.append(pos[0])
                    return NONE
                if name == "extend" and len(pos) == 1:
                    l.items.extend(self.iterate(pos[0], e))
                    return NONE
                if name == "insert" and len(pos) == 2 and isinstance(pos[0], Rat) and pos[0].as_const() is not None:
                    l.items.insert(int(pos[0].as_const()), pos[1])
                    return NONE
                if name == "pop" and not pos:
                    if not l.items:
                        raise Raised("IndexError")
                    return l.items.pop()
                if name == "copy":
                    return ListV(l.items)
                if name == "remove":
                    for i_, x_ in enumerate(l.items):
                        if x_ is pos[0]:
                            del l.items[i_]
                            return NONE
                    for i_, x_ in enumerate(l.items):  # list.remove compares with ==
                        if self.struct_eq(x_, pos[0]):
                            del l.items[i_]
                            return NONE
                    raise Raised("ValueError")
                if name == "sort":
                    def k_(x):
                        y = x.items[0] if isinstance(x, TupV) else x
                        return y.name if isinstance(y, Key) else str(y)
                    l.items.sort(key=k_)
                    return NONE
            if t == "builtin":
                n = f[1]
                if n in ("float", "int", "abs") and pos and isinstance(pos[0], Rat):
                    if n == "abs":
                        c_ = pos[0].as_const()
                        if c_ is None:
                            raise Undecidable("abs of a symbol")
                        return num(abs(c_))
                    return pos[0]
                if n == "list":
                    return ListV(self.iterate(pos[0], e)) if pos else ListV()
                if n == "dict":
                    if not pos:
                        return DictV()
                    if isinstance(pos[0], DictV):
                        d_ = DictV(pos[0].d)
                    else:
                        # dict(pairs): later pairs overwrite earlier ones with the same key
                        d_ = DictV()
                        for pair_ in self.iterate(pos[0], e):
                            kv_ = self.iterate(pair_, e)
                            if len(kv_) != 2:
                                raise Raised("ValueError")
                            k_ = kv_[0]
                            if isinstance(k_, (ListV, DictV)) and not isinstance(k_, TupV):
                                raise Raised("TypeError")
                            if not (isinstance(k_, Key) or (isinstance(k_, tuple) and k_ and k_[0] == "str")):
                                raise AnalysisError("dict(%s) with keys outside the kernel fragment" % norm(e.args[0]))
                            d_.d[k_] = kv_[1]
                    for kk_, vv_ in kw.items():
                        d_.d[("str", kk_)] = vv_
                    return d_
                if n in ("min", "max") and pos:
                    # over numbers that are known (or whose order the scenario's signs fix); with key=: the first item
                    # whose key is extreme, as Python does
                    items_ = list(self.iterate(pos[0], e)) if len(pos) == 1 else list(pos)
                    if not items_:
                        if "default" in kw:
                            return kw["default"]
                        raise Raised("ValueError")
                    keyf_ = kw.get("key")
                    keys_ = [self.apply(keyf_, [x_], {}, e) if keyf_ is not None and not isinstance(keyf_, NoneT) else x_ for x_ in items_]
                    best_ = 0
                    for i_ in range(1, len(items_)):
                        if not (isinstance(keys_[i_], Rat) and isinstance(keys_[best_], Rat)):
                            raise AnalysisError("%s over values that are not numbers" % n)
                        d_ = keys_[i_] - keys_[best_]
                        c_ = d_.as_const()
                        sg_ = ((c_ > 0) - (c_ < 0)) if c_ is not None else (sign_under(d_, self.signs) if self.signs else None)
                        if sg_ is None:
                            raise Undecidable("order of %s and %s is not determined (%s)" % (keys_[i_].show(), keys_[best_].show(), n))
                        if (sg_ > 0 and n == "max") or (sg_ < 0 and n == "min"):
                            best_ = i_
                    return items_[best_]
                if n == "sorted":
                    items = self.iterate(pos[0], e)

                    def k_sorted(x):
                        # same convention as list.sort above: by the name of the key (first component of a pair)
                        y = x.items[0] if isinstance(x, TupV) and x.items else x
                        return y.name if isinstance(y, Key) else self.text_of(y)

                    return ListV(sorted(items, key=k_sorted))
                if n == "len":
                    if isinstance(pos[0], Key):
                        return num(len(pos[0].name))  # a name used as text
                    if isinstance(pos[0], tuple) and pos[0] and pos[0][0] == "str":
                        if "?" in pos[0][1]:
                            raise AnalysisError("length of a text that was not followed")
                        return num(len(pos[0][1]))
                    return num(len(self.iterate(pos[0], e)))
                if n == "type":
                    return ("typeof", pos[0])
                if n == "bool" and len(pos) == 1:
                    return self.truth(pos[0], e)
                if n == "next" and pos:
                    items_ = self.iterate(pos[0], e)
                    if items_:
                        return items_[0]
                    if len(pos) > 1:
                        return pos[1]
                    raise Raised("StopIteration")
                if n == "format" and len(pos) == 2 and isinstance(pos[0], Rat) and pos[0].as_const() is not None and isinstance(pos[1], tuple) and pos[1][0] == "str" and "?" not in pos[1][1]:
                    return ("str", format(float(pos[0].as_const()), pos[1][1]))
                if n == "format":
                    return ("str", "?")
                if n in ("set", "frozenset"):
                    return SetV(list(self.iterate(pos[0], e)) if pos else [])
                if n in ("iter", "tuple", "reversed") and len(pos) == 1:
                    items_ = list(self.iterate(pos[0], e))
                    return ListV(items_[::-1] if n == "reversed" else items_)
                if n == "sum" and pos:
                    acc_ = pos[1] if len(pos) > 1 else num(0)
                    for x_ in self.iterate(pos[0], e):
                        acc_ = self.arith(ast.Add(), acc_, x_, e)
                    return acc_
                if n in ("all", "any"):
                    vals = [self.truth(v) for v in self.iterate(pos[0], e)]
                    return all(vals) if n == "all" else any(vals)
                if n == "isinstance":
                    tname = norm(e.args[1])
                    v = pos[0]
                    if isinstance(v, Key) and "Symbol" in tname:
                        return True
                    if isinstance(v, Rat) and "Symbol" in tname and "float" not in tname:
                        return False
                    if isinstance(pos[1], tuple) and pos[1] and pos[1][0] == "typeof":
                        o = pos[1][1]
                        return isinstance(v, Rec) and isinstance(o, Rec) and self.prog.is_subclass(v.cls, o.cls)
                    # the kinds given as values (a name bound to `dict`, a module-level tuple `(int, float)`)
                    kinds_v = pos[1].items if isinstance(pos[1], TupV) else [pos[1]]
                    if all(isinstance(k_, tuple) and len(k_) == 2 and k_[0] == "builtin" for k_ in kinds_v) and not all(isinstance(t_, ast.Name) and t_.id in ("int", "float", "str", "list", "dict", "tuple", "bool") for t_ in (e.args[1].elts if isinstance(e.args[1], ast.Tuple) else [e.args[1]])):
                        simple_v = {"str": lambda x: isinstance(x, tuple) and bool(x) and x[0] == "str", "dict": lambda x: isinstance(x, DictV), "list": lambda x: isinstance(x, ListV), "tuple": lambda x: isinstance(x, TupV), "int": lambda x: isinstance(x, Rat), "float": lambda x: isinstance(x, Rat), "bool": lambda x: isinstance(x, bool)}
                        if all(k_[1] in simple_v for k_ in kinds_v):
                            return any(simple_v[k_[1]](v) for k_ in kinds_v)
                    type_nodes = e.args[1].elts if isinstance(e.args[1], ast.Tuple) else [e.args[1]]
                    simple = {"str": lambda x: isinstance(x, tuple) and bool(x) and x[0] == "str", "dict": lambda x: isinstance(x, DictV), "list": lambda x: isinstance(x, ListV), "tuple": lambda x: isinstance(x, TupV), "int": lambda x: isinstance(x, Rat), "float": lambda x: isinstance(x, Rat), "bool": lambda x: isinstance(x, bool)}
                    names_ = [norm(t_).split(".")[-1].lower() if norm(t_).split(".")[-1] in ("Dict", "List", "Tuple") else norm(t_).split(".")[-1] for t_ in type_nodes]
                    if all(n_ in simple for n_ in names_):
                        return any(simple[n_](v) for n_ in names_)
                    if any(n_ in simple and simple[n_](v) for n_ in names_):
                        return True
                    if isinstance(v, Rec):
                        names = [tname] if not isinstance(e.args[1], ast.Tuple) else [norm(x) for x in e.args[1].elts]
                        return any(self.prog.is_subclass(v.cls, t_) for t_ in names if t_ in self.prog.classes)
                    if tname == "float":
                        return isinstance(v, Rat)
                    return False
                if n == "zip":
                    seqs = [self.iterate(x, e) for x in pos]
                    return ListV([TupV(list(t)) for t in zip(*seqs)])
                if n == "range":
                    cs = [x.as_const() for x in pos]
                    return ListV([num(i) for i in range(*[int(c) for c in cs])])
                if n == "product":
                    rep = kw.get("repeat")
                    r = int(rep.as_const()) if rep is not None else 1
                    import itertools as _it

                    return ListV([TupV(list(t)) for t in _it.product(*[self.iterate(x, e) for x in pos], repeat=r)])
                if n in ("chain", "chain.from_iterable"):
                    parts_ = [self.iterate(x, e) for x in (pos if n == "chain" else self.iterate(pos[0], e))]
                    return ListV([y for part in parts_ for y in part])
                if n == "combinations" and len(pos) == 2 and isinstance(pos[1], Rat) and pos[1].as_const() is not None:
                    import itertools as _it

                    return ListV([TupV(list(t)) for t in _it.combinations(self.iterate(pos[0], e), int(pos[1].as_const()))])
                if n == "islice" and len(pos) in (2, 3) and all(isinstance(x, (Rat, NoneT)) for x in pos[1:]):
                    import itertools as _it

                    bounds_ = [None if isinstance(x, NoneT) else int(x.as_const()) for x in pos[1:]]
                    return ListV(list(_it.islice(self.iterate(pos[0], e), *bounds_)))
                if n in ("filter", "filterfalse") and len(pos) == 2:
                    keep_ = n == "filter"
                    if isinstance(pos[0], NoneT):
                        return ListV([x for x in self.iterate(pos[1], e) if self.truth(x) == keep_])
                    return ListV([x for x in self.iterate(pos[1], e) if self.truth(self.apply(pos[0], [x], {}, e)) == keep_])
                if n == "starmap" and len(pos) == 2:
                    return ListV([self.apply(pos[0], list(self.iterate(t, e)), {}, e) for t in self.iterate(pos[1], e)])
                if n == "reduce":
                    fn, seq = pos[0], list(self.iterate(pos[1], e))
                    acc = pos[2] if len(pos) > 2 else seq.pop(0)
                    for x in seq:
                        acc = self.apply(fn, [acc, x], {}, e)
                    return acc
                if n == "map" and len(pos) >= 2:
                    seqs = [self.iterate(x, e) for x in pos[1:]]
                    return ListV([self.apply(pos[0], list(t), {}, e) for t in zip(*seqs)])
                if n == "enumerate":
                    return ListV([TupV([num(i), x]) for i, x in enumerate(self.iterate(pos[0], e))])
                if n == "str":
                    return ("str", self.text_of(pos[0])) if pos else ("str", "")
                if n == "Var":
                    return pos[0]
        if isinstance(f, tuple) and f and f[0] == "builtin" and f[1] == "type":
            return ("type",)
        raise AnalysisError("call %s outside the kernel fragment in %s" % (norm(e), self.fstack[-1].key))


_STDLIB_ALIASES = {
    "functools.reduce": "reduce",
    "itertools.product": "product",
    "itertools.chain": "chain",
    "itertools.chain.from_iterable": "chain.from_iterable",
    "itertools.combinations": "combinations",
    "itertools.islice": "islice",
    "itertools.filterfalse": "filterfalse",
    "itertools.starmap": "starmap",
    "builtins.map": "map",
    "builtins.filter": "filter",
}


class _Brk(Exception):
    pass


class _Cont(Exception):
    pass


def _load(t):
    import copy as _c

    n = _c.deepcopy(t)
    for x in ast.walk(n):
        if hasattr(x, "ctx"):
            x.ctx = ast.Load()
    return n


def coefs(t: Rec) -> Dict[str, Rat]:
    return {k.name: v for k, v in t.f["variables"].d.items()}
